"""Per-property registration used by tools/mk_manifest.py (MANIFEST.json is generated from this)."""

TECH = "Lean 4 theorems over a model (generated from /repo by tools/extract + hand-written), tied by differential correspondence; failing-input search by property oracle on the real code"

REGISTRY = {
    "C20": {
        "text": "Proof: Lean theorems state the contracts of align/check_range/swap16/SecBootBlckSize/mem-id over bodies that are "
                "re-translated from /repo's Python AST on every run (so a changed body must re-prove), and of value_to_int, "
                "get_bytes_cnt_of_int/value_to_bytes, reverse_bits, reverse_bytes_in_longs, change_endianness, swap_bytes, align_block, "
                "extend_block, BinaryPattern, BcdVersion3 over a hand model tied by exhaustive small-domain correspondence "
                "(every string <=4 over a 16-char alphabet etc.).",
        "note": "Trusted: Lean kernel; translator tools/extract/py2lean.py (validated each run: generated functions are also compared with the "
                "real ones on the sweep); Python built-ins. Not covered: file branch of load_hex_string, non-ASCII strings beyond samples, "
                "negative ints for get_bytes_cnt_of_int/reverse_bits.",
        "design_ref": "§6 C20",
    },
    "C11": {
        "text": "Proof: 18 Lean theorems over a hand model of Register/RegsBitField/Registers (bit-level meaning of a field write, get-after-set, "
                "frame, rejection of values that do not fit, byte-reversed and grouped views consistent, well-formedness preserved by every op, "
                "history theorems by induction over op sequences: a field reads the last value written to it; export/parse restores every value). "
                "The model is tied to /repo by comparing the complete observable state after every op of random op sequences over random layouts.",
        "note": "Trusted: Lean kernel, the op-sequence correspondence (generator quality bounds the tie), Python int semantics. Config processors other "
                "than SHIFT_RIGHT, alt-width registers (oracle only), YAML rendering are not modelled. get_config/load_yml_config round trip and purity "
                "of read-only queries are decided on the real code (differential), not by theorem.",
        "design_ref": "§6 C11",
    },
}

# properties the technique cannot decide at all (none so far); others not yet in REGISTRY are listed as "not built yet"
NOT_APPLICABLE = {}
