"""Per-property registration used by tools/mk_manifest.py (MANIFEST.json is generated from this)."""

TECH = "Lean 4 theorems over a model (generated from /repo by tools/extract + hand-written), tied by differential correspondence; failing-input search by property oracle on the real code"

REGISTRY = {
    "C20": {
        "text": "Proof: Lean theorems state the contracts of align/check_range/swap16/SecBootBlckSize/mem-id over bodies that are "
                "re-translated from /repo's Python AST on every run (so a changed body must re-prove), and of value_to_int, "
                "get_bytes_cnt_of_int/value_to_bytes, reverse_bits, reverse_bytes_in_longs, change_endianness, swap_bytes, align_block, "
                "extend_block, BinaryPattern, BcdVersion3 over a hand model tied by exhaustive small-domain correspondence "
                "(every string <=4 over a 16-char alphabet etc.).",
        "note": "Trusted: Lean kernel; translator tools/extract/py2lean.py (validated each run: generated functions are also compared with the "
                "real ones on the sweep); Python built-ins. Not covered: file branch of load_hex_string, non-ASCII strings beyond samples, "
                "negative ints for get_bytes_cnt_of_int/reverse_bits.",
        "design_ref": "§6 C20",
    },
}

# properties the technique cannot decide at all (none so far); others not yet in REGISTRY are listed as "not built yet"
NOT_APPLICABLE = {}
