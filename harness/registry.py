"""Per-property registration used by tools/mk_manifest.py (MANIFEST.json is generated from this).

Each claimed property has harness/registry/<ID>.json with keys: text (level_claimed.text), note (level_note = trusted base /
assumptions / partial clauses), design_ref, optional technique.  A property without a file is listed under not_applicable
as "not built yet" unless NOT_APPLICABLE gives a real reason.
"""
import json
from pathlib import Path

TECH = ("Lean 4 theorems over a model (generated from /repo by tools/extract + hand-written), tied by differential correspondence; "
        "failing-input search by property oracle on the real code")

REGISTRY = {p.stem: json.loads(p.read_text()) for p in sorted((Path(__file__).parent / "registry").glob("C*.json"))}

# properties the technique cannot decide at all (none so far)
NOT_APPLICABLE = {}
