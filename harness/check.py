#!/usr/bin/env python3
"""Entry point of every registered check.  See vcore.py and DESIGN.md §3."""
from __future__ import annotations

import argparse
import importlib
import json
import os
import shutil
import sys
import tempfile
import traceback
from pathlib import Path

sys.path.insert(0, str(Path(__file__).resolve().parent))
import vcore  # noqa: E402


def setup() -> int:
    """MANIFEST.setup_cmd: regenerate, build every Lean module and native driver from files on disk."""
    import subprocess
    rc, out = vcore.sh([sys.executable, str(vcore.VERIF / "tools" / "extract" / "extract.py")], timeout=1200)
    print(out[-2000:])
    if rc != 0:
        return 2
    props = sorted(p.stem for p in (vcore.LEAN / "SpsdkVerif" / "Properties").glob("C*.lean"))
    targets = [f"SpsdkVerif.Properties.{p}" for p in props]
    drivers = sorted("drv_" + p.stem.lower() for p in (vcore.LEAN / "Driver").glob("C*.lean"))
    with vcore.lake_lock():
        p = subprocess.run(["lake", "build", *targets, *drivers], cwd=vcore.LEAN)
    # a failing build here is not fatal for setup: each check reports its own obligations
    print(f"setup: lake build rc={p.returncode} ({len(targets)} property modules, {len(drivers)} drivers)")
    return 0


def main() -> int:
    ap = argparse.ArgumentParser()
    ap.add_argument("prop", nargs="?")
    ap.add_argument("--tier", default=os.environ.get("VERIF_TIER", "quick"), choices=["quick", "thorough"])
    ap.add_argument("--replay")
    ap.add_argument("--setup", action="store_true")
    a = ap.parse_args()
    if a.setup:
        return setup()
    if not a.prop:
        ap.error("property id required")
    seed = int(os.environ.get("VERIF_SEED", "0") or 0)
    # private scratch + private SPSDK cache so that checks never disturb each other or the user's cache
    scratch = Path(tempfile.mkdtemp(prefix=f"verif-{a.prop}-"))
    os.environ.setdefault("VERIF_SCRATCH", str(scratch))
    os.environ.setdefault("SPSDK_CACHE_FOLDER", str(Path(tempfile.gettempdir()) / "verif-spsdk-cache"))
    ck = vcore.Check(a.prop, a.tier, seed)
    try:
        mod = importlib.import_module(f"props.{a.prop}")
        if a.replay:
            data = json.loads(Path(a.replay).read_text())
            mod.replay(ck, data)
        else:
            mod.run(ck)
        return ck.finish()
    except vcore.Infra as exc:
        print(f"INFRASTRUCTURE-ERROR property={a.prop}: {exc}", file=sys.stderr)
        return 2
    except Exception:  # noqa: BLE001
        tb = traceback.format_exc()
        sys.stderr.write(tb)
        repo_frames = [ln for ln in tb.splitlines() if ln.strip().startswith("File") and (str(vcore.REPO) + "/spsdk") in ln]
        last = tb.strip().splitlines()[-1]
        if repo_frames and not last.startswith(("ImportError", "ModuleNotFoundError", "SyntaxError", "IndentationError")):
            # The real code raised where it did not on the unchanged tree: the correspondence run is broken.  No concrete
            # property-violating input was isolated, so this is reported as "no-failing-input-found" with the traceback as replay.
            rd = vcore.VERIF / "replays"
            rd.mkdir(exist_ok=True)
            path = rd / f"{a.prop}-{a.tier}-{seed}-crash.json"
            path.write_text(json.dumps({"property": a.prop, "kind": "implementation-raised-inside-correspondence-run",
                                        "no_longer_checks": ["correspondence/oracle run aborted by an exception raised inside /repo code"],
                                        "traceback": tb[-6000:], "seed": seed, "tier": a.tier}, indent=1))
            try:
                ck.broken.append("correspondence run aborted by an exception raised inside the implementation: " + tb.strip().splitlines()[-1][:300])
                ck.write_evidence(1, {})
            except Exception:  # noqa: BLE001
                pass
            print(f"VIOLATION property={a.prop} replay={path} no-failing-input-found")
            return 1
        print(f"INFRASTRUCTURE-ERROR property={a.prop}: harness crashed (not a verdict)", file=sys.stderr)
        return 2
    finally:
        shutil.rmtree(scratch, ignore_errors=True)


if __name__ == "__main__":
    sys.exit(main())
