"""Shared machinery of the /verif checks (see DESIGN.md §2-§3).

One `Check` object per run of one property.  It
  * regenerates the generated Lean model parts from /repo (tools/extract),
  * builds the property's Lean modules (proof obligations) and audits axioms / forbidden tokens,
  * builds and talks to the property's native model driver (line protocol),
  * collects correspondence disagreements (model vs real code) and oracle failures
    (the property's executable statement evaluated on the real code),
  * matches concrete failures against /verif/known_findings.jsonl (never written at run time),
  * writes evidence/<id>.json and replays/<...>.json and prints the verdict lines.

Exit status: 0 held / only known findings, 1 violation, 2 infrastructure trouble.
"""
from __future__ import annotations

import contextlib
import fcntl
import hashlib
import json
import os
import random
import re
import subprocess
import sys
import time
import traceback
from pathlib import Path

VERIF = Path(__file__).resolve().parent.parent
REPO = Path(os.environ.get("SPSDK_REPO", "/repo"))
LEAN = VERIF / "lean"
GEN = LEAN / "SpsdkVerif" / "Generated"
ALLOWED_AXIOMS = {"propext", "Classical.choice", "Quot.sound"}
FORBIDDEN = re.compile(r"\b(sorry|admit|native_decide|bv_decide|implemented_by|unsafe)\b|^\s*axiom\s|maxHeartbeats\s+0\b")
LAKE_TIMEOUT = int(os.environ.get("VERIF_LAKE_TIMEOUT", "1500"))


class Infra(Exception):
    """Infrastructure trouble (exit 2) - never a verdict."""


def sh(cmd, cwd=None, timeout=None, env=None, inp=None):
    p = subprocess.run(cmd, cwd=cwd, timeout=timeout, env=env, input=inp, capture_output=True, text=True)
    return p.returncode, p.stdout + p.stderr


@contextlib.contextmanager
def lake_lock():
    (LEAN / ".lake").mkdir(exist_ok=True)
    with open(LEAN / ".lake" / "verif-build.lock", "w") as fh:
        fcntl.flock(fh, fcntl.LOCK_EX)
        try:
            yield
        finally:
            fcntl.flock(fh, fcntl.LOCK_UN)


def strip_lean_comments(text: str) -> str:
    # remove nested block comments and line comments (string literals in our files never contain `--`)
    out, i, depth = [], 0, 0
    while i < len(text):
        if text.startswith("/-", i):
            depth += 1
            i += 2
        elif depth and text.startswith("-/", i):
            depth -= 1
            i += 2
        elif depth:
            if text[i] == "\n":
                out.append("\n")
            i += 1
        elif text.startswith("--", i):
            while i < len(text) and text[i] != "\n":
                i += 1
        else:
            out.append(text[i])
            i += 1
    return "".join(out)


def lean_imports_closure(mod: str) -> list:
    """Project-local modules transitively imported by `mod` (dotted name)."""
    seen, todo = [], [mod]
    while todo:
        m = todo.pop()
        if m in seen:
            continue
        p = LEAN / (m.replace(".", "/") + ".lean")
        if not p.exists():
            continue
        seen.append(m)
        for line in p.read_text(encoding="utf-8").splitlines():
            mm = re.match(r"\s*(?:public\s+)?import\s+([\w.]+)", line)
            if mm and (mm.group(1).startswith("SpsdkVerif") or mm.group(1).startswith("Driver")):
                todo.append(mm.group(1))
    return seen


def theorem_names(path: Path) -> list:
    """`theorem` declarations of a property file, fully qualified by enclosing namespaces."""
    text = strip_lean_comments(path.read_text(encoding="utf-8"))
    ns, out = [], []
    for line in text.splitlines():
        m = re.match(r"\s*namespace\s+([\w.]+)", line)
        if m:
            ns.append(m.group(1))
            continue
        m = re.match(r"\s*end\s+([\w.]+)\s*$", line)
        if m and ns and ns[-1] == m.group(1):
            ns.pop()
            continue
        m = re.match(r"\s*(?:@\[[^\]]*\]\s*)?(?:private\s+|protected\s+)?theorem\s+([\w.']+)", line)
        if m:
            out.append(".".join(ns + [m.group(1)]))
    return out


class Stream:
    """One generated-input stream: counts, distinct non-trivial inputs, samples, disagreements."""

    def __init__(self, ck, name, rule):
        self.ck, self.name, self.rule = ck, name, rule
        self.evaluations = 0
        self.keys = set()
        self.samples = []
        self.model_compared = 0
        self.hist = {}
        self.exhaustive = False

    def note(self, inp, nontrivial=True, cls=None):
        self.evaluations += 1
        if nontrivial:
            self.keys.add(hashlib.blake2b(repr(inp).encode(), digest_size=8).digest())
        if len(self.samples) < 3 or (self.evaluations in (10, 100, 1000) and len(self.samples) < 6):
            self.samples.append(_jsonable(inp))
        if cls is not None:
            self.hist[cls] = self.hist.get(cls, 0) + 1

    def compare(self, inp, real, model, what="model differs from implementation"):
        """Correspondence: canonicalised observable of the real code vs the Lean model."""
        self.model_compared += 1
        if real != model:
            self.ck.disagreement(self.name, inp, real, model, what)
            return False
        return True

    def expect(self, cond, inp, what, observed=None, expected=None, finding=None):
        """Property oracle evaluated on the real code."""
        if not cond:
            self.ck.oracle_failure(self.name, inp, what, observed, expected, finding)
        return bool(cond)

    def summary(self):
        return {"evaluations": self.evaluations, "distinct_nontrivial": len(self.keys), "rule": self.rule,
                "compared_with_model": self.model_compared, "classes": self.hist, "exhaustive": self.exhaustive,
                "samples": self.samples[:4]}


def _jsonable(x):
    if isinstance(x, (bytes, bytearray)):
        return {"hex": bytes(x).hex()} if len(x) <= 96 else {"hex_prefix": bytes(x[:48]).hex(), "len": len(x)}
    if isinstance(x, dict):
        return {str(k): _jsonable(v) for k, v in x.items()}
    if isinstance(x, (list, tuple)):
        return [_jsonable(v) for v in x]
    if isinstance(x, (int, str, bool)) or x is None:
        if isinstance(x, int) and not isinstance(x, bool) and abs(x) > 2**53:
            return {"int": str(x)}
        return x
    if isinstance(x, float):
        return x
    return repr(x)


class Driver:
    """Native Lean model driver; one request line in, one canonical line out."""

    def __init__(self, exe: Path, on_death=None, spec_ops=None):
        self.exe = exe
        self.spec_ops = spec_ops        # callable -> set of request ops (first token of a request line) that evaluate Spec-only definitions
        self.on_death = on_death        # called once with a message when the driver process dies; answers are then "E:driver-died"
        self.dead = False
        self.proc = subprocess.Popen([str(exe)], stdin=subprocess.PIPE, stdout=subprocess.PIPE, text=True, bufsize=1 << 16)
        # reader thread + queue: lets batch() wait for each answer with a deadline (a model that loops must not hang the check)
        import queue
        import threading
        self._q = queue.Queue()

        def _reader(proc=self.proc, q=self._q):
            for line in proc.stdout:
                q.put(line)
            q.put(None)

        threading.Thread(target=_reader, daemon=True).start()
        self.answer_timeout = float(os.environ.get("VERIF_DRIVER_TIMEOUT", "240"))   # seconds for ONE answer (answers normally take milliseconds)

    def batch(self, lines):
        """Send all request lines (writer thread) and read exactly one answer per request."""
        import threading
        lines = list(lines)
        if not lines:
            return []
        for ln in lines:
            assert "\n" not in ln
        if self.dead:
            return ["E:driver-died"] * len(lines)

        def writer():
            try:
                for i in range(0, len(lines), 256):
                    self.proc.stdin.write("\n".join(lines[i:i + 256]) + "\n")
                self.proc.stdin.flush()
            except (BrokenPipeError, ValueError):
                pass

        th = threading.Thread(target=writer, daemon=True)
        th.start()
        out = []
        import queue
        for _ in lines:
            try:
                r = self._q.get(timeout=self.answer_timeout)
            except queue.Empty:
                r = None
                self.proc.kill()
                timed_out = True
            else:
                timed_out = False
            if not r:
                # a model that crashes or loops (e.g. on a regenerated part or on an input a change to /repo produced) is a broken
                # correspondence, not an infrastructure problem and not a hang
                self.dead = True
                msg = (f"model driver {self.exe.name} did not answer within {self.answer_timeout:.0f} s and was killed (request: {lines[len(out)][:200]!r})"
                       if timed_out else f"model driver {self.exe.name} died (after {len(out)} answers of this batch)")
                if self.on_death is None:
                    raise Infra(msg)
                self.on_death(msg)
                out.extend(["E:driver-died"] * (len(lines) - len(out)))
                return out
            out.append(r.rstrip("\n"))
        th.join()
        fault = os.environ.get("VERIF_FAULT")
        if fault == "baddriver":      # self-test: every answer is nonsense (harsher than anything a change to /repo can cause: Spec ops are hit too)
            return ["E:fault-injected"] * len(out)
        if fault == "badmodel":       # self-test: every answer that depends on the model of the CODE (hand model / generated parts) is nonsense;
            keep = self.spec_ops() if self.spec_ops else set()   # ops that evaluate only Spec/ + Crypto/ definitions (independent of /repo) stay correct
            return [a if ln.split(" ", 1)[0] in keep else "E:fault-injected" for ln, a in zip(lines, out)]
        return out

    def ask(self, line):
        return self.batch([line])[0]

    def close(self):
        try:
            self.proc.stdin.close()
            self.proc.wait(timeout=10)
        except Exception:
            self.proc.kill()


class Check:
    def __init__(self, prop: str, tier: str, seed: int):
        self.prop, self.tier, self.seed = prop, tier, seed
        self.rng = random.Random(f"{prop}/{seed}")
        self.t0 = time.time()
        self.streams = {}
        self.obligations = []  # dict(name, kind, discharged, detail)
        self.disagreements = []  # correspondence
        self.failures = []  # oracle failures on real code
        self.broken = []  # names of broken obligations / correspondences
        self.assumptions = []
        self.trusted = ["Lean 4.33.0 kernel", "axioms ⊆ {propext, Classical.choice, Quot.sound} (audited by #print axioms)",
                        "tools/extract (Python AST -> Lean translator / table extractor), cross-checked against live objects by the harness",
                        "harness generators + canonicalisers (differential tie between hand-written model and /repo)",
                        "Lean compiler + leanc for the native model driver (correspondence only, not the proofs)"]
        self.extra = {}
        self.known_lines = []
        self.checker_cmds = []
        self.build_ok = None
        self.drivers = []
        self.spec_ops = set()      # request ops of the model driver that evaluate Spec-only definitions (see VERIF_FAULT=badmodel)
        self.generated_meta = {}
        self.infra_notes = []
        self.max_fail_per_stream = 25

    # ------------------------------------------------------------------ tiers
    @property
    def quick(self):
        return self.tier == "quick"

    def budget(self, q, t):
        return q if self.quick else t

    # ------------------------------------------------------------------ Lean side
    def extract(self, *names):
        rc, out = sh([sys.executable, str(VERIF / "tools" / "extract" / "extract.py"), *names], timeout=600,
                     env={**os.environ, "SPSDK_REPO": str(REPO)})
        if rc != 0:
            raise Infra("extractor failed:\n" + out[-3000:])
        for n in names:
            mp = GEN / "meta" / f"{n}.json"
            if mp.exists():
                self.generated_meta[n] = json.loads(mp.read_text())

    def _lake(self, targets):
        cmd = ["lake", "build", *targets]
        self.checker_cmds.append("cd /verif/lean && " + " ".join(cmd))
        with lake_lock():
            try:
                rc, out = sh(cmd, cwd=LEAN, timeout=LAKE_TIMEOUT)
            except subprocess.TimeoutExpired:
                raise Infra("lake build timed out: " + " ".join(cmd))
        if rc != 0 and ("command not found" in out or "unknown executable" in out):
            raise Infra("lake unavailable: " + out[-500:])
        return rc, out

    def write_audit(self, names):
        mod = f"SpsdkVerif.Audit.{self.prop}"
        body = [f"-- GENERATED by harness/vcore.py: axiom audit of every theorem of Properties/{self.prop}.lean",
                f"import SpsdkVerif.Properties.{self.prop}", ""]
        for n in names:
            body.append(f"#print axioms {n}")
        p = LEAN / "SpsdkVerif" / "Audit" / f"{self.prop}.lean"
        txt = "\n".join(body) + "\n"
        if not p.exists() or p.read_text() != txt:
            p.write_text(txt)
        return mod, p

    def lean_obligations(self, generated=()):
        """Extract, build Properties/<id>, audit axioms + forbidden tokens; record obligations."""
        if generated:
            self.extract(*generated)
        prop_file = LEAN / "SpsdkVerif" / "Properties" / f"{self.prop}.lean"
        names = theorem_names(prop_file)
        if not names:
            raise Infra(f"no theorems in {prop_file}")
        # thorough: rebuild the property's own oleans from clean
        if not self.quick:
            for sub in ("Properties", "Audit"):
                for ext in ("olean", "ilean", "c", "trace", "hash", "olean.private", "olean.server"):
                    f = LEAN / ".lake" / "build" / "lib" / "lean" / "SpsdkVerif" / sub / f"{self.prop}.{ext}"
                    with contextlib.suppress(FileNotFoundError):
                        f.unlink()
        mod = f"SpsdkVerif.Properties.{self.prop}"
        rc, out = self._lake([mod])
        self.build_ok = rc == 0
        broken_names = set()
        if rc != 0:
            # map error positions to enclosing theorems (of any project file)
            for m in re.finditer(r"error: ([^\s:]+\.lean):(\d+):\d+:?\s*(.*)", out):
                f, line, msg = m.group(1), int(m.group(2)), m.group(3)
                broken_names.add(_enclosing_decl(LEAN / f if not f.startswith("/") else Path(f), line) + f" [{f}:{line}] {msg[:160]}")
            if not broken_names:
                broken_names.add("build failed: " + out[-400:])
        # forbidden tokens in every project module the property depends on
        bad_tokens = []
        for m in lean_imports_closure(mod):
            p = LEAN / (m.replace(".", "/") + ".lean")
            for i, line in enumerate(strip_lean_comments(p.read_text(encoding="utf-8")).splitlines(), 1):
                if FORBIDDEN.search(line):
                    bad_tokens.append(f"{m}:{i}: {line.strip()[:80]}")
        axioms = {}
        if rc == 0:
            _, audit_path = self.write_audit(names)
            self.checker_cmds.append(f"cd /verif/lean && lake env lean SpsdkVerif/Audit/{self.prop}.lean   # #print axioms")
            rc2, aout = sh(["lake", "env", "lean", str(audit_path.relative_to(LEAN))], cwd=LEAN, timeout=LAKE_TIMEOUT)
            if rc2 != 0:
                raise Infra("axiom audit failed to run:\n" + aout[-2000:])
            for m in re.finditer(r"'([^']+)' (does not depend on any axioms|depends on axioms: \[([^\]]*)\])", aout):
                axioms[m.group(1)] = [] if m.group(3) is None else [a.strip() for a in m.group(3).replace("\n", " ").split(",") if a.strip()]
            if not self.quick:
                self.checker_cmds.append(f"cd /verif/lean && lake env leanchecker {mod}")
                rc3, cout = sh(["lake", "env", "leanchecker", mod], cwd=LEAN, timeout=LAKE_TIMEOUT)
                self.extra["leanchecker"] = {"rc": rc3, "tail": cout[-300:]}
                if rc3 != 0:
                    bad_tokens.append("leanchecker rejected " + mod)
        for n in names:
            ax = axioms.get(n)
            ok = rc == 0 and ax is not None and set(ax) <= ALLOWED_AXIOMS and not bad_tokens
            self.obligations.append({"name": n, "kind": "theorem", "discharged": bool(ok), "axioms": ax})
            if not ok and rc == 0:
                self.broken.append(f"theorem {n}: axioms={ax} forbidden={bad_tokens[:3]}")
        if rc != 0:
            for b in sorted(broken_names):
                self.broken.append("proof obligation no longer checks: " + b)
        self.extra["lean_build"] = {"ok": rc == 0, "log_tail": out[-1500:] if rc != 0 else "", "forbidden_tokens": bad_tokens}
        return rc == 0

    def driver(self, name=None):
        """Build and start the native model driver `drv_<id>` (root Driver/<id>.lean)."""
        exe = (name or f"drv_{self.prop.lower()}")
        if os.environ.get("VERIF_FAULT") == "nodriver":      # self-test of the harness: behave as if the model no longer compiled
            self.broken.append(f"model driver {exe} does not build (fault injected by VERIF_FAULT=nodriver)")
            return None
        rc, out = self._lake([exe])
        if rc != 0:
            self.broken.append(f"model driver {exe} does not build (model no longer compiles against generated parts): " + _first_error(out))
            self.extra.setdefault("driver_build", out[-1200:])
            return None
        d = Driver(LEAN / ".lake" / "build" / "bin" / exe, on_death=lambda msg: self.broken.append(msg + " - correspondence cannot be evaluated"),
                   spec_ops=lambda: set(getattr(self, "spec_ops", ()) or ()))
        self.drivers.append(d)
        return d

    # ------------------------------------------------------------------ results
    def stream(self, name, rule):
        s = Stream(self, name, rule)
        self.streams[name] = s
        return s

    def disagreement(self, stream, inp, real, model, what):
        if sum(1 for d in self.disagreements if d["stream"] == stream) < self.max_fail_per_stream:
            self.disagreements.append({"stream": stream, "input": _jsonable(inp), "implementation": _jsonable(real),
                                       "model": _jsonable(model), "what": what})
        else:
            self.extra["disagreements_truncated"] = True

    def oracle_failure(self, stream, inp, what, observed=None, expected=None, finding=None):
        if sum(1 for d in self.failures if d["stream"] == stream and d.get("finding") == finding) < self.max_fail_per_stream:
            self.failures.append({"stream": stream, "input": _jsonable(inp), "what": what, "observed": _jsonable(observed),
                                  "expected": _jsonable(expected), "finding": finding})

    def assume(self, *texts):
        for t in texts:
            if t not in self.assumptions:
                self.assumptions.append(t)

    # ------------------------------------------------------------------ verdict
    def finish(self):
        for d in self.drivers:
            d.close()
        known = load_known_findings(self.prop)
        open_ids = {k["id"]: k for k in known if k.get("status") == "open"}
        violations = []
        known_hits = {}
        for f in self.failures:
            fid = f.get("finding")
            if fid and fid in open_ids:
                known_hits.setdefault(fid, []).append(f)
            else:
                violations.append(f)
        lines = []
        for fid, hits in known_hits.items():
            lines.append(f"KNOWN-FINDING: property={self.prop} {open_ids[fid]['what']} [{fid}; {len(hits)} hit(s) this run, e.g. input={json.dumps(hits[0]['input'])[:200]}]")
        exit_code = 0
        replay_dir = VERIF / "replays"
        replay_dir.mkdir(exist_ok=True)
        nviol = 0
        if violations:
            # one VIOLATION line per distinct (stream, what)
            seen = {}
            for v in violations:
                seen.setdefault((v["stream"], v["what"]), []).append(v)
            for n, ((stream, what), vs) in enumerate(sorted(seen.items())):
                path = replay_dir / f"{self.prop}-{self.tier}-{self.seed}-{n}.json"
                path.write_text(json.dumps({"property": self.prop, "kind": "concrete-failure-on-implementation", "stream": stream,
                                            "what": what, "cases": vs[:10], "seed": self.seed, "tier": self.tier,
                                            "rerun": f"./check {self.prop} --replay {path}"}, indent=1))
                lines.append(f"VIOLATION property={self.prop} replay={path}")
                nviol += 1
            exit_code = 1
        if (self.broken or self.disagreements) and not violations:
            path = replay_dir / f"{self.prop}-{self.tier}-{self.seed}-unproved.json"
            path.write_text(json.dumps({"property": self.prop, "kind": "proof-or-correspondence-broken-no-failing-input",
                                        "no_longer_checks": self.broken + [f"correspondence stream '{s}'" for s in sorted({d['stream'] for d in self.disagreements})],
                                        "disagreements": self.disagreements[:20],
                                        "searched": {k: s.evaluations for k, s in self.streams.items()},
                                        "note": "the property oracle found no failing input on the implementation within this tier's budget",
                                        "seed": self.seed, "tier": self.tier}, indent=1))
            lines.append(f"VIOLATION property={self.prop} replay={path} no-failing-input-found")
            nviol += 1
            exit_code = 1
        self.write_evidence(nviol, known_hits)
        for ln in lines:
            print(ln)
        if os.environ.get("VERIF_DEBUG"):
            for d in self.disagreements[:int(os.environ["VERIF_DEBUG"])]:
                print("DISAGREE", json.dumps(d)[:3000])
            for d in self.failures[:int(os.environ["VERIF_DEBUG"])]:
                print("FAIL", json.dumps(d)[:3000])
            for b in self.broken:
                print("BROKEN", b[:1000])
        summ = {k: (s.evaluations, len(s.keys)) for k, s in self.streams.items()}
        nd = sum(1 for o in self.obligations if o["discharged"])
        print(f"[{self.prop}] tier={self.tier} seed={self.seed} obligations={nd}/{len(self.obligations)} "
              f"streams={summ} disagreements={len(self.disagreements)} oracle_failures={len(self.failures)} "
              f"wall={time.time() - self.t0:.1f}s -> exit {exit_code}")
        return exit_code

    def write_evidence(self, nviol, known_hits):
        ev_total = sum(s.evaluations for s in self.streams.values())
        dn_total = sum(len(s.keys) for s in self.streams.values())
        samples = []
        for k, s in self.streams.items():
            for smp in s.samples[:2]:
                samples.append({"stream": k, "input": smp})
        nd = sum(1 for o in self.obligations if o["discharged"])
        cov = {
            "obligations": len(self.obligations), "discharged": nd,
            "checker_cmd": " ; ".join(dict.fromkeys(self.checker_cmds)) or "n/a",
            "trusted_base": self.trusted,
            "evaluations": ev_total, "distinct_nontrivial": dn_total,
            "rule": "; ".join(f"{k}: {s.rule}" for k, s in self.streams.items()),
            "samples": samples or [{"note": "no stream ran"}],
            "traces_validated_against_impl": sum(s.model_compared for s in self.streams.values()),
            "disagreements_checked": len(self.disagreements),
            "streams": {k: s.summary() for k, s in self.streams.items()},
            "theorems": self.obligations,
            "generated_model_parts": self.generated_meta,
            "broken": self.broken,
            "known_findings_hit": {k: len(v) for k, v in known_hits.items()},
            "exhaustive": all(s.exhaustive for s in self.streams.values()) if self.streams else False,
        }
        cov.update(self.extra)
        ev = {"property_id": self.prop, "tier": self.tier, "seed": self.seed, "level": "proof", "coverage": cov,
              "assumptions": self.assumptions, "wall_s": round(time.time() - self.t0, 2), "violations": nviol}
        (VERIF / "evidence").mkdir(exist_ok=True)
        (VERIF / "evidence" / f"{self.prop}.json").write_text(json.dumps(ev, indent=1, default=str) + "\n")


def _first_error(out):
    m = re.search(r"error: .*", out)
    return m.group(0)[:300] if m else out[-300:]


def _enclosing_decl(path: Path, line: int) -> str:
    try:
        lines = path.read_text(encoding="utf-8").splitlines()
    except OSError:
        return "?"
    for i in range(min(line, len(lines)) - 1, -1, -1):
        m = re.match(r"\s*(?:@\[[^\]]*\]\s*)?(?:private\s+|protected\s+)?(theorem|lemma|def|example|instance|abbrev)\s+([\w.']+)?", lines[i])
        if m:
            return f"{m.group(1)} {m.group(2) or ''}".strip()
    return "?"


def load_known_findings(prop=None):
    p = VERIF / "known_findings.jsonl"
    out = []
    if p.exists():
        for line in p.read_text().splitlines():
            line = line.strip()
            if not line or line.startswith("#"):
                continue
            k = json.loads(line)
            if prop is None or k.get("property") == prop:
                out.append(k)
    return out


# ---------------------------------------------------------------------- canonicalisation helpers
def pyres(fn, *a, **kw):
    """Run real code; canonical result: ('ok', value) | ('E:spsdk',) | ('E:other', classname)."""
    from spsdk.exceptions import SPSDKError
    try:
        return ("ok", fn(*a, **kw))
    except SPSDKError:
        return ("E:spsdk",)
    except Exception as exc:  # noqa: BLE001
        return ("E:other", type(exc).__name__)


def canon(res, fmt=str):
    """Canonical line for a pyres() result, comparable with the driver's output."""
    if res[0] == "ok":
        v = res[1]
        if isinstance(v, bool):
            return "ok:" + ("true" if v else "false")
        if isinstance(v, (bytes, bytearray)):
            return "ok:" + bytes(v).hex()
        return "ok:" + fmt(v)
    return res[0]


def hexs(b: bytes) -> str:
    return bytes(b).hex() if len(b) else "-"
