"""C13 - flash encryption (OTFAD, IEE, BEE): the hardware decrypts what SPSDK encrypts.

Obligations   : Properties/C13.lean (refinement of the three encryptors to a block-/page-wise specification, inversion by
                the independently written hardware models, untouched-outside, position independence, key-blob unwrap,
                scramble involution, counter no-carry), for every `c` with `CryptoLaws c`; `consts_agree` over
                Generated/FlashEncConsts.lean (constants read from the CURRENT otfad.py / iee.py / bee.py / crc.py).
Correspondence: SPSDK's ciphertext / key-blob tables vs the compiled Lean model of the software side (executable AES).
Oracle        : the compiled Lean HARDWARE model - programmed from the key-blob table SPSDK itself exported (RFC 3394
                unwrap / XTS decrypt + parse done in Lean) - applied to SPSDK's ciphertext must give the plaintext back;
                bytes outside the regions untouched (checked in Python too); piecewise == whole encryption; unwrapped
                key-blob fields == configured key, counter, range, flags, valid CRC (CRC recomputed in Python).
"""
from __future__ import annotations

import random

from vcore import canon, hexs, pyres

SIZES = [0, 1, 15, 16, 17, 1023, 1024, 1025, 4095, 4096, 4097]
M32 = (1 << 32) - 1


# ----------------------------------------------------------------------------------------------- helpers
def mk_image(seed, n):
    return random.Random(f"C13img/{seed}").randbytes(n)


def hx(b):
    return bytes(b).hex()


def tok(b):
    return hexs(bytes(b))


def ceil16(n):
    return (n + 15) // 16 * 16


def align16(d):
    return bytes(d) + bytes(ceil16(len(d)) - len(d))


def crc32_mpeg2(data: bytes) -> int:
    """Independent bitwise CRC-32/MPEG-2 (poly 0x04C11DB7, init 0xFFFFFFFF, no reflection, no final xor)."""
    crc = 0xFFFFFFFF
    for b in data:
        crc ^= b << 24
        for _ in range(8):
            crc = ((crc << 1) ^ 0x04C11DB7) & 0xFFFFFFFF if crc & 0x80000000 else (crc << 1) & 0xFFFFFFFF
    return crc


def pick_len(rng, big):
    r = rng.random()
    if r < 0.45:
        return rng.choice(SIZES)
    if r < 0.55:
        return rng.choice([1024, 2048, 4096, 8192]) + rng.choice([-16, -1, 0, 1, 16])
    if r < 0.93 or not big:
        return rng.randrange(1, 6000)
    return rng.randrange(6000, 65537)


def gen_ranges(rng, n, unit, top=1 << 32):
    """n disjoint unit-aligned [start, end) ranges inside one window, in random list order."""
    window = rng.choice([0, unit * rng.randrange(1, 1 << 8), 0x08000000, 0x30000000, 0x60000000, top - unit * 200])
    pos = window + unit * rng.randrange(0, 4)
    out = []
    for _ in range(n):
        size = unit * rng.choice([1, 1, 2, 3, 4, 8, 20])
        if pos + size > top:
            break
        out.append((pos, pos + size))
        pos += size + unit * rng.choice([0, 0, 1, 2, 5])
    if not out:
        out = [(window, window + unit)]
    rng.shuffle(out)
    return out


def pick_base(rng, ranges, length, unit, align):
    """A base address (multiple of `align`) placed relative to the ranges so that all coverage classes occur."""
    s, e = rng.choice(ranges)
    kind = rng.choice(["in", "in", "unit", "before", "end", "outside", "first"])
    step = align
    if kind == "in":
        b = s + step * rng.randrange(0, max(1, (e - s) // step))
    elif kind == "unit":
        b = s + unit * rng.randrange(0, max(1, (e - s) // unit))
    elif kind == "before":
        b = s - step * rng.randrange(1, 1 + max(1, min(length, 4 * unit) // step + 2))
    elif kind == "end":
        b = e - step * rng.randrange(1, 1 + max(1, min(length, 4 * unit) // step + 2))
    elif kind == "outside":
        b = max(r[1] for r in ranges) + step * rng.randrange(0, 300)
    else:
        b = min(r[0] for r in ranges)
    b = max(0, b)
    b -= b % align
    if b + ceil16(length) > (1 << 32):
        b = (1 << 32) - ceil16(length) - unit
        b -= b % unit
    return b


def coverage(length, base, windows):
    """'full' / 'part' / 'none': how much of [base, base+length) lies in the (inclusive) windows."""
    if length == 0:
        return "empty"
    inside = 0
    for lo, hi in windows:
        a, b = max(lo, base), min(hi, base + length - 1)
        if a <= b:
            inside += b - a + 1
    return "full" if inside == length else ("none" if inside == 0 else "part")


class Batch:
    """Collect driver requests; answers are looked up after one `drv.batch` call."""

    def __init__(self, drv):
        self.drv, self.lines, self.ans = drv, [], None

    def add(self, line):
        self.lines.append(line)
        return len(self.lines) - 1

    def run(self):
        self.ans = self.drv.batch(self.lines) if self.drv is not None else [None] * len(self.lines)

    def __getitem__(self, i):
        return self.ans[i]


def unhex_ok(ans):
    """driver answer 'ok:<hex>' -> bytes, else None"""
    if ans is None or not ans.startswith("ok:"):
        return None
    h = ans[3:]
    try:
        return b"" if h == "-" else bytes.fromhex(h)
    except ValueError:
        return None


# =============================================================================================== OTFAD
def otfad_blob_tok(b):
    return f"{b['s']} {b['e']} {b['key'] or '-'} {b['ctr'] or '-'} {b['fl']} {b['zf'] or '-'} {b['crc'] or '-'}"


def scr_tok(scr):
    return "-" if scr is None else f"s {scr[0]} {scr[1]}"


def otfad_make(case):
    from spsdk.utils.crypto.otfad import KeyBlob, Otfad
    o = Otfad(reversed_scramble_key=case["rev"])
    for b in case["blobs"]:
        o.add_key_blob(KeyBlob(b["s"], b["e"], bytes.fromhex(b["key"]), bytes.fromhex(b["ctr"]), b["fl"],
                               zero_fill=bytes.fromhex(b["zf"]) if b["zf"] else None,
                               crc=bytes.fromhex(b["crc"]) if b["crc"] else None))
    return o


def otfad_windows(blobs, encrypting=True):
    """engine-side inclusive windows of the (encrypting: ADE and VLD) blobs, computed from the configuration"""
    out = []
    for b in blobs:
        if b["e"] == 0:
            continue
        if (b["fl"] & 3) == 3 if encrypting else (b["fl"] & 1):
            out.append((b["s"], (b["e"] - 1) | 0x3FF))
    return out


def gen_otfad_case(rng, big):
    n = rng.choice([1, 1, 2, 3, 4])
    ranges = gen_ranges(rng, n, 1024)
    blobs = []
    for (s, e) in ranges:
        form = rng.choice(["incl", "incl", "excl", "mid"])
        if form == "incl" or e > M32:
            end = e - 1
        elif form == "excl":
            end = e
        else:
            end = e - rng.randrange(2, 1024)
        fl = rng.choice([3, 3, 3, 3, 3, 3, 7, 7, 1, 2, 0, 5])
        blobs.append({"s": s, "e": end, "key": hx(rng.randbytes(16)), "ctr": hx(rng.randbytes(8)), "fl": fl,
                      "zf": hx(rng.randbytes(4)), "crc": "" if rng.random() < 0.85 else hx(rng.randbytes(4))})
    length = pick_len(rng, big)
    base = pick_base(rng, ranges, length, 1024, 16)
    scr = None if rng.random() < 0.5 else [rng.choice([0, 1, M32, rng.getrandbits(32)]), rng.choice([0, 0x1B, 0xE4, 0xFF, rng.getrandbits(8)])]
    split = 16 * rng.randrange(0, length // 16 + 1) if rng.random() < 0.6 else min(length, 1024 * rng.randrange(0, length // 1024 + 2))
    split -= split % 16
    return {"k": "otfad", "img": [length, rng.getrandbits(32)], "base": base, "swap": rng.random() < 0.4, "blobs": blobs,
            "kek": hx(rng.randbytes(16)), "scr": scr, "rev": rng.random() < 0.4, "sc": rng.choice([0, 0, 2, 4, 8, 8, 16]),
            "split": min(split, length)}


def eval_otfad(s, bt, case):
    """Run the real code, register the oracle/correspondence requests; returns a closure that finishes the case."""
    img = mk_image(case["img"][1], case["img"][0])
    base, swap, blobs = case["base"], case["swap"], case["blobs"]
    scr = case["scr"]
    mask, align = (scr if scr else (None, None))
    r_make = pyres(otfad_make, case)
    win = otfad_windows(blobs)
    cls = ("al1k" if base % 1024 == 0 else "al16") + "/" + coverage(len(img), base, win) + f"/{len(blobs)}b" + ("/swap" if swap else "")
    s.note(case, nontrivial=len(img) > 0, cls=cls)
    if not s.expect(r_make[0] == "ok", case, "a valid OTFAD key-blob configuration is refused by the KeyBlob constructor", r_make):
        return None
    o = r_make[1]
    r_ct = pyres(o.encrypt_image, img, base, swap)
    r_tab = pyres(o.encrypt_key_blobs, bytes.fromhex(case["kek"]), mask, align, case["sc"])
    btok = f"{len(blobs)} " + " ".join(otfad_blob_tok(b) for b in blobs)
    i_enc = bt.add(f"otfad_enc {int(swap)} {base} {tok(img)} {btok}")
    i_tab = bt.add(f"otfad_tab {case['kek']} {scr_tok(scr)} {int(case['rev'])} {case['sc']} - {btok}")
    ok = s.expect(r_ct[0] == "ok", case, "Otfad.encrypt_image raised on a valid configuration", r_ct)
    ok = s.expect(r_tab[0] == "ok", case, "Otfad.encrypt_key_blobs raised on a valid configuration", r_tab) and ok
    i_hw = i_un = None
    if ok:
        ct, tab = r_ct[1], r_tab[1]
        common = f"{case['kek']} {scr_tok(scr)} {int(case['rev'])} {case['sc']} {len(blobs)} {tok(tab)}"
        i_hw = bt.add(f"otfad_hwtab {common} {int(swap)} {base} {tok(ct)}")
        i_un = bt.add(f"otfad_unwrap {common}")
        # ---- oracle parts that need no model
        s.expect(len(img) <= len(ct) <= ceil16(len(img)), case, "encrypted OTFAD image has an impossible length", len(ct), len(img))
        s.expect(len(tab) % 256 == 0 and len(tab) >= 64 * len(blobs), case, "key-blob table has the wrong size", len(tab))
        bad = [hex(base + off) for off in range(0, len(img), 16)
               if not any(lo <= base + off <= hi for lo, hi in win) and ct[off:off + 16] != img[off:off + 16]]
        s.expect(not bad, case, "OTFAD: bytes outside every encrypting key-blob window were modified", bad[:4])
        sp = case["split"]
        r1 = pyres(o.encrypt_image, img[:sp], base, swap)
        r2 = pyres(o.encrypt_image, img[sp:], base + sp, swap)
        s.expect(r1[0] == "ok" and r2[0] == "ok" and r1[1] + r2[1] == ct, case,
                 "OTFAD: encrypting the image in two pieces at their addresses differs from encrypting it at once", sp)

    def finish():
        s.compare(case, canon(r_ct, fmt=hexs) if r_ct[0] != "ok" else "ok:" + hexs(r_ct[1]), bt[i_enc], "Otfad.encrypt_image: model differs")
        s.compare(case, "ok:" + hexs(r_tab[1]) if r_tab[0] == "ok" else r_tab[0], bt[i_tab], "Otfad.encrypt_key_blobs: model differs")
        if i_hw is None or bt[i_hw] is None:
            return
        hw = unhex_ok(bt[i_hw])
        good = hw is not None and len(hw) == len(r_ct[1]) and hw[:len(img)] == img and not any(hw[len(img):])
        first = next((i for i in range(len(img)) if hw is None or i >= len(hw) or hw[i] != img[i]), None)
        s.expect(good, case, "OTFAD: the engine programmed from the exported key blobs does not read the plaintext back from SPSDK's ciphertext",
                 None if first is None else {"first_bad_address": hex(base + first)}, "plaintext")
        exp = []
        for b in blobs:
            endw = 0 if (b["e"] == 0 and b["fl"] == 0) else ((((b["e"] - 1) | 0x3FF) & ~7) | b["fl"])
            head = bytes.fromhex(b["key"]) + bytes.fromhex(b["ctr"]) + b["s"].to_bytes(4, "little") + endw.to_bytes(4, "little")
            crc_ok = 1 if not b["crc"] else int(bytes.fromhex(b["crc"]) == crc32_mpeg2(head).to_bytes(4, "little"))
            exp.append(f"{b['key']}:{b['ctr']}:{b['s']}:{endw}:{crc_ok}")
        s.expect(bt[i_un] == "ok:" + "|".join(exp), case,
                 "OTFAD: exported key blobs do not unwrap (KEK, scramble, byte swap) to the configured key/counter/range/flags/CRC",
                 bt[i_un], "ok:" + "|".join(exp))
    return finish


# =============================================================================================== IEE
IEE_MODES = ["Bypass", "AesXTS", "AesCTRWAddress", "AesCTRWOAddress", "AesCTRkeystream"]
IEE_CLAIMED = {"Bypass", "AesXTS", "AesCTRWAddress"}


def iee_sizes(b):
    k1 = 16 if b["ks"] == 0 else 32
    k2 = 16 if (b["ks"] == 0 or b["mode"] >= 2) else 32
    return k1, k2


def iee_blob_tok(b):
    return f"{int(b['lock'])} {b['ks']} {b['mode']} {b['s']} {b['e']} {b['k1'] or '-'} {b['k2'] or '-'} {b['po']}"


def iee_make(case):
    from spsdk.utils.crypto import iee as m
    o = m.Iee()
    for b in case["blobs"]:
        attr = m.IeeKeyBlobAttribute(m.IeeKeyBlobLockAttributes.LOCK if b["lock"] else m.IeeKeyBlobLockAttributes.UNLOCK,
                                     m.IeeKeyBlobKeyAttributes.CTR128XTS256 if b["ks"] == 0 else m.IeeKeyBlobKeyAttributes.CTR256XTS512,
                                     m.IeeKeyBlobModeAttributes.from_label(IEE_MODES[b["mode"]]))
        o.add_key_blob(m.IeeKeyBlob(attr, b["s"], b["e"], bytes.fromhex(b["k1"]), bytes.fromhex(b["k2"]), b["po"]))
    return o


def gen_iee_case(rng, big, claimed_only=True):
    n = rng.choice([1, 1, 2, 3, 4])
    ranges = gen_ranges(rng, n, 4096, top=(1 << 32) - 4096)
    blobs = []
    for (s, e) in ranges:
        mode = rng.choice([1, 1, 1, 2, 2, 2, 0]) if claimed_only else rng.choice([3, 4, 3, 4, 1, 2])
        b = {"lock": rng.random() < 0.5, "ks": rng.choice([0, 1]), "mode": mode, "s": s, "e": e, "po": rng.choice([0, 0, rng.getrandbits(32)])}
        k1, k2 = iee_sizes(b)
        b["k1"] = hx(rng.randbytes(k1))
        key2 = bytearray(rng.randbytes(k2))
        if mode >= 2 and rng.random() < 0.35:
            # initial counter word close to the 32-bit wrap for the addresses of this region (counter-carry class);
            # the counter word is the LAST 32-bit word of key2, stored byte-reversed
            word = (-(s >> 4) - rng.randrange(0, 600)) & M32
            key2[12:16] = word.to_bytes(4, "big")[::-1]
        b["k2"] = hx(key2)
        blobs.append(b)
    length = pick_len(rng, big)
    if rng.random() < 0.35:
        length = rng.randrange(4097, 30000)      # several pages, so that images cross region boundaries
    base = pick_base(rng, ranges, length, 4096, 4096)
    split = min(length, 4096 * rng.randrange(0, length // 4096 + 2))
    return {"k": "iee", "img": [length, rng.getrandbits(32)], "base": base, "blobs": blobs, "k1": hx(rng.randbytes(32)),
            "k2": hx(rng.randbytes(32)), "kba": rng.choice([0x30000000, 0, 4096 * rng.getrandbits(20), 1024 * rng.getrandbits(22)]),
            "split": split}


def eval_iee(s, bt, case):
    img = mk_image(case["img"][1], case["img"][0])
    base, blobs = case["base"], case["blobs"]
    claimed = all(IEE_MODES[b["mode"]] in IEE_CLAIMED for b in blobs)
    win = [(b["s"], b["e"] - 1) for b in blobs if b["e"] > b["s"] and b["mode"] != 0]
    modes = "+".join(sorted({IEE_MODES[b["mode"]] + ("128" if b["ks"] == 0 else "256") for b in blobs}))
    s.note(case, nontrivial=len(img) > 0, cls=coverage(len(img), base, win) + "/" + modes)
    r_make = pyres(iee_make, case)
    if not s.expect(r_make[0] == "ok", case, "a valid IEE key-blob configuration is refused", r_make):
        return None
    o = r_make[1]
    r_ct = pyres(o.encrypt_image, img, base)
    r_tab = pyres(o.encrypt_key_blobs, bytes.fromhex(case["k1"]), bytes.fromhex(case["k2"]), case["kba"])
    btok = f"{len(blobs)} " + " ".join(iee_blob_tok(b) for b in blobs)
    i_enc = bt.add(f"iee_enc {base} {tok(img)} {btok}")
    i_tab = bt.add(f"iee_tab {case['k1']} {case['k2']} {case['kba']} {btok}")
    ok = s.expect(r_ct[0] == "ok", case, "Iee.encrypt_image raised on a valid configuration (for the unclaimed CTR variants: a crash)", r_ct)
    ok = s.expect(r_tab[0] == "ok", case, "Iee.encrypt_key_blobs raised on a valid configuration", r_tab) and ok
    i_hw = i_un = i_hwx = None
    if ok:
        ct, tab = r_ct[1], r_tab[1]
        common = f"{case['k1']} {case['k2']} {case['kba']} {len(blobs)} {tok(tab)}"
        i_un = bt.add(f"iee_unwrap {common}")
        s.expect(len(img) <= len(ct) <= ceil16(len(img)), case, "encrypted IEE image has an impossible length", len(ct), len(img))
        bad = [hex(base + off) for off in range(0, len(img), 16)
               if not any(lo <= base + off <= hi for lo, hi in win) and ct[off:off + 16] != img[off:off + 16]]
        s.expect(not bad, case, "IEE: bytes outside every (non-bypass) region were modified", bad[:4])
        sp = case["split"]
        r1 = pyres(o.encrypt_image, img[:sp], base)
        r2 = pyres(o.encrypt_image, img[sp:], base + sp)
        s.expect(r1[0] == "ok" and r2[0] == "ok" and r1[1] + r2[1] == ct, case,
                 "IEE: encrypting the image in two page-aligned pieces differs from encrypting it at once", sp)
        if claimed:
            i_hw = bt.add(f"iee_hwtab {common} {base} {tok(ct)}")
        if all(b["po"] == 0 for b in blobs):
            i_hwx = bt.add(f"iee_hwtabx {common} {base} {tok(ct)}")

    def finish():
        s.compare(case, "ok:" + hexs(r_ct[1]) if r_ct[0] == "ok" else r_ct[0], bt[i_enc], "Iee.encrypt_image: model differs")
        s.compare(case, "ok:" + hexs(r_tab[1]) if r_tab[0] == "ok" else r_tab[0], bt[i_tab], "Iee.encrypt_key_blobs: model differs")
        if i_un is not None and bt[i_un] is not None:
            exp = []
            for b in blobs:
                k1 = bytes.fromhex(b["k1"]).ljust(32, b"\0")
                k2 = bytes.fromhex(b["k2"]).ljust(32, b"\0")
                exp.append(f"{0x5A if b['ks'] == 0 else 0xA5}:{[0x6A, 0xA6, 0x66, 0xAA, 0x19][b['mode']]}:{b['po']}:{k1.hex()}:{k2.hex()}:{b['s']}:{b['e']}")
            s.expect(bt[i_un] == "ok:" + "|".join(exp), case,
                     "IEE: the encrypted key-blob area does not decrypt/parse to the configured attributes/keys/range (or CRC/tag invalid)",
                     bt[i_un], "ok:" + "|".join(exp))
        if i_hw is not None and bt[i_hw] is not None:
            hw = unhex_ok(bt[i_hw])
            good = hw is not None and len(hw) == len(r_ct[1]) and hw[:len(img)] == img and not any(hw[len(img):])
            first = next((i for i in range(len(img)) if hw is None or i >= len(hw) or hw[i] != img[i]), None)
            s.expect(good, case, "IEE: the engine programmed from the exported key blobs does not read the plaintext back from SPSDK's ciphertext",
                     None if first is None else {"first_bad_address": hex(base + first)}, "plaintext")
        if i_hwx is not None and bt[i_hwx] is not None:
            hw = unhex_ok(bt[i_hwx])
            good = hw is not None and len(hw) == len(r_ct[1]) and hw[:len(img)] == img and not any(hw[len(img):])
            first = next((i for i in range(len(img)) if hw is None or i >= len(hw) or hw[i] != img[i]), None)
            s.expect(good, case, "IEE (all five modes, assumptions A-PO/A-CTR): the extended engine programmed from the exported key blobs does "
                     "not read the plaintext back from SPSDK's ciphertext",
                     None if first is None else {"first_bad_address": hex(base + first)}, "plaintext")
    return finish


def gen_ieex_case(rng):
    """One region, IeeKeyBlob.encrypt_image called for the LOGICAL address L = p + 4096 * page_offset; the extended engine
    reads at the SYSTEM address p: CTR modes at any 16-byte aligned p, XTS at page-aligned p."""
    mode = rng.choice([2, 3, 4, 3, 4, 1])
    s0 = 4096 * rng.randrange(0, 1 << 19)
    pages = rng.randrange(1, 9)
    b = {"lock": rng.random() < 0.5, "ks": rng.choice([0, 1]), "mode": mode, "s": s0, "e": s0 + 4096 * pages,
         "po": rng.choice([0, 1, 3, rng.randrange(0, 1 << 12), rng.randrange(0, 1 << 20), (1 << 32) - 1 - rng.randrange(0, 4)])}
    k1, k2 = iee_sizes(b)
    b["k1"] = hx(rng.randbytes(k1))
    if mode == 1:
        p = s0 + 4096 * rng.randrange(0, pages)
        length = rng.choice([1, 16, 17, 4095, 4096, 4097, rng.randrange(1, 4096 * (pages - (p - s0) // 4096) + 1)])
        length = min(length, s0 + 4096 * pages - p)
    else:
        p = s0 + 16 * rng.randrange(0, 256 * pages)
        length = rng.choice([0, 1, 15, 16, 17, 100, 4096, rng.randrange(0, 6000)])
    key2 = bytearray(rng.randbytes(k2))
    logical = p + 4096 * b["po"]
    if mode >= 2 and rng.random() < 0.6:
        # counter word next to the 32-bit wrap for the LOGICAL block address (stored byte-reversed in the last word of key2)
        word = (-(logical >> 4) - rng.randrange(0, max(1, length // 16 + 2))) & M32
        key2[12:16] = word.to_bytes(4, "big")[::-1]
    b["k2"] = hx(key2)
    return {"k": "ieex", "img": [length, rng.getrandbits(32)], "p": p, "blobs": [b], "k1": hx(rng.randbytes(32)),
            "k2": hx(rng.randbytes(32)), "kba": 4096 * rng.getrandbits(20)}


def eval_ieex(s, bt, case):
    img = mk_image(case["img"][1], case["img"][0])
    b, p = case["blobs"][0], case["p"]
    logical = p + 4096 * b["po"]
    wraps = b["mode"] >= 2 and (int.from_bytes(bytes.fromhex(b["k2"])[12:16][::-1], "big") + (logical >> 4) + len(img) // 16 >= 1 << 32)
    s.note(case, nontrivial=len(img) > 0,
           cls=IEE_MODES[b["mode"]] + ("128" if b["ks"] == 0 else "256") + ("/po" if b["po"] else "/po0")
           + ("/unaligned" if p % 4096 else "/page") + ("/wrap" if wraps else ""))
    r_make = pyres(iee_make, case)
    if not s.expect(r_make[0] == "ok", case, "a valid IEE key-blob configuration is refused", r_make):
        return None
    o = r_make[1]
    r_ct = pyres(o._key_blobs[0].encrypt_image, logical, img)
    r_tab = pyres(o.encrypt_key_blobs, bytes.fromhex(case["k1"]), bytes.fromhex(case["k2"]), case["kba"])
    i_enc = bt.add(f"iee_kb_enc {iee_blob_tok(b)} {logical} {tok(img)}")
    ok = s.expect(r_ct[0] == "ok", case, "IeeKeyBlob.encrypt_image raised on a valid blob / 16-byte aligned address", r_ct)
    ok = s.expect(r_tab[0] == "ok", case, "Iee.encrypt_key_blobs raised on a valid configuration", r_tab) and ok
    i_hw = None
    if ok:
        ct = r_ct[1]
        s.expect(len(ct) == ceil16(len(img)), case, "IeeKeyBlob.encrypt_image: impossible ciphertext length", len(ct), ceil16(len(img)))
        common = f"{case['k1']} {case['k2']} {case['kba']} 1 {tok(r_tab[1])}"
        i_hw = bt.add(f"iee_ctrx {common} 0 {p} {tok(ct)}" if b["mode"] >= 2 else f"iee_hwtabx {common} {p} {tok(ct)}")

    def finish():
        s.compare(case, "ok:" + hexs(r_ct[1]) if r_ct[0] == "ok" else r_ct[0], bt[i_enc], "IeeKeyBlob.encrypt_image: model differs")
        if i_hw is not None and bt[i_hw] is not None:
            hw = unhex_ok(bt[i_hw])
            good = hw is not None and len(hw) == len(r_ct[1]) and hw[:len(img)] == img and not any(hw[len(img):])
            first = next((i for i in range(len(img)) if hw is None or i >= len(hw) or hw[i] != img[i]), None)
            s.expect(good, case, "IEE (assumptions A-PO/A-CTR): the region context parsed from the exported key blob does not read back, at the "
                     "system address, what IeeKeyBlob.encrypt_image wrote for the logical address",
                     None if first is None else {"first_bad_address": hex(p + first)}, "plaintext")
    return finish


# =============================================================================================== BEE
def bee_engine_tok(e):
    return f"{e['key'] or '-'} {e['ctr'] or '-'} {len(e['facs'])} " + " ".join(f"{s} {l}" for s, l in e["facs"])


def bee_make(case):
    from spsdk.image import bee as m
    headers = []
    for e in case["engines"]:
        if e is None:
            headers.append(None)
            continue
        prdb = m.BeeProtectRegionBlock(lock_options=e.get("lock", 0), counter=bytes.fromhex(e["ctr"]))
        kib = e.get("kib") or [bytes(range(16)).hex(), bytes(range(16, 32)).hex()]
        hdr = m.BeeRegionHeader(prdb, bytes.fromhex(e["key"]), m.BeeKIB(bytes.fromhex(kib[0]), bytes.fromhex(kib[1])))
        for (st, ln) in e["facs"]:
            hdr.add_fac(m.BeeFacRegion(st, ln, e.get("level", 0)))
        headers.append(hdr)
    return m.BeeNxp(headers, mk_image(case["img"][1], case["img"][0]), case["base"])


def gen_bee_case(rng, big):
    nfac = rng.choice([1, 1, 2, 3, 4, 6])
    ranges = gen_ranges(rng, nfac, 1024)
    shape = rng.choice(["e0", "e1", "both", "both"])
    engines = [None, None]
    idx = {"e0": [0], "e1": [1], "both": [0, 1]}[shape]
    for i in idx:
        engines[i] = {"key": hx(rng.randbytes(16)), "ctr": hx(rng.randbytes(12) + bytes(4)), "facs": [], "level": rng.randrange(4),
                      "kib": [hx(rng.randbytes(16)), hx(rng.randbytes(16))], "lock": rng.choice([0, 0, 1, rng.getrandbits(32)])}
    for r in ranges:
        cand = [i for i in idx if len(engines[i]["facs"]) < 4]
        if not cand:
            break
        engines[rng.choice(cand)]["facs"].append([r[0], r[1] - r[0]])
    used = [tuple(f) for e in engines if e for f in e["facs"]]
    if not used:
        return gen_bee_case(rng, big)
    length = pick_len(rng, big)
    base = pick_base(rng, [(s, s + l) for s, l in used], length, 1024, 16)
    split = 16 * rng.randrange(0, length // 16 + 1)
    return {"k": "bee", "img": [length, rng.getrandbits(32)], "base": base, "engines": engines, "split": min(split, length)}


def eval_bee(s, bt, case):
    img = mk_image(case["img"][1], case["img"][0])
    base = case["base"]
    engines = case["engines"]
    win = [(st, st + ln - 1) for e in engines if e for st, ln in e["facs"]]
    cls = ("al1k" if base % 1024 == 0 else "al16") + "/" + coverage(len(img), base, win) + "/" + "".join("-" if e is None else str(len(e["facs"])) for e in engines)
    s.note(case, nontrivial=len(img) > 0, cls=cls)
    r_make = pyres(bee_make, case)
    if not s.expect(r_make[0] == "ok", case, "a valid BEE configuration is refused", r_make):
        return None
    o = r_make[1]
    r_ct = pyres(o.export_image)
    etok = f"{len(engines)} " + " ".join("none" if e is None else "some " + bee_engine_tok(e) for e in engines)
    i_enc = bt.add(f"bee_enc {base} {tok(img)} {etok}")
    i_hw = None
    # region headers (EKIB + EPRDB) of the engines that have FAC regions: model correspondence + ROM-side parse
    hdrs = []
    for e, h in zip(engines, o.headers):
        if e and e["facs"]:
            r_h = pyres(h.export)
            kib = e.get("kib") or [bytes(range(16)).hex(), bytes(range(16, 32)).hex()]
            i_h = bt.add(f"bee_hdr {bee_engine_tok(e)} {len(e['facs'])} " + " ".join(str(e.get('level', 0)) for _ in e["facs"])
                         + f" {e.get('lock', 0)} {kib[0]} {kib[1]}")
            i_u = bt.add(f"bee_unhdr {e['key']} {tok(r_h[1])}") if r_h[0] == "ok" else None
            s.expect(r_h[0] == "ok" and len(r_h[1]) == 0x200, case, "BeeRegionHeader.export raised / wrong size on a valid configuration", r_h[0])
            if r_h[0] == "ok":
                # SPSDK's own parser (used by the `bee_binary_cfg` branch of load_from_config) reads its export back
                from spsdk.image.bee import BeeRegionHeader
                r_p = pyres(lambda: BeeRegionHeader.parse(r_h[1], sw_key=bytes.fromhex(e["key"])))
                same = r_p[0] == "ok" and r_p[1]._prdb.counter == bytes.fromhex(e["ctr"]) and \
                    [(f.start_addr, f.length) for f in r_p[1].fac_regions] == [tuple(f) for f in e["facs"]] and \
                    pyres(r_p[1].encrypt_block, e["facs"][0][0], bytes(range(16))) == pyres(h.encrypt_block, e["facs"][0][0], bytes(range(16)))
                s.expect(same, case, "BeeRegionHeader.parse(export()) does not give the same counter / FAC regions / block encryption", r_p[0])
            hdrs.append((e, r_h, i_h, i_u))
    i_hwh = None
    if s.expect(r_ct[0] == "ok", case, "BeeNxp.export_image raised on a valid configuration", r_ct):
        ct = r_ct[1]
        present = [e for e in engines if e]
        i_hw = bt.add(f"bee_hw {base} {tok(ct)} {len(present)} " + " ".join(bee_engine_tok(e) for e in present))
        okh = [(e, r_h) for e, r_h, _, _ in hdrs if r_h[0] == "ok"]
        if len(okh) == len([e for e in engines if e and e["facs"]]):
            i_hwh = bt.add(f"bee_hwhdr {base} {tok(ct)} {len(okh)} " + " ".join(f"{e['key']} {tok(r_h[1])}" for e, r_h in okh))
        s.expect(len(img) <= len(ct) <= ceil16(len(img)), case, "encrypted BEE image has an impossible length", len(ct), len(img))
        bad = [hex(base + off) for off in range(0, len(img), 16)
               if not any(lo <= base + off <= hi for lo, hi in win) and ct[off:off + 16] != img[off:off + 16]]
        s.expect(not bad, case, "BEE: bytes outside every FAC region were modified", bad[:4])
        sp = case["split"]
        from spsdk.image.bee import BeeNxp
        r1 = pyres(lambda: BeeNxp(o.headers, img[:sp], base).export_image())
        r2 = pyres(lambda: BeeNxp(o.headers, img[sp:], base + sp).export_image())
        s.expect(r1[0] == "ok" and r2[0] == "ok" and (r1[1] + r2[1])[:len(img)] == ct[:len(img)] and len(r1[1] + r2[1]) == len(ct), case,
                 "BEE: encrypting the image in two pieces at their addresses differs from encrypting it at once", sp)

    def finish():
        # the padding of a short last block is random by design: compare the image part and the length only
        if r_ct[0] == "ok":
            m = unhex_ok(bt[i_enc]) if bt[i_enc] is not None else None
            real = "ok:%d:%s" % (len(r_ct[1]), hexs(r_ct[1][:len(img)]))
            model = bt[i_enc] if m is None else "ok:%d:%s" % (len(m), hexs(m[:len(img)]))
            s.compare(case, real, model, "BeeNxp.export_image: model differs")
        else:
            s.compare(case, r_ct[0], bt[i_enc], "BeeNxp.export_image: model differs")
        if i_hw is not None and bt[i_hw] is not None:
            hw = unhex_ok(bt[i_hw])
            good = hw is not None and len(hw) == len(r_ct[1]) and hw[:len(img)] == img
            first = next((i for i in range(len(img)) if hw is None or i >= len(hw) or hw[i] != img[i]), None)
            s.expect(good, case, "BEE: the engine holding the same key/nonce/FAC regions does not read the plaintext back from SPSDK's ciphertext",
                     None if first is None else {"first_bad_address": hex(base + first)}, "plaintext")
        for e, r_h, i_h, i_u in hdrs:
            s.compare(case, "ok:" + hexs(r_h[1]) if r_h[0] == "ok" else r_h[0], bt[i_h], "BeeRegionHeader.export: model differs")
            if i_u is not None and bt[i_u] is not None:
                want = f"ok:{e['key']}:{e['ctr']}:" + ",".join(f"{st}+{ln}" for st, ln in e["facs"])
                s.expect(bt[i_u] == want, case, "BEE: the exported region header does not decrypt/parse (SW key, KIB) to the configured counter and FAC regions",
                         bt[i_u], want)
        if i_hwh is not None and bt[i_hwh] is not None:
            hw = unhex_ok(bt[i_hwh])
            s.expect(hw is not None and hw[:len(img)] == img, case,
                     "BEE: the engine programmed from the exported region headers does not read the plaintext back from SPSDK's ciphertext")
    return finish


# =============================================================================================== direct calls / malformed
def gen_direct_cases(rng, n):
    """KeyBlob.encrypt_image / IeeKeyBlob.encrypt_image / encrypt_block called directly, incl. refused inputs."""
    out = []
    for _ in range(n):
        kind = rng.choice(["kb", "kb", "tab", "ieekb", "beeblk"])
        if kind == "kb":
            s0 = 1024 * rng.randrange(0, 1 << 20)
            b = {"s": s0, "e": s0 + 1024 * rng.randrange(1, 9) - rng.choice([0, 1]), "key": hx(rng.randbytes(rng.choice([16, 16, 16, 15, 24, 32]))),
                 "ctr": hx(rng.randbytes(8)), "fl": 3, "zf": "00000000", "crc": ""}
            if len(b["key"]) == 32 and rng.random() < 0.3:
                b["ctr"] = hx(rng.randbytes(rng.choice([7, 9])))
            base = s0 + rng.choice([0, 0, 16, 1024, 8, 1, 48])
            if rng.random() < 0.15:
                b["s"], b["e"], base = 0, 4095, rng.choice([0, 16])
            out.append({"k": "kb", "blob": b, "base": base, "img": [rng.choice([0, 1, 16, 17, 100, 1024, 1040]), rng.getrandbits(32)],
                        "swap": rng.random() < 0.5, "cv": rng.choice(["none", "zero", "base", "start"])})
        elif kind == "tab":
            c = gen_otfad_case(rng, False)
            c["k"] = "tab"
            mut = rng.choice(["kek15", "kek17", "mask", "align", "zf3", "crc5", "sc3", "sc5", "sc48", "end0", "zfnone"])
            c["mut"] = mut
            if mut == "kek15":
                c["kek"] = c["kek"][:30]
                c["scr"] = c["scr"] or [1, 0xFF]
            elif mut == "kek17":
                c["kek"] += "aa"
            elif mut == "mask":
                c["scr"] = [1 << 32, 0]
            elif mut == "align":
                c["scr"] = [5, 256]
            elif mut == "zf3":
                c["blobs"][0]["zf"] = "010203"
            elif mut == "crc5":
                c["blobs"][-1]["crc"] = "0102030405"
            elif mut in ("sc3", "sc5", "sc48"):
                c["sc"] = int(mut[2:])
            elif mut == "end0":
                c["blobs"][0].update({"s": 0, "e": 0, "fl": rng.choice([0, 3])})
            elif mut == "zfnone":
                c["blobs"][0]["zf"] = ""
            out.append(c)
        elif kind == "ieekb":
            c = gen_iee_case(rng, False, claimed_only=rng.random() < 0.7)
            c["k"] = "ieekb"
            c["blobs"] = c["blobs"][:1]
            b = c["blobs"][0]
            c["base"] = b["s"] + rng.choice([0, 16, 4096, 8, 4])
            c["img"][0] = rng.choice([0, 1, 16, 17, 4096, 4112, 5000])
            if rng.random() < 0.2 and b["mode"] == 1:
                b["k2"] = b["k1"]           # duplicated XTS keys: refused by `cryptography`
            out.append(c)
        else:
            c = gen_bee_case(rng, False)
            c["k"] = "beeblk"
            e = next(x for x in c["engines"] if x and x["facs"])
            st, ln = e["facs"][0]
            c["engine"] = e
            c["addr"] = max(0, rng.choice([st, st + 16, st + ln - 16, st + ln, st - 16, st + ln - 1024, st + 8]))
            c["img"][0] = rng.choice([0, 1, 16, 17, 1008, 1024, 1025])
            if rng.random() < 0.2:
                e["key"] = e["key"][:30]
            if rng.random() < 0.2:
                e["ctr"] = hx(rng.randbytes(12) + rng.randbytes(4))     # low word not zero: encrypt_block does not validate
            out.append(c)
    return out


def eval_direct(s, bt, case):
    img = mk_image(case["img"][1], case["img"][0])
    k = case["k"]
    s.note(case, nontrivial=True, cls=k + ("/" + case["mut"] if "mut" in case else ""))
    if k == "kb":
        from spsdk.utils.crypto.otfad import KeyBlob
        b = case["blob"]
        cv = {"none": None, "zero": 0, "base": case["base"], "start": b["s"]}[case["cv"]]

        def real():
            kb = KeyBlob(b["s"], b["e"], bytes.fromhex(b["key"]), bytes.fromhex(b["ctr"]), b["fl"], zero_fill=bytes(4))
            return kb.encrypt_image(case["base"], img, case["swap"], counter_value=cv)
        r = pyres(real)
        i = bt.add(f"kb_enc {otfad_blob_tok(b)} {case['base']} {tok(img)} {int(case['swap'])} {'-' if cv is None else cv}")
        # the ciphertext is bound to the counter value (default: the blob's start address - flash remap use case): the engine
        # (context = this blob) reads the data back AT THAT ADDRESS, when the blob's window holds it
        at = cv if cv else b["s"]
        inside = r[0] == "ok" and len(b["key"]) == 32 and len(b["ctr"]) == 16 and len(img) > 0 and at % 16 == 0 and \
            b["s"] <= at and at + len(r[1]) - 1 <= ((b["e"] - 1) | 0x3FF)
        i_hw = None
        if inside:
            endw = (((b["e"] - 1) | 0x3FF) & ~7) | b["fl"]
            i_hw = bt.add(f"otfad_hw {int(case['swap'])} {at} {tok(r[1])} 1 {b['key']} {b['ctr']} {b['s']} {endw}")

        def fin_kb():
            s.compare(case, "ok:" + hexs(r[1]) if r[0] == "ok" else r[0], bt[i], "KeyBlob.encrypt_image: model differs")
            if i_hw is not None and bt[i_hw] is not None:
                hw = unhex_ok(bt[i_hw])
                s.expect(hw is not None and hw[:len(img)] == img, case,
                         "KeyBlob.encrypt_image: the engine does not read the data back at the address given as counter value", hex(at), "plaintext")
        return fin_kb
    if k == "tab":
        scr = case["scr"]
        mask, align = (scr if scr else (None, None))

        def real():
            return otfad_make(case).encrypt_key_blobs(bytes.fromhex(case["kek"]), mask, align, case["sc"])
        r = pyres(real)
        blobs = case["blobs"]
        btok = f"{len(blobs)} " + " ".join(otfad_blob_tok(b) for b in blobs)
        if case["mut"] == "zfnone":
            # random zero_fill: nothing to compare byte-wise; the unwrapped fields must still be the configured ones
            s.expect(r[0] == "ok", case, "encrypt_key_blobs raised with the default (random) zero_fill", r)
            if r[0] != "ok":
                return None
            i = bt.add(f"otfad_unwrap {case['kek']} {scr_tok(scr)} {int(case['rev'])} {case['sc']} 1 {tok(r[1])}")
            b = blobs[0]
            endw = 0 if (b["e"] == 0 and b["fl"] == 0) else ((((b["e"] - 1) | 0x3FF) & ~7) | b["fl"])
            crc_ok = 1 if not b["crc"] else 0
            want = f"ok:{b['key']}:{b['ctr']}:{b['s']}:{endw}:"
            return lambda: s.expect(bt[i] is None or (bt[i].startswith(want) and (b["crc"] or bt[i].endswith(":1"))), case,
                                    "OTFAD: key blob with random zero_fill does not unwrap to the configured fields", bt[i], want + str(crc_ok))
        i = bt.add(f"otfad_tab {case['kek'] or '-'} {scr_tok(scr)} {int(case['rev'])} {case['sc']} - {btok}")
        return lambda: s.compare(case, "ok:" + hexs(r[1]) if r[0] == "ok" else r[0], bt[i], "Otfad.encrypt_key_blobs (edge input): model differs")
    if k == "ieekb":
        b = case["blobs"][0]

        def real():
            return iee_make(case)._key_blobs[0].encrypt_image(case["base"], img)
        r = pyres(real)
        i = bt.add(f"iee_kb_enc {iee_blob_tok(b)} {case['base']} {tok(img)}")
        return lambda: s.compare(case, "ok:" + hexs(r[1]) if r[0] == "ok" else r[0], bt[i], "IeeKeyBlob.encrypt_image: model differs")
    if k == "beeblk":
        e = case["engine"]

        def real():
            c2 = dict(case, engines=[e], img=[0, 0], base=0)
            return bee_make(c2).headers[0].encrypt_block(case["addr"], img)
        r = pyres(real)
        i = bt.add(f"bee_block {bee_engine_tok(e)} {case['addr']} {tok(img)}")

        def fin():
            if r[0] == "ok":
                m = unhex_ok(bt[i]) if bt[i] is not None else None
                s.compare(case, "ok:%d:%s" % (len(r[1]), hexs(r[1][:len(img)])),
                          bt[i] if m is None else "ok:%d:%s" % (len(m), hexs(m[:len(img)])), "BeeRegionHeader.encrypt_block: model differs")
            else:
                s.compare(case, r[0], bt[i], "BeeRegionHeader.encrypt_block: model differs")
        return fin
    return None


# =============================================================================================== OtfadNxp / IeeNxp glue
def eval_nxp(s, bt, case):
    """binary_image().export() of OtfadNxp / IeeNxp: the memory image an `nxpimage otfad|iee export` writes."""
    from spsdk.utils.images import BinaryImage
    s.note(case, nontrivial=True, cls=case["k"] + "/" + case["family"])
    ta = case["ta"]
    datas = [(a, mk_image(seed, n)) for a, n, seed in case["data"]]
    lo = min(a for a, _ in datas)

    def tree():
        """`group`: lists of piece indices that form ONE data blob made of several segments (what load_binary_image builds from
        an S-record / HEX / ELF file: a parent image without own binary and 'Segment i' sub-images); other pieces are plain blobs."""
        binaries = BinaryImage("enc", offset=lo - ta)
        grouped = set()
        for g, members in enumerate(case.get("group") or []):
            g_lo = min(datas[j][0] for j in members)
            parent = BinaryImage(f"blob{g}", offset=g_lo - lo)
            for k2, j in enumerate(sorted(members, key=lambda j: datas[j][0])):
                parent.add_image(BinaryImage(f"Segment {k2}", offset=datas[j][0] - g_lo, binary=datas[j][1]))
                grouped.add(j)
            binaries.add_image(parent)
        for j, (a, d) in enumerate(datas):
            if j not in grouped:
                binaries.add_image(BinaryImage(f"d{j}", offset=a - lo, binary=d))
        return binaries

    def pieces_oracle(mem, enc_piece, what):
        """every piece (segment) must be encrypted for ITS absolute address: equal to <engine>.encrypt_image(piece, address) of the
        real API; the gaps between the pieces stay fill bytes"""
        order = sorted(datas)
        for a, d in order:
            r_p = pyres(enc_piece, d, a)
            s.expect(r_p[0] == "ok" and mem[a - ta:a - ta + len(r_p[1])] == r_p[1], case,
                     what + ": a data blob / segment in the exported memory image is not encrypt_image(segment, its absolute address)", hex(a))
        for (a, d), (a2, _) in zip(order, order[1:]):
            gap = mem[a - ta + ceil16(len(d)):a2 - ta]
            s.expect(not any(gap), case, what + ": the gap between two data blobs / segments is not left as fill bytes", hex(a + ceil16(len(d))))
    if case["k"] == "otfadnxp":
        from spsdk.utils.crypto.otfad import KeyBlob, OtfadNxp
        blobs = case["blobs"]
        scr = case["scr"]

        def real():
            kbs = [KeyBlob(b["s"], b["e"], bytes.fromhex(b["key"]), bytes.fromhex(b["ctr"]), b["fl"], zero_fill=bytes.fromhex(b["zf"])) for b in blobs]
            o = OtfadNxp(case["family"], bytes.fromhex(case["kek"]), ta, kbs, scr[0] if scr else None, scr[1] if scr else None, tree())
            return o.binary_image().export(), o.keyblob_byte_swap_cnt, o.reversed_scramble_key, len(o._key_blobs)
        r = pyres(real)
        if not s.expect(r[0] == "ok", case, "OtfadNxp.binary_image().export() raised on a valid configuration", r):
            return None
        mem, sc, rev, nall = r[1]
        o_plain = pyres(otfad_make, case)
        if o_plain[0] == "ok":
            pieces_oracle(mem, lambda d, a: o_plain[1].encrypt_image(align16(d), a, False), "OtfadNxp")
        idx = []
        for a, d in datas:
            ct = mem[a - ta:a - ta + ceil16(len(d))]
            idx.append((a, d, ct, bt.add(f"otfad_hwtab {case['kek']} {scr_tok(scr)} {int(rev)} {sc} {nall} {tok(mem[:64 * nall])} 0 {a} {tok(ct)}")))
        dummy = {"s": 0, "e": 0, "key": "00" * 16, "ctr": "00" * 8, "fl": 0, "zf": "00000000", "crc": ""}
        allb = blobs + [dummy] * (nall - len(blobs))
        i_tab = bt.add(f"otfad_tab {case['kek']} {scr_tok(scr)} {int(rev)} {sc} - {len(allb)} " + " ".join(otfad_blob_tok(b) for b in allb))

        def fin():
            s.compare(case, "ok:" + hexs(mem[:256]), bt[i_tab], "OtfadNxp key-blob table: model differs")
            for a, d, ct, i in idx:
                hw = unhex_ok(bt[i]) if bt[i] is not None else d
                s.expect(hw is not None and hw[:len(d)] == d, case,
                         "OtfadNxp: the engine programmed from the exported table does not read a data blob back from the exported memory image", hex(a))
        return fin
    from spsdk.utils.crypto import iee as m
    blobs = case["blobs"]

    def real():
        c2 = dict(case)
        o0 = iee_make(c2)
        o = m.IeeNxp(case["family"], ta, bytes.fromhex(case["k1"]), bytes.fromhex(case["k2"]), o0._key_blobs, tree())
        img = o.binary_image()
        return img.export(), o.generate_keyblob, o0, o0.encrypt_key_blobs(bytes.fromhex(case["k1"]), bytes.fromhex(case["k2"]), ta), img.absolute_address
    r = pyres(real)
    if not s.expect(r[0] == "ok", case, "IeeNxp.binary_image().export() raised on a valid configuration", r):
        return None
    mem, has_kb, o0, table, org = r[1]
    if has_kb:
        s.expect(mem[:len(table)] == table, case, "IeeNxp: the head of the exported memory image is not encrypt_key_blobs()")
    pieces_oracle(mem, lambda d, a: o0.encrypt_image(d, a), "IeeNxp")
    idx = []
    for a, d in datas:
        ct = mem[a - ta:a - ta + ceil16(len(d))]
        idx.append((a, d, bt.add(f"iee_hwtab {case['k1']} {case['k2']} {ta} {len(blobs)} {tok(table)} {a} {tok(ct)}")))

    def fin():
        for a, d, i in idx:
            hw = unhex_ok(bt[i]) if bt[i] is not None else d
            s.expect(hw is not None and hw[:len(d)] == d, case,
                     "IeeNxp: the engine programmed from the exported key blobs does not read a data blob back from the exported memory image", hex(a))
    return fin


def segment_groups(rng, n):
    """which pieces form one multi-segment data blob: [] (all plain), one group of all pieces, or two groups"""
    if n < 2 or rng.random() < 0.3:
        return []
    if n >= 4 and rng.random() < 0.4:
        return [[0, 1], [2, 3]]
    if n >= 3 and rng.random() < 0.3:
        return [list(range(1, n))]
    return [list(range(n))]


def gen_nxp_cases(rng, n):
    from spsdk.utils.database import DatabaseManager, get_families
    out = []
    of = sorted(get_families(DatabaseManager.OTFAD))
    ief = sorted(get_families(DatabaseManager.IEE))
    for j in range(n):
        if j % 2 == 0:
            c = gen_otfad_case(rng, False)
            ta = 1024 * rng.randrange(1, 1 << 20)
            rs = gen_ranges(rng, rng.choice([1, 2, 3]), 1024)
            off = ta + 0x1000 - min(r[0] for r in rs)
            off -= off % 1024
            rs = sorted((a + off, b + off) for a, b in rs)
            c["blobs"] = [{"s": a, "e": b - rng.choice([0, 1]), "key": hx(rng.randbytes(16)), "ctr": hx(rng.randbytes(8)), "fl": rng.choice([3, 7, 3, 1]),
                           "zf": "00000000", "crc": ""} for a, b in rs]
            data, pos = [], rs[0][0] + 16 * rng.randrange(0, 8)
            for _ in range(rng.choice([1, 2, 3])):
                ln = rng.choice([1, 16, 100, 1000, 1024, 3000])
                data.append([pos, ln, rng.getrandbits(32)])
                pos += ceil16(ln) + 16 * rng.randrange(0, 100)
            c.update({"k": "otfadnxp", "family": rng.choice(of), "ta": ta, "data": data, "group": segment_groups(rng, len(data))})
            out.append(c)
        else:
            c = gen_iee_case(rng, False)
            ta = 4096 * rng.randrange(1, 1 << 18)
            rs = sorted((b["s"], b["e"]) for b in c["blobs"])
            off = ta + 0x1000 - rs[0][0]
            for b in c["blobs"]:
                b["s"] += off
                b["e"] += off
            # 1..4 pieces at page-aligned addresses chosen around the region boundaries: inside a region, crossing its end into a gap
            # or into the next region, in a second region, outside every region
            cands = sorted({a for b in c["blobs"] for a in (b["s"], b["e"] - 4096, b["e"], b["s"] + 4096 * rng.randrange(0, 4), b["e"] + 4096 * rng.randrange(1, 4))
                            if a >= ta + 0x1000})
            data, pos = [], ta + 0x1000
            for a in sorted(rng.sample(cands, min(len(cands), rng.choice([1, 2, 3, 4])))):
                pos = max(pos, a)
                ln = rng.choice([1, 16, 100, 4096, 5000, 8192, 12000])
                data.append([pos, ln, rng.getrandbits(32)])
                pos += 4096 * ((ln + 4095) // 4096 + rng.randrange(0, 3))
            c.update({"k": "ieenxp", "family": rng.choice(ief), "ta": ta, "kba": ta, "data": data, "group": segment_groups(rng, len(data))})
            out.append(c)
    return out


# =============================================================================================== KeyBlob constructor
def gen_ctor_cases(rng, n):
    out = []
    for _ in range(n):
        s0 = 1024 * rng.randrange(0, 1 << 21)
        b = {"s": s0 + rng.choice([0, 0, 0, 16, 1]), "e": s0 + rng.choice([1023, 1024, 4095, 0, -1, 5000]), "key": hx(rng.randbytes(rng.choice([16, 16, 16, 15, 17, 24, 32, 0]))),
             "ctr": hx(rng.randbytes(rng.choice([8, 8, 8, 7, 9, 16, 0]))), "fl": rng.choice([3, 3, 7, 0, 8, 15]), "zf": "00000000", "crc": ""}
        if rng.random() < 0.1:
            b["e"] = rng.choice([M32, M32 + 1])
        b["e"] = max(0, b["e"])
        out.append({"k": "ctor", "blob": b})
    return out


def eval_ctor(s, bt, case):
    from spsdk.utils.crypto.otfad import KeyBlob
    b = case["blob"]
    klen, clen = len(b["key"]) // 2, len(b["ctr"]) // 2
    s.note(case, nontrivial=True, cls=f"key{klen}/ctr{clen}")
    r = pyres(lambda: KeyBlob(b["s"], b["e"], bytes.fromhex(b["key"]), bytes.fromhex(b["ctr"]), b["fl"], zero_fill=bytes(4)) and None)
    i = bt.add(f"kb_ctor {otfad_blob_tok(b)}")
    # the constructor documents "raises SPSDKError: When there is invalid key": key 16 bytes, counter 8 bytes
    if klen != 16 or clen != 8:
        s.expect(r[0] == "E:spsdk", case, "KeyBlob accepts a key / counter of the wrong size (an encrypted image made with it cannot be "
                 "decrypted by the AES-128 engine, or encrypt_image fails later)", r[0], "E:spsdk")
    return lambda: s.compare(case, r[0], bt[i], "KeyBlob constructor accept/reject: model differs")


# =============================================================================================== OTFAD through SB2.1 (BD file)
BD_HEAD = 'options { flags = 0x8; buildNumber = 0x1; productVersion = "1.00.00"; componentVersion = "1.00.00"; secureBinaryVersion = "2.1"; }\n'


def gen_sb21_case(rng):
    n = rng.choice([1, 1, 2, 3, 4])
    ranges = gen_ranges(rng, n, 1024)
    blobs, cmds = [], []
    kek = hx(rng.randbytes(16))
    for i, (s0, e0) in enumerate(ranges):
        low = rng.choice([0x3FF, 0x3FF, 0x3FF, 0x3FB, 0x3FB, 0x3FD, 0x3FE, 0x400])     # flag bits as the LOW BITS of `end` (elftosb BD convention)
        end = e0 - 0x400 + low
        if end > M32:
            end = e0 - 1
        b = {"s": s0, "e": end, "key": hx(rng.randbytes(16 if rng.random() < 0.93 else 32)), "ctr": hx(rng.randbytes(8)), "swap": rng.random() < 0.25}
        blobs.append(b)
        if rng.random() < 0.8:
            ln = rng.choice([1, 4, 16, 100, 512, 513, 1500])
            ln = min(ln, max(1, (e0 - s0) - 512))
            room = (e0 - s0) - (ln + 511) // 512 * 512
            off = 0 if (rng.random() < 0.6 or room <= 0) else 16 * rng.randrange(0, room // 16 + 1)
            cmds.append({"op": "encrypt", "id": i, "addr": s0 + off, "data": [ln, rng.getrandbits(32)]})
    for i in range(len(blobs)):
        cmds.append({"op": "keywrap", "id": i, "addr": 0x1000 + 64 * i, "rnd": hx(rng.randbytes(4))})
    return {"k": "sb21", "blobs": blobs, "cmds": cmds, "kek": kek, "via": rng.choice(["bd", "bd", "dict"])}


def sb21_config(case, scratch):
    """The parsed configuration: through the real BD lexer/parser, or (for byte_swap) as the YAML path would give it."""
    import os
    blobs = case["blobs"]
    if case["via"] == "bd":
        from spsdk.sbfile.sb2 import sly_bd_parser
        srcs, body = [], []
        for j, c in enumerate(case["cmds"]):
            if c["op"] == "encrypt":
                fn = os.path.join(scratch, f"sb21_{j}.bin")
                with open(fn, "wb") as fh:
                    fh.write(mk_image(c["data"][1], c["data"][0]))
                srcs.append(f'f{j} = "{fn}";')
                body.append(f"encrypt({c['id']}){{ load f{j} > {hex(c['addr'])}; }}")
            else:
                body.append(f"keywrap({c['id']}){{ load {{{{{case['kek']}}}}} > {hex(c['addr'])}; }}")
        text = BD_HEAD + "sources { " + " ".join(srcs) + " }\n"
        for i, b in enumerate(blobs):
            text += f'keyblob({i}){{ ( start = {hex(b["s"])}, end = {hex(b["e"])}, key = "{b["key"]}", counter = "{b["ctr"]}" ) }}\n'
        text += "section (0) {\n" + "\n".join(body) + "\n}\n"
        conf = sly_bd_parser.BDParser().parse(text=text, extern=[])
        if conf is None:
            raise ValueError("BD text not parsed")
        return conf
    cmds = []
    for j, c in enumerate(case["cmds"]):
        if c["op"] == "encrypt":
            fn = os.path.join(scratch, f"sb21_{j}.bin")
            with open(fn, "wb") as fh:
                fh.write(mk_image(c["data"][1], c["data"][0]))
            cmds.append({"encrypt": {"keyblob_id": c["id"], "file": fn, "address": c["addr"]}})
        else:
            cmds.append({"keywrap": {"keyblob_id": c["id"], "address": c["addr"], "values": case["kek"]}})
    return {"keyblobs": [{"keyblob_id": i, "keyblob_content": [{"start": b["s"], "end": b["e"], "key": b["key"], "counter": b["ctr"], "byte_swap": b["swap"]}]}
                         for i, b in enumerate(blobs)], "sections": [{"section_id": 0, "commands": cmds}]}


def eval_sb21(s, bt, case):
    import os
    from spsdk.sbfile.sb2.sb_21_helper import SB21Helper
    from spsdk.utils.crypto import otfad as otfad_mod
    blobs = case["blobs"]
    scratch = os.environ.get("VERIF_SCRATCH", "/tmp")
    s.note(case, nontrivial=True, cls=case["via"] + f"/{len(blobs)}b")

    def real():
        conf = sb21_config(case, scratch)
        helper = SB21Helper([scratch])
        out = []
        saved = otfad_mod.random_bytes
        cur = [b""]
        otfad_mod.random_bytes = lambda n: cur[0]       # pins the random `zero_fill` of the wrapped key blobs
        try:
            for cmd, cc in zip(conf["sections"][0]["commands"], case["cmds"]):
                cur[0] = bytes.fromhex(cc.get("rnd", "00000000"))
                for key, value in cmd.items():
                    value.update({"keyblobs": conf.get("keyblobs", [])})
                    c = pyres(helper.get_command(key), value)
                    out.append(c if c[0] != "ok" else ("ok", (c[1].address, bytes(c[1].data))))
        finally:
            otfad_mod.random_bytes = saved
        return out
    r = pyres(real)
    if not s.expect(r[0] == "ok" and len(r[1]) == len(case["cmds"]), case, "SB2.1 BD with keyblob / encrypt / keywrap commands is not processed", r[0]):
        return None
    res = r[1]
    swap_eff = [b["swap"] if case["via"] == "dict" else False for b in blobs]
    idx = []
    wraps = {}
    for c, rc in zip(case["cmds"], res):
        b = blobs[c["id"]]
        if c["op"] == "encrypt":
            data = mk_image(c["data"][1], c["data"][0])
            i = bt.add(f"sb21_enc {b['s']} {b['e']} {b['key']} {b['ctr']} {int(swap_eff[c['id']])} {c['addr']} {tok(data)}")
        else:
            i = bt.add(f"sb21_kw {b['s']} {b['e']} {b['key']} {b['ctr']} {case['kek']} {c['rnd']}")
            if rc[0] == "ok":
                wraps[c["id"]] = rc[1][1]
        s.expect(rc[0] != "ok" or rc[1][0] == c["addr"], case, "SB2.1 load command carries another address than the BD file says", rc)
        idx.append(i)
    # the engine programmed from the wrapped key blobs (in key-blob order) reads every encrypted load back at its LOAD address
    hw = []
    if len(wraps) == len(blobs):
        table = b"".join(wraps[i] for i in range(len(blobs)))
        un = bt.add(f"otfad_unwrap {case['kek']} - 0 0 {len(blobs)} {tok(table)}")
        for c, rc in zip(case["cmds"], res):
            if c["op"] == "encrypt" and rc[0] == "ok":
                hw.append((c, rc[1][1], bt.add(f"otfad_hwtab {case['kek']} - 0 0 {len(blobs)} {tok(table)} {int(swap_eff[c['id']])} {c['addr']} {tok(rc[1][1])}")))
    else:
        un = None

    def finish():
        for c, rc, i in zip(case["cmds"], res, idx):
            s.compare(case, "ok:" + hexs(rc[1][1]) if rc[0] == "ok" else rc[0], bt[i], f"SB2.1 {c['op']} command: model differs")
        if un is not None and bt[un] is not None:
            got = bt[un][3:].split("|")
            for i, b in enumerate(blobs):
                # BD convention: RO/ADE/VLD are the low bits of `end`
                endw = (((b["e"] - 1) | 0x3FF) & ~7) | (b["e"] & 7)
                want = f"{b['key']}:{b['ctr']}:{b['s']}:{endw}:1"
                s.expect(i < len(got) and got[i] == want, case,
                         "SB2.1 keywrap: the wrapped key blob does not unwrap to the key/counter/range/flags of the BD keyblob (flags = low bits of `end`)",
                         got[i] if i < len(got) else None, want)
        for c, ct, i in hw:
            if bt[i] is None:
                continue
            b = blobs[c["id"]]
            data = mk_image(c["data"][1], c["data"][0])
            got = unhex_ok(bt[i])
            s.expect(got is not None and got[:len(data)] == data, case,
                     "SB2.1 encrypt + keywrap: the engine programmed from the wrapped key blobs does not read the loaded data back at the load address",
                     {"load_address": hex(c["addr"]), "blob_start": hex(b["s"]), "end": hex(b["e"])}, "plaintext")
    return finish


# =============================================================================================== nxpimage CLI (load_from_config + written files)
def cli_data(seed, n):
    """Data blob for the CLI stream; a file whose whole content is 7-bit ASCII is sniffed as a text format by
    BinaryImage.load_binary_image (open finding of C16, not the subject here): never generate one."""
    d = bytearray(mk_image(seed, n))
    if d and all(b < 0x80 for b in d):
        d[0] |= 0x80
    return bytes(d)


def cli_invoke(args):
    from click.testing import CliRunner
    from spsdk.apps import nxpimage
    res = CliRunner().invoke(nxpimage.main, args)
    if res.exit_code != 0:
        raise RuntimeError(f"nxpimage {' '.join(args[:2])} exit {res.exit_code}: {str(res.exception)[:300]}")
    return res.output


def eval_cli(s, bt, case):
    import json
    import os
    import shutil
    kind = case["k"]
    s.note(case, nontrivial=True, cls=kind + "/" + case.get("family", "-"))
    d = os.path.join(os.environ.get("VERIF_SCRATCH", "/tmp"), "c13cli")
    shutil.rmtree(d, ignore_errors=True)
    os.makedirs(d)

    def rd(name):
        with open(os.path.join(d, "out", name), "rb") as fh:
            return fh.read()
    if kind == "cli_otfad":
        ta, blobs, scr = case["ta"], case["blobs"], case["scr"]
        datas = [(a, cli_data(seed, n)) for a, n, seed in case["data"]]
        with open(os.path.join(d, "kek.bin"), "wb") as fh:
            fh.write(bytes.fromhex(case["kek"]))
        cfg = {"family": case["family"], "output_folder": "out", "output_name": "whole", "keyblob_name": "table", "encrypted_name": "blobs",
               "generate_readme": False, "kek": "kek.bin", "otfad_table_address": hex(ta), "data_blobs": [], "key_blobs": []}
        for j, (a, dta) in enumerate(datas):
            with open(os.path.join(d, f"d{j}.bin"), "wb") as fh:
                fh.write(dta)
            cfg["data_blobs"].append({"data": f"d{j}.bin", "address": hex(a)})
        for b in blobs:
            cfg["key_blobs"].append({"aes_key": "0x" + b["key"], "aes_ctr": "0x" + b["ctr"], "start_address": hex(b["s"]), "end_address": hex(b["e"]),
                                     "aes_decryption_enable": bool(b["fl"] & 2), "valid": bool(b["fl"] & 1), "read_only": bool(b["fl"] & 4)})
        if scr:
            cfg["key_scramble"] = {"key_scramble_mask": hex(scr[0]), "key_scramble_align": hex(scr[1])}
        with open(os.path.join(d, "cfg.json"), "w") as fh:
            json.dump(cfg, fh)
        r = pyres(cli_invoke, ["otfad", "export", "-c", os.path.join(d, "cfg.json")])
        if not s.expect(r[0] == "ok", case, "nxpimage otfad export failed on a valid configuration", r):
            return None
        whole, table = rd("whole.bin"), rd("table.bin")

        def api():
            from spsdk.utils.crypto.otfad import KeyBlob, OtfadNxp
            from spsdk.utils.database import DatabaseManager, get_db
            from spsdk.utils.images import BinaryImage
            lo = min([a for a, _ in datas] + [b["s"] for b in blobs])
            binaries = BinaryImage("enc", offset=lo - ta)
            for j, (a, dta) in enumerate(datas):
                binaries.add_image(BinaryImage(f"d{j}", offset=a - lo, binary=dta))
            use_scr = scr if get_db(case["family"], "latest").get_bool(DatabaseManager.OTFAD, "supports_key_scrambling", False) else None
            kbs = [KeyBlob(b["s"], b["e"], bytes.fromhex(b["key"]), bytes.fromhex(b["ctr"]), b["fl"], zero_fill=bytes(4)) for b in blobs]
            o = OtfadNxp(case["family"], bytes.fromhex(case["kek"]), ta, None, use_scr[0] if use_scr else None, use_scr[1] if use_scr else None, binaries)
            for i, kb in enumerate(kbs):
                o[i] = kb
            return o.binary_image(data_alignment=512).export(), o.keyblob_byte_swap_cnt, o.reversed_scramble_key, len(o._key_blobs), use_scr
        ra = pyres(api)
        if not s.expect(ra[0] == "ok", case, "OtfadNxp API path raised where the CLI succeeded", ra):
            return None
        mem, sc, rev, nall, use_scr = ra[1]
        s.expect(mem == whole, case, "nxpimage otfad export: the written whole image differs from OtfadNxp.binary_image().export()", len(whole), len(mem))
        s.expect(whole[:len(table)] == table and len(table) >= 64 * nall, case, "nxpimage otfad export: the written key-blob table file is not the head of the whole image")
        idx = [(a, dta, bt.add(f"otfad_hwtab {case['kek']} {scr_tok(use_scr)} {int(rev)} {sc} {nall} {tok(table[:64 * nall])} 0 {a} "
                               f"{tok(whole[a - ta:a - ta + ceil16(len(dta))])}")) for a, dta in datas]

        def fin():
            for a, dta, i in idx:
                hw = unhex_ok(bt[i]) if bt[i] is not None else dta
                s.expect(hw is not None and hw[:len(dta)] == dta, case,
                         "nxpimage otfad export: the engine programmed from the written table file does not read a data blob back from the written image", hex(a))
        return fin
    if kind == "cli_iee":
        ta, blobs = case["ta"], case["blobs"]
        datas = [(a, cli_data(seed, n)) for a, n, seed in case["data"]]
        cfg = {"family": case["family"], "output_folder": "out", "output_name": "whole", "keyblob_name": "kb", "encrypted_name": "blobs",
               "generate_readme": False, "generate_fuses_script": False, "keyblob_address": hex(ta), "data_blobs": [],
               "ibkek1": "0x" + case["k1"], "ibkek2": "0x" + case["k2"], "key_blobs": []}
        grouped = set()
        for g, members in enumerate(case.get("group") or []):
            # one S-record / Intel-HEX file with several segments (gaps between them): no address in the configuration
            import bincopy
            bf = bincopy.BinFile()
            for j in members:
                bf.add_binary(datas[j][1], address=datas[j][0])
                grouped.add(j)
            ext = "s19" if (g + len(members)) % 2 else "hex"
            with open(os.path.join(d, f"g{g}.{ext}"), "w") as fh:
                fh.write(bf.as_srec() if ext == "s19" else bf.as_ihex())
            cfg["data_blobs"].append({"data": f"g{g}.{ext}"})
        for j, (a, dta) in enumerate(datas):
            if j in grouped:
                continue
            with open(os.path.join(d, f"d{j}.bin"), "wb") as fh:
                fh.write(dta)
            cfg["data_blobs"].append({"data": f"d{j}.bin", "address": hex(a)})
        for b in blobs:
            cfg["key_blobs"].append({"region_lock": b["lock"], "aes_mode": IEE_MODES[b["mode"]], "key_size": "CTR128XTS256" if b["ks"] == 0 else "CTR256XTS512",
                                     "page_offset": b["po"], "key1": "0x" + b["k1"], "key2": "0x" + b["k2"], "start_address": hex(b["s"]), "end_address": hex(b["e"])})
        with open(os.path.join(d, "cfg.json"), "w") as fh:
            json.dump(cfg, fh)
        r = pyres(cli_invoke, ["iee", "export", "-c", os.path.join(d, "cfg.json")])
        if not s.expect(r[0] == "ok", case, "nxpimage iee export failed on a valid configuration", r):
            return None
        whole = rd("whole.bin")
        kb = rd("kb.bin") if os.path.exists(os.path.join(d, "out", "kb.bin")) else None
        if kb is None:
            return None                   # family without generated key blob
        s.expect(whole[:len(kb)] == kb and len(kb) % 384 == 0, case, "nxpimage iee export: the written key-blob file is not the head of the whole image")
        r0 = pyres(iee_make, case)
        if r0[0] == "ok":
            for a, dta in sorted(datas):
                r_p = pyres(r0[1].encrypt_image, dta, a)
                s.expect(r_p[0] == "ok" and whole[a - ta:a - ta + len(r_p[1])] == r_p[1], case,
                         "nxpimage iee export: a data blob / segment in the written image is not Iee.encrypt_image(segment, its absolute address)", hex(a))
            order = sorted(datas)
            for (a, dta), (a2, _) in zip(order, order[1:]):
                s.expect(not any(whole[a - ta + ceil16(len(dta)):a2 - ta]), case,
                         "nxpimage iee export: the gap between two data blobs / segments is not left as fill bytes", hex(a))
        i_un = bt.add(f"iee_unwrap {case['k1']} {case['k2']} {ta} {len(blobs)} {tok(kb)}")
        idx = [(a, dta, bt.add(f"iee_hwtab {case['k1']} {case['k2']} {ta} {len(blobs)} {tok(kb)} {a} {tok(whole[a - ta:a - ta + ceil16(len(dta))])}"))
               for a, dta in datas]

        def fin():
            if bt[i_un] is not None:
                exp = []
                for b in blobs:
                    k1 = bytes.fromhex(b["k1"]).ljust(32, b"\0")
                    k2 = bytes.fromhex(b["k2"]).ljust(32, b"\0")
                    exp.append(f"{0x5A if b['ks'] == 0 else 0xA5}:{[0x6A, 0xA6, 0x66, 0xAA, 0x19][b['mode']]}:{b['po']}:{k1.hex()}:{k2.hex()}:{b['s']}:{b['e']}")
                s.expect(bt[i_un] == "ok:" + "|".join(exp), case, "nxpimage iee export: the written key-blob file does not decrypt/parse to the configuration", bt[i_un])
            for a, dta, i in idx:
                hw = unhex_ok(bt[i]) if bt[i] is not None else dta
                s.expect(hw is not None and hw[:len(dta)] == dta, case,
                         "nxpimage iee export: the engine programmed from the written key-blob file does not read a data blob back from the written image", hex(a))
        return fin
    # ---- BEE: counter and KIB are drawn at random by load_from_config; the written headers are all the ROM needs
    img = cli_data(case["img"][1], case["img"][0])
    base, engines = case["base"], case["engines"]
    with open(os.path.join(d, "in.bin"), "wb") as fh:
        fh.write(img)
    sel = "both" if all(engines) else ("engine0" if engines[0] else "engine1")
    cfg = {"output_folder": "out", "input_binary": "in.bin", "output_name": "enc", "header_name": "hdr", "engine_selection": sel,
           "engine_key_selection": "random", "base_address": hex(base), "bee_engine": []}
    pinned = {}
    if case.get("binary_cfg"):
        # `bee_binary_cfg` branch: the region headers come from files (exported through the API with pinned counter / KIB)
        api = bee_make(dict(case, img=[0, 0]))
        for i, (e, h) in enumerate(zip(engines, api.headers)):
            if e:
                pinned[i] = h.export()
                with open(os.path.join(d, f"in_hdr{i}.bin"), "wb") as fh:
                    fh.write(pinned[i])
    for i, e in enumerate(engines):
        if e and i in pinned:
            cfg["bee_engine"].append({"bee_binary_cfg": {"header_path": f"in_hdr{i}.bin", "user_key": "0x" + e["key"]}})
        elif e:
            cfg["bee_engine"].append({"bee_cfg": {"user_key": "0x" + e["key"], "protected_region": [
                {"start_address": hex(st), "length": hex(ln), "protected_level": e.get("level", 0)} for st, ln in e["facs"]]}})
    with open(os.path.join(d, "cfg.json"), "w") as fh:
        json.dump(cfg, fh)
    r = pyres(cli_invoke, ["bee", "export", "-c", os.path.join(d, "cfg.json")])
    if not s.expect(r[0] == "ok", case, "nxpimage bee export failed on a valid configuration", r):
        return None
    ct = rd("enc.bin")
    hdrs = [(e, rd(f"hdr{i}.bin")) for i, e in enumerate(engines) if e]
    s.expect(len(img) <= len(ct) <= ceil16(len(img)) and all(len(h) == 0x200 for _, h in hdrs), case, "nxpimage bee export: wrong size of a written file")
    if pinned:
        s.expect([h for _, h in hdrs] == [pinned[i] for i in sorted(pinned)], case,
                 "nxpimage bee export (bee_binary_cfg): a region header read from a file is not written back unchanged")
        from spsdk.image.bee import BeeNxp
        r_api = pyres(lambda: BeeNxp(bee_make(dict(case, img=[0, 0])).headers, img, base).export_image())
        s.expect(r_api[0] == "ok" and r_api[1][:len(img)] == ct[:len(img)] and len(r_api[1]) == len(ct), case,
                 "nxpimage bee export (bee_binary_cfg): the written image differs from the API path with the same headers")
    i_hw = bt.add(f"bee_hwhdr {base} {tok(ct)} {len(hdrs)} " + " ".join(f"{e['key']} {tok(h)}" for e, h in hdrs))
    i_us = [(e, bt.add(f"bee_unhdr {e['key']} {tok(h)}")) for e, h in hdrs]

    def fin():
        for e, i in i_us:
            if bt[i] is None:
                continue
            parts = bt[i].split(":")
            s.expect(len(parts) == 4 and parts[1] == e["key"] and parts[2].endswith("00000000") and parts[3] == ",".join(f"{st}+{ln}" for st, ln in e["facs"]), case,
                     "nxpimage bee export: a written region header does not decrypt/parse to the configured FAC regions", bt[i])
        if bt[i_hw] is not None:
            hw = unhex_ok(bt[i_hw])
            s.expect(hw is not None and hw[:len(img)] == img, case,
                     "nxpimage bee export: the engine programmed from the written headers does not read the plaintext back from the written image")
    return fin


def gen_cli_cases(rng, n):
    out = []
    nx = gen_nxp_cases(rng, 2 * ((n + 2) // 3))
    for j in range(n):
        if j % 3 == 2:
            c = gen_bee_case(rng, False)
            while not all(e is None or e["facs"] for e in c["engines"]) or (c["engines"][0] is None and c["engines"][1] is None):
                c = gen_bee_case(rng, False)
            c["k"] = "cli_bee"
            c["binary_cfg"] = rng.random() < 0.5
            out.append(c)
        else:
            c = nx.pop(0)
            while (j % 3 == 0) != (c["k"] == "otfadnxp"):
                nx.append(c)
                c = nx.pop(0)
            if c["k"] == "otfadnxp":
                c["k"] = "cli_otfad"
                c["blobs"] = c["blobs"][:4]
            else:
                c["k"] = "cli_iee"
                for b in c["blobs"]:
                    b["po"] = b["po"] & M32
            out.append(c)
    return out


# =============================================================================================== fixed regression cases
def fixed_cases():
    key, ctr = "000102030405060708090a0b0c0d0e0f", "2021222324252627"
    blob = {"s": 0x1000, "e": 0x1FFF, "key": key, "ctr": ctr, "fl": 3, "zf": "00000000", "crc": ""}
    base_case = {"k": "otfad", "swap": False, "kek": "ff" * 16, "scr": None, "rev": False, "sc": 0}
    out = []
    # DESIGN §7 #20: 16-byte aligned, not 1 KiB aligned base; the unit straddling the END / the START of the blob
    out.append(dict(base_case, img=[0x800, 1], base=0x1C10, blobs=[dict(blob)], split=0x3F0))
    out.append(dict(base_case, img=[0x800, 2], base=0x0C10, blobs=[dict(blob)], split=0x400))
    out.append(dict(base_case, img=[32, 3], base=0x0FF0, blobs=[dict(blob)], split=16))
    # end address written as the aligned upper bound: the byte AT end_addr is outside the engine's window
    out.append(dict(base_case, img=[1025, 4], base=0x1C00, blobs=[dict(blob, e=0x2000)], split=1024))
    out.append(dict(base_case, img=[1025, 5], base=0x1C00, blobs=[dict(blob, e=0x2000)], swap=True, sc=8, scr=[0x12345678, 0x1B], split=0))
    # IEE bypass region: data left as they are; XTS/CTR neighbours
    ib = {"lock": False, "ks": 1, "mode": 0, "s": 0x30001000, "e": 0x30003000, "k1": "11" * 32, "k2": "22" * 32, "po": 0}
    out.append({"k": "iee", "img": [5000, 6], "base": 0x30001000, "blobs": [ib], "k1": "01" * 32, "k2": "02" * 32, "kba": 0x30000000, "split": 4096})
    out.append({"k": "iee", "img": [12289, 7], "base": 0x30000000, "blobs": [ib, dict(ib, mode=1, s=0x30003000, e=0x30004000, ks=0, k1="33" * 16, k2="44" * 16)],
                "k1": "01" * 32, "k2": "02" * 32, "kba": 0x30000000, "split": 8192})
    # BEE: base not 1 KiB aligned, block straddling the start / the end of a FAC region
    eng = {"key": "0f" * 16, "ctr": "a5" * 12 + "00000000", "facs": [[0x1000, 0x800]], "level": 0}
    out.append({"k": "bee", "img": [0x800, 8], "base": 0x0C10, "engines": [eng, None], "split": 0x400})
    out.append({"k": "bee", "img": [0x800, 9], "base": 0x1410, "engines": [None, eng], "split": 0x10})
    out.append({"k": "bee", "img": [33, 10], "base": 0x0FF0, "engines": [eng, None], "split": 16})
    # a data blob made of several segments (S-record / HEX input): every segment is encrypted for ITS absolute address
    seg = {"family": "mimxrt1176", "ta": 0x30000000, "kba": 0x30000000, "img": [0, 0], "base": 0x30000000, "split": 0, "k1": "40" * 32, "k2": "61" * 32,
           "blobs": [dict(ib, mode=1, s=0x30001000, e=0x30004000), dict(ib, mode=2, ks=0, s=0x30004000, e=0x30008000, k1="33" * 16, k2="44" * 16)],
           "data": [[0x30002000, 4096, 21], [0x30003000, 5000, 22], [0x30006000, 100, 23], [0x30009000, 16, 24]], "group": [[0, 1, 2, 3]]}
    out.append(dict(seg, k="ieenxp"))
    out.append(dict(seg, k="cli_iee", group=[[0, 1], [2, 3]]))
    out.append({"k": "otfadnxp", "family": "mimxrt595s", "ta": 0x08000000, "kek": "ff" * 16, "scr": None, "rev": False, "sc": 0, "swap": False,
                "blobs": [dict(blob, s=0x08001000, e=0x08001FFF), dict(blob, s=0x08002000, e=0x08002400, key="aa" * 16)],
                "data": [[0x08001010, 100, 31], [0x08001C00, 2048, 32], [0x08002800, 16, 33]], "group": [[0, 1, 2]]})
    # fixes C13-5/6/7: constructor sizes; SB2.1 encrypt off the blob start; keywrap flags from the end address
    out.append({"k": "ctor", "blob": {"s": 0x1000, "e": 0x1FFF, "key": "00" * 32, "ctr": "00" * 8, "fl": 3, "zf": "00000000", "crc": ""}})
    out.append({"k": "ctor", "blob": {"s": 0x1000, "e": 0x1FFF, "key": "00" * 16, "ctr": "00" * 7, "fl": 3, "zf": "00000000", "crc": ""}})
    sb = {"k": "sb21", "kek": "0102030405060708090a0b0c0d0e0f00", "via": "bd",
          "blobs": [{"s": 0x08001000, "e": 0x08001FFF, "key": key, "ctr": ctr, "swap": False}, {"s": 0x08002000, "e": 0x080023FD, "key": key, "ctr": ctr, "swap": False}],
          "cmds": [{"op": "encrypt", "id": 0, "addr": 0x08001400, "data": [100, 11]}, {"op": "encrypt", "id": 1, "addr": 0x08002000, "data": [4, 12]},
                   {"op": "keywrap", "id": 0, "addr": 0x08000000, "rnd": "01020304"}, {"op": "keywrap", "id": 1, "addr": 0x08000040, "rnd": "05060708"}]}
    out.append(sb)
    out.append(dict(sb, via="dict", blobs=[dict(b, swap=True) for b in sb["blobs"]]))
    return out


EVAL = {"ctor": eval_ctor, "sb21": eval_sb21, "cli_otfad": eval_cli, "cli_iee": eval_cli, "cli_bee": eval_cli, "otfad": eval_otfad, "iee": eval_iee, "ieex": eval_ieex, "bee": eval_bee, "kb": eval_direct, "tab": eval_direct, "ieekb": eval_direct,
        "beeblk": eval_direct, "otfadnxp": eval_nxp, "ieenxp": eval_nxp}


def run_cases(s, drv, cases, chunk=120):
    for i in range(0, len(cases), chunk):
        bt = Batch(drv)
        fins = [EVAL[c["k"]](s, bt, c) for c in cases[i:i + chunk]]
        bt.run()
        for f in fins:
            if f is not None:
                f()


# driver ops that evaluate ONLY lean/SpsdkVerif/Spec/FlashEncHw.lean (+ Crypto/*): the hardware / ROM side with hand-written
# constants, independent of Generated/ and of the model of the code.  Every s.expect() that looks at a driver answer uses one of these.
SPEC_OPS = {"otfad_hw", "otfad_hwtab", "otfad_unwrap", "iee_unwrap", "iee_hwtab", "iee_hwtabx", "iee_ctrx", "bee_hw", "bee_unhdr", "bee_hwhdr"}


def setup(ck):
    import logging
    ck.spec_ops = set(SPEC_OPS)
    logging.getLogger("spsdk").setLevel(logging.CRITICAL)   # "Image address range is not within key blob" warnings are expected here
    ck.lean_obligations(generated=["FlashEncConsts"])
    drv = ck.driver()
    ck.assume(
        "cryptography's AES-CTR / AES-XTS / RFC 3394 key wrap and crcmod's CRC are the standard algorithms (the Lean reference "
        "implementations are validated against them by C09 and, through the correspondence streams, on every run here)",
        "OTFAD engine: context = first valid context whose SRTADDR/ENDADDR[31:10] window holds the address, ADE selects decrypt/bypass, "
        "counter = {CTR, CTR_W0^CTR_W1, address[31:4]0000b}, byte-swap option = 8+8 byte reversal on the bus (from the source comments)",
        "IEE engine: regions are [start_address, end_address) as in SPSDK's configuration files, tweak = address >> 12 little endian, "
        "AES-CTR with address binding adds address >> 4 to the low counter word (mod 2^32), page_offset is not applied by the model",
        "BEE engine: counter = nonce[0:12] || BE32(address >> 4); the random padding SPSDK appends to a short last block is not compared",
        "IEE extended engine (Phase 3; NOT taken from a data sheet, the source describes neither): A-PO the region is selected by the "
        "system address, tweak / counter are formed from system address + 4 KiB * page_offset (SPSDK's data address = that logical "
        "address); A-CTR the modes AesCTRWOAddress / AesCTRkeystream form the counter like AesCTRWAddress (theorem iee_ctr_engine_only: "
        "no other counter can read SPSDK's output back)",
        "KeyBlob constructor arguments zero_fill (always) and crc (15 %) are pinned; with the default random zero_fill only the unwrapped fields are checked")
    return drv


def run(ck):
    drv = setup(ck)
    rng = ck.rng
    s = ck.stream("regressions", "fixed inputs of the defects repaired by proposed_fixes/C13-1..4 (non-1KiB-aligned bases straddling a "
                  "key-blob / FAC boundary, end address written as upper bound, IEE bypass); non-trivial = non-empty image")
    run_cases(s, drv, fixed_cases())

    s = ck.stream("otfad", "1..4 disjoint 1 KiB-aligned key blobs (end written inclusive / exclusive / mid-unit; flags incl. VLD-only, "
                  "ADE-only, none), images of length {0,1,15,16,17,1023,1024,1025,4095,4096,4097, random <= 64 KiB}, 16-byte aligned "
                  "bases (1 KiB aligned or not) inside / straddling / outside the windows, byte swap, KEK, scramble mask/align, "
                  "reversed scramble key, key-blob byte-swap count; non-trivial = non-empty image")
    run_cases(s, drv, [gen_otfad_case(rng, i % 9 == 0) for i in range(ck.budget(560, 12000))])

    s = ck.stream("iee", "1..4 disjoint 4 KiB-aligned regions in AES-XTS 256/512, AES-CTR-with-address 128/256 (incl. counter words next "
                  "to the 32-bit wrap), bypass; 4 KiB-aligned data addresses; same image lengths; IBKEKs and key-blob addresses; "
                  "non-trivial = non-empty image")
    run_cases(s, drv, [gen_iee_case(rng, i % 9 == 0) for i in range(ck.budget(380, 9000))])

    s = ck.stream("iee_other_ctr", "regions in AesCTRWOAddress / AesCTRkeystream (mixed with claimed modes): no crash, lengths, untouched "
                  "outside, model correspondence; with page offset 0 the extended engine (assumption A-CTR) programmed from the exported "
                  "key blobs reads the plaintext back")
    run_cases(s, drv, [gen_iee_case(rng, False, claimed_only=False) for i in range(ck.budget(60, 1500))])

    s = ck.stream("bee", "one or two engines with 1..4 FAC regions each (disjoint, 1 KiB aligned), 16-byte aligned bases (1 KiB aligned "
                  "or not), same image lengths; non-trivial = non-empty image")
    run_cases(s, drv, [gen_bee_case(rng, i % 9 == 0) for i in range(ck.budget(380, 9000))])

    s = ck.stream("direct_and_malformed", "KeyBlob.encrypt_image / IeeKeyBlob.encrypt_image / encrypt_block called directly (counter_value "
                  "None/0/address, unaligned base, wrong key / counter / KEK sizes, duplicated XTS keys, scramble values out of range, "
                  "zero_fill/crc of wrong size, odd byte-swap counts): accept/reject class and bytes vs the model")
    run_cases(s, drv, gen_direct_cases(rng, ck.budget(260, 6000)))

    s = ck.stream("nxp_glue", "OtfadNxp / IeeNxp .binary_image().export() for every supported family: data blobs cut out of the exported memory "
                  "image are read back by the engine programmed from the exported table (family byte-swap count / reversed scramble key)")
    run_cases(s, drv, gen_nxp_cases(rng, ck.budget(60, 1200)))

    s = ck.stream("keyblob_ctor", "KeyBlob constructor on valid / invalid address, flag, key-size and counter-size combinations: accept/reject vs "
                  "the model; wrong key or counter sizes must be refused")
    run_cases(s, drv, gen_ctor_cases(rng, ck.budget(150, 3000)))

    s = ck.stream("sb21", "OTFAD through SB2.1: BD text (real BD lexer/parser) or parsed YAML dictionary with 1..4 keyblob blocks (flag bits as "
                  "low bits of `end`), encrypt(id){load file > addr} at / off the key-blob start and keywrap(id) commands, run through "
                  "SB21Helper: command bytes vs the model; the engine programmed from the WRAPPED blobs reads the loads back at their load address")
    run_cases(s, drv, [gen_sb21_case(rng) for _ in range(ck.budget(60, 1500))], chunk=30)

    s = ck.stream("cli", "nxpimage otfad|iee|bee export through click's CliRunner (load_from_config, schema validation, written files): whole image "
                  "= API path; the engine programmed from the WRITTEN key-blob table / key-blob file / BEE region headers reads the data back")
    run_cases(s, drv, gen_cli_cases(rng, ck.budget(15, 300)), chunk=6)

    s = ck.stream("iee_ctr_any_addr", "one region in any CTR mode (or XTS) with a page offset: IeeKeyBlob.encrypt_image for the logical "
                  "address p + 4 KiB * page_offset, p ANY 16-byte aligned address (XTS: page aligned), lengths incl. 0/1/15/16/17, counter "
                  "words wrapping at 2^32 inside the data; the region context parsed from the EXPORTED key blob reads it back at p")
    run_cases(s, drv, [gen_ieex_case(rng) for i in range(ck.budget(160, 4000))])


def replay(ck, data):
    """Re-evaluate the recorded failing inputs (they are self-contained case dictionaries); otherwise the full sweep."""
    cases = [c.get("input") for c in data.get("cases", []) if isinstance(c.get("input"), dict) and c["input"].get("k") in EVAL]
    if not cases:
        return run(ck)
    drv = setup(ck)
    s = ck.stream("replay", "recorded failing inputs")
    run_cases(s, drv, cases)
