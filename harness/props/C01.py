"""C01 - Master Boot Image: parse(export(x)) = x and a self-describing header.

Obligations   : Properties/C01.lean over Model/Mbi.lean (interpreter of mixin lists) and the generated
                class table / mixin facts / IVT constants (Generated/MbiClasses.lean, Generated/IvtConsts.lean).
Correspondence: for EVERY row (family, revision, target, authentication) of the live class table: export bytes of the
                real class vs the Lean model (signature field masked), parsed settings vs model parse.
Oracle        : on the real code only: parse(export(x)) gives the same application and settings, re-export of the
                parsed object reproduces every byte outside the signature, the IVT words describe the emitted bytes,
                create_config -> load_from_config round trip on a subset.
The real-code work runs in worker processes (one task per class-table row); the model driver is asked afterwards.
"""
from __future__ import annotations

import json
import os
import random
import struct
import sys
from pathlib import Path

from vcore import Infra, hexs, pyres

REPO = Path(os.environ.get("SPSDK_REPO", "/repo"))
DATA = REPO / "tests" / "nxpimage" / "data"
KC_RSA = DATA / "sb_sources" / "keys_and_certs"
KC_ECC = DATA / "workspace" / "keys_certs"
KC_IMG = REPO / "tests" / "image" / "mbi" / "data" / "keys_and_certs"

RELOC_MARKER = 0x4C54424C

# ---------------------------------------------------------------------------------------------- key material
# RSA certificate-block-v1 variants: (id, [root certs (None = empty slot)], used root index, [chain certs], private key)
RSA_VARIANTS = {
    "r1": ([KC_RSA / "root_k0_signed_cert0_noca.der.cert"], 0, [], KC_RSA / "k0_cert0_2048.pem"),
    "r4u1": ([KC_RSA / f"root_k{i}_signed_cert0_noca.der.cert" for i in range(4)], 1, [], KC_RSA / "k1_cert0_2048.pem"),
    "r4u3": ([KC_RSA / f"root_k{i}_signed_cert0_noca.der.cert" for i in range(4)], 3, [], KC_RSA / "k3_cert0_2048.pem"),
    "r2u0": ([KC_RSA / f"root_k{i}_signed_cert0_noca.der.cert" for i in range(2)], 0, [], KC_RSA / "k0_cert0_2048.pem"),
    "s3072": ([KC_IMG / "selfsign_3072_v3.der.crt"], 0, [], KC_IMG / "private_rsa3072.pem"),
    "s4096": ([KC_IMG / "selfsign_4096_v3.der.crt"], 0, [], KC_IMG / "private_rsa4096.pem"),
    "ch2": ([KC_IMG / "ca0_v3.der.crt"], 0, [KC_IMG / "crt_v3.der.crt"], KC_IMG / "crt_privatekey_rsa2048.pem"),
    "ch3": ([KC_IMG / "ca0_v3.der.crt"], 0, [KC_IMG / "ch3_crt_v3.der.crt", KC_IMG / "ch3_crt2_v3.der.crt"],
            KC_IMG / "crt2_privatekey_rsa2048.pem"),
    "ch3b": ([KC_RSA / "root_k0_signed_cert0_noca.der.cert", KC_RSA / "root_cert_0_ca_v3.der.crt"], 1,
             [KC_RSA / "chain_cert_0_v3.der.crt", KC_RSA / "chain_cert_1_v3.der.crt"], KC_RSA / "chain_cert_1_pkey_rsa4096.pem"),
}
RSA_QUICK = ["r1", "r4u1", "r4u3", "r2u0", "ch2", "ch3", "s3072"]


def _file(p):
    return Path(p).read_bytes()


def make_cert_v1(vid):
    from spsdk.crypto.certificate import Certificate
    from spsdk.crypto.signature_provider import get_signature_provider
    from spsdk.utils.crypto.cert_blocks import CertBlockV1
    roots, used, chain, pk = RSA_VARIANTS[vid]
    cb = CertBlockV1(build_number=1)
    cb.add_certificate(_file(roots[used]))
    for c in chain:
        cb.add_certificate(_file(c))
    for i, r in enumerate(roots):
        if r is not None:
            cb.set_root_key_hash(i, Certificate.parse(_file(r)))
    return cb, get_signature_provider(local_file_key=str(pk))


def make_cert_v21(spec, family):
    """spec = dict(curve=256|384, n=1..4, used=i, isk=None|256|384, udata=hex)"""
    from spsdk.crypto.signature_provider import get_signature_provider
    from spsdk.utils.crypto.cert_blocks import CertBlockV21
    cv = spec["curve"]
    roots = [_file(KC_ECC / f"ec_secp{cv}r1_cert{i}.pem") for i in range(spec["n"])]
    root_sp = get_signature_provider(local_file_key=str(KC_ECC / f"ec_pk_secp{cv}r1_cert{spec['used']}.pem"))
    if spec["isk"]:
        ic = spec["isk"]
        cb = CertBlockV21(root_certs=roots, used_root_cert=spec["used"], ca_flag=False, signature_provider=root_sp,
                          isk_cert=_file(KC_ECC / f"ec_secp{ic}r1_sign_cert.pem"), user_data=bytes.fromhex(spec["udata"]) or None,
                          constraints=spec.get("constraints", 0), family=family)
        sp = get_signature_provider(local_file_key=str(KC_ECC / f"ec_pk_secp{ic}r1_sign_cert.pem"))
    else:
        cb = CertBlockV21(root_certs=roots, used_root_cert=spec["used"], ca_flag=True)
        sp = root_sp
    cb.calculate()
    return cb, sp


# ---------------------------------------------------------------------------------------------- class table (live)
def live_rows():
    """[(family, revision, target, auth, cls_name, image_type, (mixins...), tz_size, fixed_image_type)] in database order."""
    from spsdk.image.mbi import mbi as M
    from spsdk.image.trustzone import TrustZone
    from spsdk.utils.database import DatabaseManager, get_db
    rows = []
    for fam in sorted(M.mbi_get_supported_families()):
        dev = DatabaseManager().db.devices.get(fam)
        for rev in dev.revisions.revision_names():
            db = get_db(fam, rev)
            images = db.get_dict(DatabaseManager.MBI, "images")
            classes = db.get_dict(DatabaseManager.MBI, "mbi_classes")
            try:
                tzs = TrustZone.get_preset_data_size(fam, rev)
            except Exception:  # noqa: BLE001  (families without TrustZone)
                tzs = 0
            fixed = db.get_int(DatabaseManager.MBI, ["fixed_image_type"], -1)
            for tgt in images:
                for auth in images[tgt]:
                    cn = images[tgt][auth]
                    d = classes[cn]
                    rows.append((fam, rev, tgt, auth, cn, int(getattr(M, d["image_type"])[0]), tuple(d["mixins"]), tzs, fixed))
    return rows


# ---------------------------------------------------------------------------------------------- case generation
def _has(mixins, *names):
    return any(("Mbi_Mixin" + n) in mixins or ("Mbi_ExportMixin" + n) in mixins for n in names)


def gen_app(rng, length, marker_tail):
    b = bytearray(rng.getrandbits(8) for _ in range(length))
    # the first three vectors must not be all equal (mix_validate)
    b[0:12] = struct.pack("<3I", 0x20000000 | rng.getrandbits(16), rng.getrandbits(32) | 1, rng.getrandbits(31) & ~1)
    if marker_tail and length >= 0x38 + 16:
        kind = marker_tail
        n = rng.choice([0, 1, 2, 0xFFFFFFFF])
        ptr = rng.choice([0, 0x38, max(0, length - 32), length + 7, 0xFFFFFFF0])
        if kind == "marker":  # exactly what a relocation table header looks like
            b[-16:] = struct.pack("<4I", RELOC_MARKER, 0, n, ptr)
        elif kind == "marker_badver":
            b[-16:] = struct.pack("<4I", RELOC_MARKER, 1, n, ptr)
        elif kind == "marker_shift":  # marker one word late
            b[-12:] = struct.pack("<3I", RELOC_MARKER, 0, n)
    return bytes(b)


LENGTHS = [0x38, 0x39, 0x3A, 0x3B, 0x3C, 0x3D, 0x3E, 0x3F, 0x40, 0x41, 0x48, 0x50, 0x1FF, 0x200, 0x201]


def gen_case(rng, row, draw, thorough=False):
    fam, rev, tgt, auth, cn, itype, mixins, tzs, fixed = row
    c = {"family": fam, "rev": rev, "target": tgt, "auth": auth, "cls": cn}
    vx = _has(mixins, "BcaTable")
    mcxc = _has(mixins, "Bca", "Fcf") and not vx
    # ---- payload length classes
    if draw < len(LENGTHS) and draw % 2 == 0 or rng.random() < 0.35:
        ln = LENGTHS[(draw // 2 + rng.randrange(len(LENGTHS))) % len(LENGTHS)] if draw >= len(LENGTHS) else LENGTHS[draw % len(LENGTHS)]
    else:
        ln = rng.choice([rng.randrange(0x38, 0x400), rng.randrange(0x38, 0x2000), 16 * rng.randrange(4, 200), 512 * rng.randrange(1, 16),
                         512 * rng.randrange(1, 16) + rng.choice([-1, 1, 2, 3])])
    if vx:
        ln = max(ln, 0xC00 + rng.choice([0, 1, 4, 0x40, rng.randrange(0x800)]))
    if mcxc:
        ln = max(ln, 0x410 + rng.choice([0, 1, 4, rng.randrange(0x400)]))
    tail = rng.choice([None, None, None, "marker", "marker", "marker_badver", "marker_shift"])
    c["app"] = gen_app(rng, ln, tail).hex()
    c["tail"] = tail
    if _has(mixins, "LoadAddress", "LoadAddressOptional"):
        c["load"] = rng.choice([0, 0x1000, 0x20001000, 0x08001000, 0xFFFFFFFF, rng.getrandbits(32)])
    if _has(mixins, "ImageVersion"):
        c["ver"] = rng.choice([0, 0, 1, 0x10, 0xFF, 0xFFFF, rng.getrandbits(16)])
    if _has(mixins, "ImageSubType"):
        c["sub"] = rng.choice([0, 1, 0, 1, 2, 3])
    if _has(mixins, "FwVersion", "ManifestCrc", "ManifestDigest", "BcaObsolete"):
        c["fw"] = rng.choice([0, 1, 0x1234, 0xFFFFFFFF, rng.getrandbits(32)])
    if _has(mixins, "TrustZone", "TrustZoneMandatory", "ManifestCrc", "ManifestDigest"):
        mand = not _has(mixins, "TrustZone")
        kind = rng.choice(["e", "c", "c"] if mand else ["d", "e", "c", "c"])
        if kind == "c" and tzs:
            words = [rng.choice([0, 0xFFFFFFFF, rng.getrandbits(32)]) for _ in range(tzs // 4)]
            c["tz"] = ["c", struct.pack(f"<{tzs // 4}I", *words).hex()]
        else:
            c["tz"] = [kind if kind != "c" else "e", ""]
    if _has(mixins, "HwKey"):
        c["hwk"] = rng.random() < 0.5
    if _has(mixins, "HmacMandatory", "Hmac"):
        c["hkey"] = bytes(rng.getrandbits(8) for _ in range(32)).hex()
    if _has(mixins, "KeyStore"):
        k = rng.choice(["none", "ks", "ks", "otp"])
        c["ks"] = [k, bytes(rng.getrandbits(8) for _ in range(1424)).hex() if k == "ks" else ""]
    if _has(mixins, "CtrInitVector"):
        c["iv"] = rng.choice([bytes(rng.getrandbits(8) for _ in range(16)), bytes(rng.getrandbits(8) for _ in range(12)) + b"\xff\xff\xff\xff",
                              b"\xff" * 16, bytes(15) + b"\x01"]).hex()
    if _has(mixins, "RelocTable") and rng.random() < 0.6:
        n = rng.choice([1, 1, 2, 3, 4])
        c["reloc"] = [[bytes(rng.getrandbits(8) for _ in range(rng.choice([0, 1, 3, 4, 5, 16, 17, rng.randrange(1, 300)]))).hex(),
                       rng.choice([0, 0x20001000, 0xFFFFFFFF, rng.getrandbits(32)])] for _ in range(n)]
    if _has(mixins, "CertBlockV1"):
        pool = list(RSA_VARIANTS) if thorough else RSA_QUICK
        c["cert"] = {"kind": "v1", "id": pool[(draw + rng.randrange(len(pool))) % len(pool)] if draw >= len(pool) else pool[draw % len(pool)]}
    if _has(mixins, "CertBlockV21"):
        curve = rng.choice([256, 384])
        n = rng.choice([1, 2, 3, 4])
        isk = rng.choice([None, 256, 384]) if curve == 384 else rng.choice([None, 256])
        ud = b""
        if isk and rng.random() < 0.5:
            ud = bytes(rng.getrandbits(8) for _ in range(rng.choice([4, 16, 32, 48, 96])))
        c["cert"] = {"kind": "v21", "curve": curve, "n": n, "used": rng.randrange(n), "isk": isk, "udata": ud.hex()}
        if _has(mixins, "ManifestDigest"):
            c["digest"] = rng.choice([None, "auto", "auto", "sha256", "sha384", "sha512"])
    if vx:
        c["lifecycle"] = rng.choice([0xFF, 0xFE, 0x90, 0x95, 0x9B, 0x6B])
        if _has(mixins, "CertBlockVx"):
            c["cert"] = {"kind": "vx"}
            c["add_hash"] = rng.random() < 0.7
            c["just_header"] = rng.random() < 0.2
    return c


# ---------------------------------------------------------------------------------------------- building real objects
def _tz(case):
    from spsdk.image.trustzone import TrustZone
    kind, data = case["tz"]
    if kind == "d":
        return TrustZone.disabled()
    if kind == "e":
        return TrustZone.enabled()
    return TrustZone.from_binary(family=case["family"], raw_data=bytes.fromhex(data), revision=case["rev"])


def build(case, row):
    """Real MBI object for a case (constructed through the class' keyword interface, as the unit tests do)."""
    from spsdk.image.keystore import KeySourceType, KeyStore
    from spsdk.image.mbi import mbi as M
    from spsdk.image.mbi.mbi_classes import (MasterBootImageManifestCrc, MasterBootImageManifestDigest, MultipleImageEntry,
                                             MultipleImageTable)
    from spsdk.crypto.hash import EnumHashAlgorithm
    from spsdk.crypto.utils import get_hash_type_from_signature_size
    mixins = row[6]
    cls = M.create_mbi_class(case["cls"], case["family"], case["rev"])
    kw = {"family": case["family"], "revision": case["rev"], "app": bytes.fromhex(case["app"])}
    if "load" in case:
        kw["load_address"] = case["load"]
    if "ver" in case:
        kw["image_version"] = case["ver"]
    if "sub" in case:
        kw["image_subtype"] = case["sub"]
    if "tz" in case:
        kw["trust_zone"] = _tz(case)
    if "hwk" in case:
        kw["user_hw_key_enabled"] = case["hwk"]
    if "hkey" in case:
        kw["hmac_key"] = bytes.fromhex(case["hkey"])
    if "ks" in case:
        k, d = case["ks"]
        kw["key_store"] = None if k == "none" else KeyStore(KeySourceType.KEYSTORE, bytes.fromhex(d)) if k == "ks" else KeyStore(KeySourceType.OTP)
    if "iv" in case:
        kw["ctr_init_vector"] = bytes.fromhex(case["iv"])
    if "reloc" in case:
        t = MultipleImageTable()
        for img, dst in case["reloc"]:
            t.add_entry(MultipleImageEntry(bytes.fromhex(img), dst))
        kw["app_table"] = t
    sp = None
    if "cert" in case:
        ct = case["cert"]
        if ct["kind"] == "v1":
            kw["cert_block"], sp = make_cert_v1(ct["id"])
        elif ct["kind"] == "v21":
            kw["cert_block"], sp = make_cert_v21(ct, case["family"])
        else:
            from spsdk.crypto.signature_provider import get_signature_provider
            from spsdk.utils.crypto.cert_blocks import CertBlockVx
            root_sp = get_signature_provider(local_file_key=str(KC_ECC / "ec_pk_secp256r1_cert0.pem"))
            kw["cert_block"] = CertBlockVx(isk_cert=_file(KC_ECC / "ec_secp256r1_sign_cert.pem"), signature_provider=root_sp, self_signed=True)
            sp = get_signature_provider(local_file_key=str(KC_ECC / "ec_pk_secp256r1_sign_cert.pem"))
            kw["add_hash"] = case["add_hash"]
            kw["just_header"] = case["just_header"]
        kw["signature_provider"] = sp
    if "fw" in case:
        kw["firmware_version"] = case["fw"]
    if _has(mixins, "ManifestCrc"):
        kw["manifest"] = MasterBootImageManifestCrc(case["fw"], kw["trust_zone"])
    if _has(mixins, "ManifestDigest"):
        dg = case.get("digest")
        algo = None
        if dg == "auto":
            algo = get_hash_type_from_signature_size(kw["cert_block"].signature_size)
        elif dg:
            algo = EnumHashAlgorithm.from_label(dg)
        kw["manifest"] = MasterBootImageManifestDigest(case["fw"], kw["trust_zone"], digest_hash_algo=algo)
    if "lifecycle" in case:
        kw["lifecycle"] = case["lifecycle"]
    obj = cls(**kw)
    if _has(mixins, "Bca") and not _has(mixins, "BcaTable"):
        # as mix_load_from_config does without explicit bca/fcf configuration: take them from the application
        from spsdk.image.mbi import mbi_mixin as MM
        MM.Mbi_MixinBca.mix_parse(obj, obj.app)
        MM.Mbi_MixinFcf.mix_parse(obj, obj.app)
    return obj, sp


# ---------------------------------------------------------------------------------------------- observations
def settings_of(obj, mixins):
    """Canonical, comparable settings of a real MBI object (only what the property names)."""
    from spsdk.image.keystore import KeySourceType
    from spsdk.image.trustzone import TrustZoneType
    s = {}
    s["app"] = bytes(obj.app).hex() if getattr(obj, "app", None) is not None else None
    if hasattr(obj, "load_address"):
        s["load"] = obj.load_address
    if hasattr(obj, "image_version"):
        s["ver"] = obj.image_version
    if hasattr(obj, "image_subtype"):
        s["sub"] = obj.image_subtype
    if hasattr(obj, "trust_zone"):
        tz = obj.trust_zone
        s["tz"] = [{TrustZoneType.DISABLED: "d", TrustZoneType.ENABLED: "e", TrustZoneType.CUSTOM: "c"}[tz.type], tz.export().hex()]
    if hasattr(obj, "user_hw_key_enabled"):
        s["hwk"] = bool(obj.user_hw_key_enabled)
    if hasattr(obj, "key_store"):
        ks = obj.key_store
        # an absent key store and an OTP key source are the same on the wire: no key store bytes
        s["ks"] = ks.export().hex() if ks is not None and ks.key_source == KeySourceType.KEYSTORE else ""
    if _has(mixins, "CtrInitVector"):
        s["iv"] = bytes(obj.ctr_init_vector).hex()
    if hasattr(obj, "app_table"):
        t = obj.app_table
        s["reloc"] = [[bytes(e.image).hex(), e.dst_addr, e.flags] for e in t.entries] if t else None
    if _has(mixins, "FwVersion", "ManifestCrc", "ManifestDigest", "BcaObsolete"):
        s["fw"] = getattr(obj, "firmware_version", None)
    if _has(mixins, "ManifestDigest"):
        m = obj.manifest
        s["digest"] = m.digest_hash_algo.label if m is not None and m.digest_hash_algo else None
    if _has(mixins, "FcfObsolete"):
        s["lifecycle"] = getattr(obj, "lifecycle", None)
    return s


def expected_settings(case, obj, mixins):
    """What parse(export(x)) has to give back, derived from the *input* case (not from the model)."""
    s = {}
    app = bytes.fromhex(case["app"])
    app += bytes(-len(app) % 4)
    if _has(mixins, "Ivt", "IvtZeroTotalLength"):
        b = bytearray(app)
        for off in (0x20, 0x24, 0x28, 0x34):
            b[off:off + 4] = bytes(4)
        app = bytes(b)
    s["app"] = app.hex()
    for k in ("load", "ver", "sub", "hwk", "fw"):
        if k in case:
            s[k] = case[k]
    if "sub" in case:
        s["sub"] = case["sub"]
    if "tz" in case:
        s["tz"] = [case["tz"][0], case["tz"][1] if case["tz"][0] == "c" else ""]
    if "ks" in case:
        s["ks"] = case["ks"][1] if case["ks"][0] == "ks" else ""
    if "iv" in case:
        s["iv"] = case["iv"]
    if _has(mixins, "RelocTable"):
        s["reloc"] = [[img, dst, 1] for img, dst in case["reloc"]] if "reloc" in case else None
    if _has(mixins, "ManifestDigest"):
        s["digest"] = obj.manifest.digest_hash_algo.label if obj.manifest.digest_hash_algo else None
    if "lifecycle" in case:
        s["lifecycle"] = case["lifecycle"]
    return s


def sig_range(obj, data, mixins):
    """[start, end) of the signature field inside the exported bytes, derived from the real object (None = no signature)."""
    if _has(mixins, "RsaSign"):
        n = obj.cert_block.signature_size
        return (len(data) - n, len(data))
    if _has(mixins, "EccSign"):
        n = obj.cert_block.signature_size
        dg = 0
        m = getattr(obj, "manifest", None)
        if m is not None and getattr(m, "digest_hash_algo", None):
            dg = m.get_hash_size(m.digest_hash_algo)
        return (len(data) - dg - n, len(data) - dg)
    return None


def isk_sig_range(obj, data, mixins):
    """ISK signature inside a v2.1 certificate block is an ECDSA signature too (random by design)."""
    cb = getattr(obj, "cert_block", None)
    isk = getattr(cb, "isk_certificate", None) if cb is not None else None
    if _has(mixins, "CertBlockV21") and isk is not None:
        off = struct.unpack_from("<I", data, 0x28)[0]
        start = off + cb.expected_size - len(isk.signature)
        return (start, start + len(isk.signature))
    return None


def mask(data, *ranges):
    b = bytearray(data)
    for r in ranges:
        if r:
            b[r[0]:r[1]] = bytes(r[1] - r[0])
    return bytes(b)


# ---------------------------------------------------------------------------------------------- independent references
_CRC_TABLE = None


def crc32_mpeg2(data: bytes) -> int:
    """CRC-32/MPEG-2 (poly 0x04C11DB7, init 0xFFFFFFFF, no reflection, no final xor) - independent of spsdk/crcmod."""
    global _CRC_TABLE
    if _CRC_TABLE is None:
        t = []
        for i in range(256):
            c = i << 24
            for _ in range(8):
                c = ((c << 1) ^ 0x04C11DB7) & 0xFFFFFFFF if c & 0x80000000 else (c << 1) & 0xFFFFFFFF
            t.append(c)
        _CRC_TABLE = t
    crc = 0xFFFFFFFF
    t = _CRC_TABLE
    for b in data:
        crc = ((crc << 8) & 0xFFFFFFFF) ^ t[((crc >> 24) ^ b) & 0xFF]
    return crc


def expected_flags(case, itype):
    """IVT flags word from the input settings, written from the format description (not from create_flags)."""
    f = itype
    if "tz" in case:
        f |= {"e": 0, "c": 1, "d": 2}[case["tz"][0]] << 13
    if "sub" in case:
        f |= case["sub"] << 6
    if case.get("hwk"):
        f |= 0x1000
    if "ks" in case and case["ks"][0] == "ks":
        f |= 0x8000
    if "reloc" in case:
        f |= 0x800
    if case.get("ver"):
        f |= 0x400 | (case["ver"] << 16)
    return f


def eval_case(case, row):
    """Everything that needs the real code for one case.  Returns (obs, fails); runs inside a worker process."""
    from spsdk.image.mbi.mbi import MasterBootImage
    fam, rev, tgt, auth, cn, itype, mixins, tzs, fixed = row
    fails = []
    obs = {}

    def fail(what, observed=None, expected=None, tag=None):
        fails.append({"what": what, "observed": observed, "expected": expected, "tag": tag})

    r = pyres(build, case, row)
    if r[0] != "ok":
        fail("generated option set could not be constructed (harness or constructor problem)", r)
        return obs, fails
    obj, sp = r[1]
    r = pyres(obj.export)
    obs["export"] = r[1].hex() if r[0] == "ok" else r[0]
    if r[0] != "ok":
        fail("export of an accepted option set raised", r)
        return obs, fails
    e = bytes(r[1])
    sr = sig_range(obj, e, mixins)
    ir = isk_sig_range(obj, e, mixins)
    obs["sig"] = sr
    obs["isk_sig"] = ir
    has_ivt = _has(mixins, "Ivt", "IvtZeroTotalLength")
    hk_ins = 0
    if _has(mixins, "HmacKeyStoreFinalize"):
        hk_ins = 32 + (1424 if case.get("ks", ["none"])[0] == "ks" else 0)
    obs["cert_in"] = None
    if "cert" in case and case["cert"]["kind"] in ("v1", "v21"):
        obs["cert_size"] = obj.cert_block.expected_size
        obs["sig_size"] = obj.cert_block.signature_size
    # ---------------- header words describe the emitted bytes
    if has_ivt:
        w20, w24, w28 = struct.unpack_from("<3I", e, 0x20)
        w34 = struct.unpack_from("<I", e, 0x34)[0]
        exp_len = 0 if _has(mixins, "IvtZeroTotalLength") else len(e)
        if w20 != exp_len:
            fail("IVT total-length word does not describe the emitted bytes", w20, exp_len)
        ef = expected_flags(case, itype)
        if w24 != ef:
            fail("IVT image-type/flags word does not describe the settings", hex(w24), hex(ef))
        if w34 != case.get("load", 0):
            fail("IVT load-address word differs from the load address", w34, case.get("load", 0))
        if itype == 0:
            if w28 != 0:
                fail("IVT CRC/cert-offset word of a plain image is not 0", w28, 0)
        elif _has(mixins, "CrcSign"):
            ec = crc32_mpeg2(e[:0x28] + e[0x2C:])
            if w28 != ec:
                fail("IVT CRC word is not the CRC-32/MPEG-2 of the image without that word", hex(w28), hex(ec))
        elif "cert" in case:
            magic = b"cert" if case["cert"]["kind"] == "v1" else b"chdr"
            pos = w28 + (hk_ins if w28 >= 64 else 0)
            if e[pos:pos + 4] != magic:
                fail("IVT certificate-block offset does not point at the certificate block", [w28, e[pos:pos + 4].hex()], magic.hex())
            applen = len(bytes.fromhex(case["app"])) + (-len(bytes.fromhex(case["app"])) % 4)
            if "reloc" in case:
                applen += sum(len(bytes.fromhex(i)) + (-len(bytes.fromhex(i)) % 4) for i, _ in case["reloc"]) + 16 * len(case["reloc"]) + 16
            if w28 != applen:
                fail("IVT certificate-block offset is not the length of application (+ relocation table)", w28, applen)
    # ---------------- parse(export(x)) = x
    dek = case.get("hkey")
    r = pyres(MasterBootImage.parse, fam, e, dek, rev)
    if r[0] != "ok":
        obs["parse"] = r[0]
        fail("parse of an exported image raised", r)
        return obs, fails
    p = r[1]
    obs["parsed_cls"] = type(p).__name__
    pm = mixins
    if type(p).__name__ != cn:
        # the image type alone selects the class; another row of this family shares the type
        pm = tuple(b.__name__ for b in type(p).__bases__[1:])
        obs["parsed_mixins"] = list(pm)
    got = pyres(settings_of, p, pm)
    if got[0] != "ok":
        fail("parsed object is incomplete (reading its settings raised)", got)
        return obs, fails
    got = got[1]
    exp = expected_settings(case, obj, mixins)
    obs["parsed"] = got
    for k, v in exp.items():
        if k not in got:
            if v in (0, False, None, "", ["d", ""]):
                continue
            fail(f"setting '{k}' is not recovered by parse (the class chosen by the parser has no such member)", None, v, tag="ambiguous-class")
        elif got[k] != v:
            fail(f"parse(export(x)) differs from x in '{k}'", got[k] if k != "app" else _short(got[k]), v if k != "app" else _short(v),
                 tag="ambiguous-class" if type(p).__name__ != cn else None)
    # ---------------- re-export of the parsed object reproduces every byte outside the signature
    if sp is not None and hasattr(p, "signature_provider"):
        p.signature_provider = sp
    if _has(mixins, "CertBlockVx"):
        p.add_hash = case["add_hash"]
        p.just_header = case["just_header"]
        p.cert_block.signature_provider = obj.cert_block.signature_provider
    r = pyres(p.export)
    if r[0] != "ok":
        obs["reexport"] = r[0]
        fail("re-export of the parsed image raised", r, tag="ambiguous-class" if type(p).__name__ != cn else None)
    else:
        e2 = bytes(r[1])
        a, b = mask(e, sr, ir), mask(e2, sr, ir) if len(e2) == len(e) else e2
        obs["reexport"] = "same" if a == b else "diff"
        if a != b:
            d = next((i for i in range(min(len(a), len(b))) if a[i] != b[i]), min(len(a), len(b)))
            fail("re-export of the parsed image differs outside the signature field", {"len": len(e2), "first_diff": d},
                 {"len": len(e)}, tag="ambiguous-class" if type(p).__name__ != cn else None)
    return obs, fails


def _short(h):
    return h if len(h) <= 160 else {"len": len(h) // 2, "head": h[:64], "tail": h[-64:]}
