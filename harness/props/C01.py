"""C01 - Master Boot Image: parse(export(x)) = x and a self-describing header.

Obligations   : Properties/C01.lean over Model/Mbi.lean (interpreter of mixin lists) and the generated
                class table / mixin facts / IVT constants (Generated/MbiClasses.lean, Generated/IvtConsts.lean).
Correspondence: for EVERY row (family, revision, target, authentication) of the live class table: export bytes of the
                real class vs the Lean model (signature field masked), parsed settings vs model parse.
Oracle        : on the real code only: parse(export(x)) gives the same application and settings, re-export of the
                parsed object reproduces every byte outside the signature, the IVT words describe the emitted bytes,
                create_config -> load_from_config round trip on a subset.
The real-code work runs in worker processes (one task per class-table row); the model driver is asked afterwards.
"""
from __future__ import annotations

import json
import os
import random
import struct
import sys
from pathlib import Path

from vcore import Infra, hexs, pyres

REPO = Path(os.environ.get("SPSDK_REPO", "/repo"))
DATA = REPO / "tests" / "nxpimage" / "data"
KC_RSA = DATA / "sb_sources" / "keys_and_certs"
KC_ECC = DATA / "workspace" / "keys_certs"
KC_IMG = REPO / "tests" / "image" / "mbi" / "data" / "keys_and_certs"

RELOC_MARKER = 0x4C54424C

# ---------------------------------------------------------------------------------------------- key material
# RSA certificate-block-v1 variants: (id, [root certs (None = empty slot)], used root index, [chain certs], private key)
RSA_VARIANTS = {
    "r1": ([KC_RSA / "root_k0_signed_cert0_noca.der.cert"], 0, [], KC_RSA / "k0_cert0_2048.pem"),
    "r4u1": ([KC_RSA / f"root_k{i}_signed_cert0_noca.der.cert" for i in range(4)], 1, [], KC_RSA / "k1_cert0_2048.pem"),
    "r4u3": ([KC_RSA / f"root_k{i}_signed_cert0_noca.der.cert" for i in range(4)], 3, [], KC_RSA / "k3_cert0_2048.pem"),
    "r2u0": ([KC_RSA / f"root_k{i}_signed_cert0_noca.der.cert" for i in range(2)], 0, [], KC_RSA / "k0_cert0_2048.pem"),
    "s3072": ([KC_IMG / "selfsign_3072_v3.der.crt"], 0, [], KC_IMG / "private_rsa3072.pem"),
    "s4096": ([KC_IMG / "selfsign_4096_v3.der.crt"], 0, [], KC_IMG / "private_rsa4096.pem"),
    "ch2": ([KC_IMG / "ca0_v3.der.crt"], 0, [KC_IMG / "crt_v3.der.crt"], KC_IMG / "crt_privatekey_rsa2048.pem"),
    "ch3": ([KC_IMG / "ca0_v3.der.crt"], 0, [KC_IMG / "ch3_crt_v3.der.crt", KC_IMG / "ch3_crt2_v3.der.crt"],
            KC_IMG / "crt2_privatekey_rsa2048.pem"),
    "ch3b": ([KC_RSA / "root_k0_signed_cert0_noca.der.cert", KC_RSA / "root_cert_0_ca_v3.der.crt"], 1,
             [KC_RSA / "chain_cert_0_v3.der.crt", KC_RSA / "chain_cert_1_v3.der.crt"], KC_RSA / "chain_cert_1_pkey_rsa4096.pem"),
}
RSA_QUICK = ["r1", "r4u1", "r4u3", "r2u0", "ch2", "ch3", "s3072"]


def _file(p):
    return Path(p).read_bytes()


def make_cert_v1(vid):
    from spsdk.crypto.certificate import Certificate
    from spsdk.crypto.signature_provider import get_signature_provider
    from spsdk.utils.crypto.cert_blocks import CertBlockV1
    roots, used, chain, pk = RSA_VARIANTS[vid]
    cb = CertBlockV1(build_number=1)
    cb.add_certificate(_file(roots[used]))
    for c in chain:
        cb.add_certificate(_file(c))
    for i, r in enumerate(roots):
        if r is not None:
            cb.set_root_key_hash(i, Certificate.parse(_file(r)))
    return cb, get_signature_provider(local_file_key=str(pk))


def make_cert_v21(spec, family):
    """spec = dict(curve=256|384, n=1..4, used=i, isk=None|256|384, udata=hex)"""
    from spsdk.crypto.signature_provider import get_signature_provider
    from spsdk.utils.crypto.cert_blocks import CertBlockV21
    cv = spec["curve"]
    roots = [_file(KC_ECC / f"ec_secp{cv}r1_cert{i}.pem") for i in range(spec["n"])]
    root_sp = get_signature_provider(local_file_key=str(KC_ECC / f"ec_pk_secp{cv}r1_cert{spec['used']}.pem"))
    if spec["isk"]:
        ic = spec["isk"]
        cb = CertBlockV21(root_certs=roots, used_root_cert=spec["used"], ca_flag=False, signature_provider=root_sp,
                          isk_cert=_file(KC_ECC / f"ec_secp{ic}r1_sign_cert.pem"), user_data=bytes.fromhex(spec["udata"]) or None,
                          constraints=spec.get("constraints", 0), family=family)
        sp = get_signature_provider(local_file_key=str(KC_ECC / f"ec_pk_secp{ic}r1_sign_cert.pem"))
    else:
        cb = CertBlockV21(root_certs=roots, used_root_cert=spec["used"], ca_flag=True)
        sp = root_sp
    cb.calculate()
    return cb, sp


# ---------------------------------------------------------------------------------------------- class table (live)
def live_rows():
    """[(family, revision, target, auth, cls_name, image_type, (mixins...), tz_size, fixed_image_type)] in database order."""
    from spsdk.image.mbi import mbi as M
    from spsdk.image.trustzone import TrustZone
    from spsdk.utils.database import DatabaseManager, get_db
    rows = []
    for fam in sorted(M.mbi_get_supported_families()):
        dev = DatabaseManager().db.devices.get(fam)
        for rev in dev.revisions.revision_names():
            db = get_db(fam, rev)
            images = db.get_dict(DatabaseManager.MBI, "images")
            classes = db.get_dict(DatabaseManager.MBI, "mbi_classes")
            try:
                tzs = TrustZone.get_preset_data_size(fam, rev)
            except Exception:  # noqa: BLE001  (families without TrustZone)
                tzs = 0
            fixed = db.get_int(DatabaseManager.MBI, ["fixed_image_type"], -1)
            for tgt in images:
                for auth in images[tgt]:
                    cn = images[tgt][auth]
                    d = classes[cn]
                    rows.append((fam, rev, tgt, auth, cn, int(getattr(M, d["image_type"])[0]), tuple(d["mixins"]), tzs, fixed))
    return rows


# ---------------------------------------------------------------------------------------------- case generation
def _has(mixins, *names):
    return any(("Mbi_Mixin" + n) in mixins or ("Mbi_ExportMixin" + n) in mixins for n in names)


def gen_app(rng, length, marker_tail):
    b = bytearray(rng.getrandbits(8) for _ in range(length))
    # the first three vectors must not be all equal (mix_validate)
    b[0:12] = struct.pack("<3I", 0x20000000 | rng.getrandbits(16), rng.getrandbits(32) | 1, rng.getrandbits(31) & ~1)
    if marker_tail and length >= 0x38 + 16:
        kind = marker_tail
        n = rng.choice([0, 1, 2, 0xFFFFFFFF])
        ptr = rng.choice([0, 0x38, max(0, length - 32), length + 7, 0xFFFFFFF0])
        if kind == "marker":  # exactly what a relocation table header looks like
            b[-16:] = struct.pack("<4I", RELOC_MARKER, 0, n, ptr)
        elif kind == "marker_badver":
            b[-16:] = struct.pack("<4I", RELOC_MARKER, 1, n, ptr)
        elif kind == "marker_shift":  # marker one word late
            b[-12:] = struct.pack("<3I", RELOC_MARKER, 0, n)
    return bytes(b)


def _canon_bca_fcf(app, fam, rev, rng):
    """mcxc: the payload contains a boot configuration area (optional, tag 'kcfg') and a flash configuration field; put
    both into the normal form of their own register codecs (their round trip is property C12, not C01)."""
    from spsdk.image.bca.bca import BCA
    from spsdk.image.fcf.fcf import FCF
    b = bytearray(app)
    if rng.random() < 0.6:
        b[0x3C0:0x3C4] = b"kcfg"
        b[0x3C0:0x400] = BCA.parse(bytes(b[0x3C0:0x400]), family=fam, revision=rev).export()
    elif bytes(b[0x3C0:0x3C4]) == b"kcfg":
        b[0x3C0] ^= 1
    b[0x400:0x410] = FCF.parse(bytes(b[0x400:0x410]), family=fam, revision=rev).export()
    return bytes(b)


LENGTHS = [0x38, 0x39, 0x3A, 0x3B, 0x3C, 0x3D, 0x3E, 0x3F, 0x40, 0x41, 0x48, 0x50, 0x1FF, 0x200, 0x201]


def force_reloc(rng, c):
    """a relocation table of 1-4 entries (zero-length entries, unaligned sizes) for the case `c`"""
    n = rng.choice([1, 1, 2, 3, 4])
    # distinct destination addresses (create_config names the extracted images after them)
    dsts = rng.sample([0, 0x20001000, 0xFFFFFFFF, rng.getrandbits(32), rng.getrandbits(32), rng.getrandbits(31), 4 * rng.getrandbits(20)], n)
    c["reloc"] = [[bytes(rng.getrandbits(8) for _ in range(rng.choice([0, 1, 3, 4, 5, 16, 17, rng.randrange(1, 300)]))).hex(), d] for d in dsts]


def gen_case(rng, row, draw, thorough=False):
    fam, rev, tgt, auth, cn, itype, mixins, tzs, fixed = row
    c = {"family": fam, "rev": rev, "target": tgt, "auth": auth, "cls": cn}
    vx = _has(mixins, "BcaTable")
    mcxc = _has(mixins, "Bca", "Fcf") and not vx
    # ---- payload length classes
    if draw < len(LENGTHS) and draw % 2 == 0 or rng.random() < 0.35:
        ln = LENGTHS[(draw // 2 + rng.randrange(len(LENGTHS))) % len(LENGTHS)] if draw >= len(LENGTHS) else LENGTHS[draw % len(LENGTHS)]
    else:
        ln = rng.choice([rng.randrange(0x38, 0x400), rng.randrange(0x38, 0x2000), 16 * rng.randrange(4, 200), 512 * rng.randrange(1, 16),
                         512 * rng.randrange(1, 16) + rng.choice([-1, 1, 2, 3])])
    if vx:
        ln = max(ln, 0xC00 + rng.choice([0, 1, 4, 0x40, rng.randrange(0x800)]))
    if mcxc:
        ln = max(ln, 0x410 + rng.choice([0, 1, 4, rng.randrange(0x400)]))
    tail = rng.choice([None, None, None, "marker", "marker", "marker_badver", "marker_shift"])
    app = gen_app(rng, ln, tail)
    if vx:
        # the application of these devices carries its own flash configuration field: its life-cycle byte is an enum
        b = bytearray(app)
        b[0x40C] = rng.choice([0xFF, 0xFE, 0x90, 0x95, 0x9B, 0x6B])
        app = bytes(b)
    if mcxc:
        app = _canon_bca_fcf(app, fam, rev, rng)
    c["app"] = app.hex()
    c["tail"] = tail
    if _has(mixins, "LoadAddress", "LoadAddressOptional"):
        c["load"] = rng.choice([0, 0x1000, 0x20001000, 0x08001000, 0xFFFFFFFF, rng.getrandbits(32)])
    if _has(mixins, "ImageVersion"):
        c["ver"] = rng.choice([0, 0, 1, 0x10, 0xFF, 0xFFFF, rng.getrandbits(16)])
    if _has(mixins, "ImageSubType"):
        c["sub"] = rng.choice([0, 1, 0, 1, 2, 3])
    if _has(mixins, "FwVersion", "ManifestCrc", "ManifestDigest", "BcaObsolete"):
        c["fw"] = rng.choice([0, 1, 0x1234, 0xFFFFFFFF, rng.getrandbits(32)])
    if _has(mixins, "TrustZone", "TrustZoneMandatory", "ManifestCrc", "ManifestDigest"):
        mand = not _has(mixins, "TrustZone")
        kind = rng.choice(["e", "c", "c"] if mand else ["d", "e", "c", "c"])
        if kind == "c" and tzs:
            words = [rng.choice([0, 0xFFFFFFFF, rng.getrandbits(32)]) for _ in range(tzs // 4)]
            c["tz"] = ["c", struct.pack(f"<{tzs // 4}I", *words).hex()]
        else:
            c["tz"] = [kind if kind != "c" else "e", ""]
    if _has(mixins, "HwKey"):
        c["hwk"] = rng.random() < 0.5
    if _has(mixins, "HmacMandatory", "Hmac"):
        c["hkey"] = bytes(rng.getrandbits(8) for _ in range(32)).hex()
    if _has(mixins, "KeyStore"):
        # "ks_empty": key source KEYSTORE without key store data (the device's own key store holds the keys)
        k = rng.choice(["none", "ks", "ks", "ks", "otp", "otp", "ks_empty"])
        c["ks"] = [k, bytes(rng.getrandbits(8) for _ in range(1424)).hex() if k == "ks" else ""]
    if _has(mixins, "CtrInitVector"):
        c["iv"] = rng.choice([bytes(rng.getrandbits(8) for _ in range(16)), bytes(rng.getrandbits(8) for _ in range(12)) + b"\xff\xff\xff\xff",
                              b"\xff" * 16, bytes(15) + b"\x01"]).hex()
    if _has(mixins, "RelocTable") and (rng.random() < 0.6 or (draw == 0 and _has(mixins, "AppTrustZoneCertBlockEncrypt"))):
        # (encrypted rows: ALWAYS a relocation table on the first draw - post_encrypt's slice bound `image_bytes[HMAC_OFFSET:app_len]`)
        force_reloc(rng, c)
    if _has(mixins, "CertBlockV1"):
        pool = list(RSA_VARIANTS) if thorough else RSA_QUICK
        c["cert"] = {"kind": "v1", "id": pool[(draw + rng.randrange(len(pool))) % len(pool)]}
    if _has(mixins, "CertBlockV21"):
        curve = rng.choice([256, 384])
        n = rng.choice([1, 2, 3, 4])
        isk = rng.choice([None, 256, 384]) if curve == 384 else rng.choice([None, 256])
        ud = b""
        if isk and rng.random() < 0.5:
            ud = bytes(rng.getrandbits(8) for _ in range(rng.choice([4, 16, 32, 48, 96])))
        c["cert"] = {"kind": "v21", "curve": curve, "n": n, "used": rng.randrange(n), "isk": isk, "udata": ud.hex()}
        if _has(mixins, "ManifestDigest"):
            c["digest"] = rng.choice([None, "auto", "auto", "sha256", "sha384", "sha512"])
    if vx:
        c["lifecycle"] = rng.choice([0xFF, 0xFE, 0x90, 0x95, 0x9B, 0x6B])
        if _has(mixins, "CertBlockVx"):
            c["cert"] = {"kind": "vx"}
            c["add_hash"] = rng.random() < 0.7
            c["just_header"] = rng.random() < 0.2
    # configuration round trip: sub types 2/3 have no label; an explicitly chosen digest algorithm that does not match the
    # signing key ("image won't boot" is logged) is not kept by the configuration
    c["malformed"] = rng.getrandbits(32) if draw == 1 else 0
    c["cfg_rt"] = draw == 0 and c.get("sub", 0) in (0, 1) and c.get("digest") in (None, "auto")
    # configuration path forward (config -> image): every spelling of the TrustZone keys
    #   enableTrustZone {absent, true, false} x trustZonePresetFile {absent, "", a real binary preset file}
    if (draw == 2 or (thorough and draw % 5 == 2)) and _has(mixins, "Ivt", "IvtZeroTotalLength"):
        fw = {}
        if "tz" in c and tzs:
            words = [rng.choice([0, 0xFFFFFFFF, rng.getrandbits(32)]) for _ in range(tzs // 4)]
            fw["tz"] = {"en": rng.choice("atf"), "pf": rng.choice("aeff"), "data": struct.pack(f"<{tzs // 4}I", *words).hex()}
        fw["omit_defaults"] = rng.random() < 0.5      # optional keys whose value is the documented default are left out
        c["cfg_fw"] = fw
    return c


# ---------------------------------------------------------------------------------------------- building real objects
def _tz(case):
    from spsdk.image.trustzone import TrustZone
    kind, data = case["tz"]
    if kind == "d":
        return TrustZone.disabled()
    if kind == "e":
        return TrustZone.enabled()
    return TrustZone.from_binary(family=case["family"], raw_data=bytes.fromhex(data), revision=case["rev"])


def build(case, row):
    """Real MBI object for a case (constructed through the class' keyword interface, as the unit tests do)."""
    from spsdk.image.keystore import KeySourceType, KeyStore
    from spsdk.image.mbi import mbi as M
    from spsdk.image.mbi.mbi_classes import (MasterBootImageManifestCrc, MasterBootImageManifestDigest, MultipleImageEntry,
                                             MultipleImageTable)
    from spsdk.crypto.hash import EnumHashAlgorithm
    from spsdk.crypto.utils import get_hash_type_from_signature_size
    mixins = row[6]
    cls = M.create_mbi_class(case["cls"], case["family"], case["rev"])
    kw = {"family": case["family"], "revision": case["rev"], "app": bytes.fromhex(case["app"])}
    if "load" in case:
        kw["load_address"] = case["load"]
    if "ver" in case:
        kw["image_version"] = case["ver"]
    if "sub" in case:
        kw["image_subtype"] = case["sub"]
    if "tz" in case:
        kw["trust_zone"] = _tz(case)
    if "hwk" in case:
        kw["user_hw_key_enabled"] = case["hwk"]
    if "hkey" in case:
        kw["hmac_key"] = bytes.fromhex(case["hkey"])
    if "ks" in case:
        k, d = case["ks"]
        kw["key_store"] = None if k == "none" else KeyStore(KeySourceType.KEYSTORE, bytes.fromhex(d)) if k == "ks" else \
            KeyStore(KeySourceType.KEYSTORE, None) if k == "ks_empty" else KeyStore(KeySourceType.OTP)
    if "iv" in case:
        kw["ctr_init_vector"] = bytes.fromhex(case["iv"])
    if "reloc" in case:
        t = MultipleImageTable()
        for img, dst in case["reloc"]:
            t.add_entry(MultipleImageEntry(bytes.fromhex(img), dst))
        kw["app_table"] = t
    sp = None
    if "cert" in case:
        ct = case["cert"]
        if ct["kind"] == "v1":
            kw["cert_block"], sp = make_cert_v1(ct["id"])
        elif ct["kind"] == "v21":
            kw["cert_block"], sp = make_cert_v21(ct, case["family"])
        else:
            from spsdk.crypto.signature_provider import get_signature_provider
            from spsdk.utils.crypto.cert_blocks import CertBlockVx
            root_sp = get_signature_provider(local_file_key=str(KC_ECC / "ec_pk_secp256r1_cert0.pem"))
            kw["cert_block"] = CertBlockVx(isk_cert=_file(KC_ECC / "ec_secp256r1_sign_cert.pem"), signature_provider=root_sp, self_signed=True)
            sp = get_signature_provider(local_file_key=str(KC_ECC / "ec_pk_secp256r1_sign_cert.pem"))
            kw["add_hash"] = case["add_hash"]
            kw["just_header"] = case["just_header"]
        kw["signature_provider"] = sp
    if "fw" in case:
        kw["firmware_version"] = case["fw"]
    if _has(mixins, "ManifestCrc"):
        kw["manifest"] = MasterBootImageManifestCrc(case["fw"], kw["trust_zone"])
    if _has(mixins, "ManifestDigest"):
        dg = case.get("digest")
        algo = None
        if dg == "auto":
            algo = get_hash_type_from_signature_size(kw["cert_block"].signature_size)
        elif dg:
            algo = EnumHashAlgorithm.from_label(dg)
        kw["manifest"] = MasterBootImageManifestDigest(case["fw"], kw["trust_zone"], digest_hash_algo=algo)
    if "lifecycle" in case:
        kw["lifecycle"] = case["lifecycle"]
    obj = cls(**kw)
    if _has(mixins, "Bca") and not _has(mixins, "BcaTable"):
        # as mix_load_from_config does without explicit bca/fcf configuration: take them from the application
        from spsdk.image.mbi import mbi_mixin as MM
        MM.Mbi_MixinBca.mix_parse(obj, obj.app)
        MM.Mbi_MixinFcf.mix_parse(obj, obj.app)
    return obj, sp


# ---------------------------------------------------------------------------------------------- observations
def settings_of(obj, mixins):
    """Canonical, comparable settings of a real MBI object (only what the property names)."""
    from spsdk.image.keystore import KeySourceType
    from spsdk.image.trustzone import TrustZoneType
    s = {}
    s["app"] = bytes(obj.app).hex() if getattr(obj, "app", None) is not None else None
    if hasattr(obj, "load_address"):
        s["load"] = obj.load_address
    if hasattr(obj, "image_version"):
        s["ver"] = obj.image_version
    if hasattr(obj, "image_subtype"):
        s["sub"] = obj.image_subtype
    if hasattr(obj, "trust_zone"):
        tz = obj.trust_zone
        s["tz"] = [{TrustZoneType.DISABLED: "d", TrustZoneType.ENABLED: "e", TrustZoneType.CUSTOM: "c"}[tz.type], tz.export().hex()]
    if hasattr(obj, "user_hw_key_enabled"):
        s["hwk"] = bool(obj.user_hw_key_enabled)
    if hasattr(obj, "key_store"):
        ks = obj.key_store
        # an absent key store and an OTP key source are the same on the wire: no key store bytes
        s["ks"] = ks.export().hex() if ks is not None and ks.key_source == KeySourceType.KEYSTORE else ""
    if _has(mixins, "CtrInitVector"):
        s["iv"] = bytes(obj.ctr_init_vector).hex()
    if hasattr(obj, "app_table"):
        t = obj.app_table
        s["reloc"] = [[bytes(e.image).hex(), e.dst_addr, e.flags] for e in t.entries] if t else None
    if _has(mixins, "FwVersion", "ManifestCrc", "ManifestDigest", "BcaObsolete"):
        s["fw"] = getattr(obj, "firmware_version", None)
    if _has(mixins, "ManifestDigest"):
        m = obj.manifest
        s["digest"] = m.digest_hash_algo.label if m is not None and m.digest_hash_algo else None
    if _has(mixins, "FcfObsolete"):
        s["lifecycle"] = getattr(obj, "lifecycle", None)
    return s


def owned_regions(case, mixins):
    """mc56 images have no IVT: the tool writes its data into fixed places of the application itself and the parser
    returns the image as the application.  These byte ranges belong to the tool, the payload is compared outside them."""
    r = []
    if _has(mixins, "CrcSignBca"):
        r.append((0x3C4, 0x3D0))  # CRC start, byte count, expected value inside the BCA
    if _has(mixins, "FcfObsolete") and case.get("lifecycle", 0xFF) != 0xFF:
        r.append((0x40C, 0x40D))
    if _has(mixins, "EccSignVx"):
        r += [(0x360, 0x380), (0x380, 0x3C0), (0x410, 0x4A0)]  # image digest, signature, ISK certificate
        if case.get("add_hash"):
            r.append((0x4A0, 0x5E0))  # the whole "ISK Hash" sub-image is replaced (16 bytes of hash + fill)
    if _has(mixins, "BcaObsolete"):
        r.append((0x3E0, 0x3E8))  # BCA: image length, firmware version
    return r


def expected_settings(case, obj, mixins):
    """What parse(export(x)) has to give back, derived from the *input* case (not from the model)."""
    s = {}
    app = bytes.fromhex(case["app"])
    app += bytes(-len(app) % 4)
    if _has(mixins, "Ivt", "IvtZeroTotalLength"):
        b = bytearray(app)
        for off in (0x20, 0x24, 0x28, 0x34):
            b[off:off + 4] = bytes(4)
        app = bytes(b)
    s["app"] = app.hex()
    for k in ("load", "ver", "sub", "hwk", "fw"):
        if k in case:
            s[k] = case[k]
    if "sub" in case:
        s["sub"] = case["sub"]
    if "tz" in case:
        s["tz"] = [case["tz"][0], case["tz"][1] if case["tz"][0] == "c" else ""]
    if "ks" in case:
        s["ks"] = case["ks"][1] if case["ks"][0] == "ks" else ""
    if "iv" in case:
        s["iv"] = case["iv"]
    if _has(mixins, "RelocTable"):
        s["reloc"] = [[img, dst, 1] for img, dst in case["reloc"]] if "reloc" in case else None
    if _has(mixins, "ManifestDigest"):
        s["digest"] = obj.manifest.digest_hash_algo.label if obj.manifest.digest_hash_algo else None
    if "lifecycle" in case:
        # NOT_SET (0xFF) keeps the life cycle the application already carries
        s["lifecycle"] = case["lifecycle"] if case["lifecycle"] != 0xFF else app[0x40C]
    return s


def sig_range(obj, data, mixins):
    """[start, end) of the signature field inside the exported bytes, derived from the real object (None = no signature)."""
    if _has(mixins, "EccSignVx"):
        return (0x380, 0x3C0)
    if _has(mixins, "RsaSign"):
        n = obj.cert_block.signature_size
        return (len(data) - n, len(data))
    if _has(mixins, "EccSign"):
        n = obj.cert_block.signature_size
        dg = 0
        m = getattr(obj, "manifest", None)
        if m is not None and getattr(m, "digest_hash_algo", None):
            dg = m.get_hash_size(m.digest_hash_algo)
        return (len(data) - dg - n, len(data) - dg)
    return None


def isk_sig_range(obj, data, mixins):
    """ISK signature inside a v2.1 certificate block is an ECDSA signature too (random by design)."""
    cb = getattr(obj, "cert_block", None)
    isk = getattr(cb, "isk_certificate", None) if cb is not None else None
    if _has(mixins, "CertBlockV21") and isk is not None:
        off = struct.unpack_from("<I", data, 0x28)[0]
        start = off + cb.expected_size - len(isk.signature)
        return (start, start + len(isk.signature))
    return None


def mask(data, *ranges):
    b = bytearray(data)
    for r in ranges:
        if r:
            b[r[0]:r[1]] = bytes(r[1] - r[0])
    return bytes(b)


# ---------------------------------------------------------------------------------------------- independent references
_CRC_TABLE = None


def crc32_mpeg2(data: bytes) -> int:
    """CRC-32/MPEG-2 (poly 0x04C11DB7, init 0xFFFFFFFF, no reflection, no final xor) - independent of spsdk/crcmod."""
    global _CRC_TABLE
    if _CRC_TABLE is None:
        t = []
        for i in range(256):
            c = i << 24
            for _ in range(8):
                c = ((c << 1) ^ 0x04C11DB7) & 0xFFFFFFFF if c & 0x80000000 else (c << 1) & 0xFFFFFFFF
            t.append(c)
        _CRC_TABLE = t
    crc = 0xFFFFFFFF
    t = _CRC_TABLE
    for b in data:
        crc = ((crc << 8) & 0xFFFFFFFF) ^ t[((crc >> 24) ^ b) & 0xFF]
    return crc


def expected_flags(case, itype):
    """IVT flags word from the input settings, written from the format description (not from create_flags)."""
    f = itype
    if "tz" in case:
        f |= {"e": 0, "c": 1, "d": 2}[case["tz"][0]] << 13
    if "sub" in case:
        f |= case["sub"] << 6
    if case.get("hwk"):
        f |= 0x1000
    if "ks" in case and case["ks"][0] == "ks":
        f |= 0x8000
    if "reloc" in case:
        f |= 0x800
    if case.get("ver"):
        f |= 0x400 | (case["ver"] << 16)
    return f


def eval_case(case, row):
    """Everything that needs the real code for one case.  Returns (obs, fails); runs inside a worker process."""
    from spsdk.image.mbi.mbi import MasterBootImage
    fam, rev, tgt, auth, cn, itype, mixins, tzs, fixed = row
    fails = []
    obs = {}

    def fail(what, observed=None, expected=None, tag=None):
        fails.append({"what": what, "observed": observed, "expected": expected, "tag": tag})

    r = pyres(build, case, row)
    if r[0] != "ok":
        fail("generated option set could not be constructed (harness or constructor problem)", r)
        return obs, fails
    obj, sp = r[1]
    if "cert" in case and case["cert"]["kind"] in ("v1", "v21"):
        if case["cert"]["kind"] == "v1":
            obj.cert_block.alignment = 4    # the first thing the v1 collectors do
        cb = pyres(obj.cert_block.export)   # as handed to the builder (v1: image_length still 0; v2.1: ISK signature is created here)
        obs["cert"] = cb[1].hex() if cb[0] == "ok" else None
        obs["cert_size"] = obj.cert_block.expected_size
        obs["sig_size"] = obj.cert_block.signature_size
    if "cert" in case and case["cert"]["kind"] == "vx":
        cb = pyres(obj.cert_block.export)       # creates the ISK signature (kept for the later exports)
        obs["cert"] = cb[1].hex() if cb[0] == "ok" else None
        ch = pyres(lambda: obj.cert_block.cert_hash)
        obs["cert_hash"] = ch[1].hex() if ch[0] == "ok" else None
    m = getattr(obj, "manifest", None)
    if m is not None and getattr(m, "digest_hash_algo", None):
        obs["digest"] = m.digest_hash_algo.label
    for k in ("bca", "fcf"):
        if getattr(obj, k, None) is not None:
            obs[k] = getattr(obj, k).export().hex()
    r = pyres(obj.export)
    obs["export"] = r[1].hex() if r[0] == "ok" else r[0]
    applen = len(bytes.fromhex(case["app"]))
    must_reject = _has(mixins, "HmacMandatory") and applen + (-applen % 4) < 64   # no room for the HMAC behind the header
    if must_reject:
        if r[0] != "E:spsdk":
            fail("an application shorter than 64 bytes is accepted for an image with HMAC (the HMAC lands inside the following block)", r[0], "E:spsdk")
        return obs, fails
    if r[0] != "ok":
        fail("export of a valid option set raised", r)
        return obs, fails
    e = bytes(r[1])
    sr = sig_range(obj, e, mixins)
    ir = isk_sig_range(obj, e, mixins)
    obs["sig"] = sr
    obs["isk_sig"] = ir
    has_ivt = _has(mixins, "Ivt", "IvtZeroTotalLength")
    hk_ins = 0
    if _has(mixins, "HmacKeyStoreFinalize"):
        hk_ins = 32 + (1424 if case.get("ks", ["none"])[0] == "ks" else 0)
    # ---------------- header words describe the emitted bytes
    if has_ivt:
        w20, w24, w28 = struct.unpack_from("<3I", e, 0x20)
        w34 = struct.unpack_from("<I", e, 0x34)[0]
        exp_len = 0 if _has(mixins, "IvtZeroTotalLength") else len(e)
        if w20 != exp_len:
            fail("IVT total-length word does not describe the emitted bytes", w20, exp_len)
        ef = expected_flags(case, itype)
        if w24 != ef:
            fail("IVT image-type/flags word does not describe the settings", hex(w24), hex(ef))
        if w34 != case.get("load", 0):
            fail("IVT load-address word differs from the load address", w34, case.get("load", 0))
        if itype == 0:
            if w28 != 0:
                fail("IVT CRC/cert-offset word of a plain image is not 0", w28, 0)
        elif _has(mixins, "CrcSign"):
            ec = crc32_mpeg2(e[:0x28] + e[0x2C:])
            if w28 != ec:
                fail("IVT CRC word is not the CRC-32/MPEG-2 of the image without that word", hex(w28), hex(ec))
        elif "cert" in case:
            magic = b"cert" if case["cert"]["kind"] == "v1" else b"chdr"
            pos = w28 + (hk_ins if w28 >= 64 else 0)
            if e[pos:pos + 4] != magic:
                fail("IVT certificate-block offset does not point at the certificate block", [w28, e[pos:pos + 4].hex()], magic.hex())
            applen = len(bytes.fromhex(case["app"])) + (-len(bytes.fromhex(case["app"])) % 4)
            if "reloc" in case:
                applen += sum(len(bytes.fromhex(i)) + (-len(bytes.fromhex(i)) % 4) for i, _ in case["reloc"]) + 16 * len(case["reloc"]) + 16
            if w28 != applen:
                fail("IVT certificate-block offset is not the length of application (+ relocation table)", w28, applen)
    # ---------------- mc56 (Vx) images: the fields the tool writes describe the emitted bytes (recomputed independently)
    if _has(mixins, "BcaTable") and len(e) >= 0xC00:
        import hashlib
        if _has(mixins, "CrcSignBca"):
            st_, cnt, val = struct.unpack_from("<3I", e, 0x3C4)
            if (st_, cnt, val) != (0xC00, len(e) - 0xC00, crc32_mpeg2(e[0xC00:])):
                fail("mc56 CRC image: the BCA words (CRC start / byte count / value) do not describe the data part of the image",
                     [hex(st_), cnt, hex(val)], [hex(0xC00), len(e) - 0xC00, hex(crc32_mpeg2(e[0xC00:]))])
        if _has(mixins, "EccSignVx") and not case.get("just_header"):
            signed = e[:0x360] + e[0x3C0:0x400] + e[0xC00:]
            if e[0x360:0x380] != hashlib.sha256(signed).digest():
                fail("mc56 signed image: the image digest is not SHA-256 of header[0:0x360] + BCA[0x3C0:0x400] + data[0xC00:] of the emitted image",
                     e[0x360:0x380].hex(), hashlib.sha256(signed).hexdigest())
            il, fw = struct.unpack_from("<2I", e, 0x3E0)
            if (il, fw) != (len(e) - 0xC00 + 0x3A0, case.get("fw", 0)):
                fail("mc56 signed image: BCA image length / firmware version do not describe the image", [il, fw], [len(e) - 0xC00 + 0x3A0, case.get("fw", 0)])
            try:
                from cryptography.hazmat.primitives import hashes, serialization
                from cryptography.hazmat.primitives.asymmetric import ec, utils
                pub = serialization.load_pem_public_key(_file(KC_ECC / "ec_secp256r1_sign_cert.pem")) if b"PUBLIC KEY" in _file(KC_ECC / "ec_secp256r1_sign_cert.pem") \
                    else __import__("cryptography.x509", fromlist=["x"]).load_pem_x509_certificate(_file(KC_ECC / "ec_secp256r1_sign_cert.pem")).public_key()
                sg = e[0x380:0x3C0]
                pub.verify(utils.encode_dss_signature(int.from_bytes(sg[:32], "big"), int.from_bytes(sg[32:], "big")), signed, ec.ECDSA(hashes.SHA256()))
            except Exception as exc:  # noqa: BLE001
                fail("mc56 signed image: the signature does not verify (cryptography, ISK key) over header + BCA + data of the emitted image", type(exc).__name__)
    # ---------------- malformed variants (model vs implementation only; the property says nothing about them)
    if case.get("malformed") and has_ivt and not _has(mixins, "CertBlockV1", "CertBlockV21"):
        mal = []
        for name, img in malformed_variants(case["malformed"], e, case, tzs):
            r = pyres(MasterBootImage.parse, fam, img, None, rev)
            if r[0] == "ok":
                q = r[1]
                if type(q).__name__ != cn:
                    continue    # another class of the family was selected: not comparable with this class' model
                g = pyres(settings_of, q, mixins)
                line = "ok:" + real_settings_line(g[1], None) if g[0] == "ok" else "settings:" + g[0]
            else:
                line = r[0] if r[0] != "E:other" else "E:other"
            mal.append((name, img.hex(), line))
        obs["mal"] = mal
    # ---------------- parse(export(x)) = x
    dek = case.get("hkey")
    r = pyres(MasterBootImage.parse, fam, e, dek, rev)
    if r[0] != "ok":
        obs["parse"] = r[0]
        fail("parse of an exported image raised", r)
        return obs, fails
    p = r[1]
    obs["parsed_cls"] = type(p).__name__
    pm = mixins
    if type(p).__name__ != cn:
        # the image type alone selects the class; another row of this family shares the type
        pm = tuple(b.__name__ for b in type(p).__bases__[1:])
        obs["parsed_mixins"] = list(pm)
    got = pyres(settings_of, p, pm)
    if got[0] != "ok":
        fail("parsed object is incomplete (reading its settings raised)", got)
        return obs, fails
    got = got[1]
    exp = expected_settings(case, obj, mixins)
    obs["parsed"] = dict(got)
    pc = getattr(p, "cert_block", None)
    if pc is not None and "cert" in case and case["cert"]["kind"] in ("v1", "v21"):
        x = pyres(pc.export)
        obs["parsed_cert"] = x[1].hex() if x[0] == "ok" else x[0]
    for k in ("bca", "fcf"):
        if getattr(p, k, None) is not None:
            obs["parsed"][k] = getattr(p, k).export().hex()
    own = owned_regions(case, mixins)
    if own and got.get("app") is not None:
        got["app"] = mask(bytes.fromhex(got["app"]), *own).hex()
        exp["app"] = mask(bytes.fromhex(exp["app"]), *own).hex()
    if case.get("just_header"):
        exp["app"] = exp["app"][:2 * 0x800]  # header-only export: the application data is not part of the image
    for k, v in exp.items():
        if k not in got:
            if v in (0, False, None, "", ["d", ""]):
                continue
            fail(f"setting '{k}' is not recovered by parse (the class chosen by the parser has no such member)", None, v, tag="ambiguous-class")
        elif got[k] != v:
            fail(f"parse(export(x)) differs from x in '{k}'", got[k] if k != "app" else _short(got[k]), v if k != "app" else _short(v),
                 tag="ambiguous-class" if type(p).__name__ != cn else None)
    # ---------------- re-export of the parsed object reproduces every byte outside the signature
    if sp is not None and hasattr(p, "signature_provider"):
        p.signature_provider = sp
    if _has(mixins, "CertBlockVx"):
        p.add_hash = case["add_hash"]
        p.just_header = case["just_header"]
        p.cert_block.signature_provider = obj.cert_block.signature_provider
    if case.get("just_header"):
        return obs, fails  # a header-only export does not contain the application: nothing to re-export
    if case.get("cfg_rt") and not _has(mixins, "BcaTable"):
        kf = None
        if "cert" in case:
            ct = case["cert"]
            kf = RSA_VARIANTS[ct["id"]][3] if ct["kind"] == "v1" else \
                KC_ECC / (f"ec_pk_secp{ct['isk']}r1_sign_cert.pem" if ct["isk"] else f"ec_pk_secp{ct['curve']}r1_cert{ct['used']}.pem")
        # (the parsed object is used before its own re-export changes nothing observable: create_config only reads)
        # v1 and v2.1 blocks carry only HASHES of the root keys that do not sign: their YAML cannot name those keys again (C03)
        cb = bytes.fromhex(obs["cert"]) if "cert" in case and case["cert"]["kind"] in ("v1", "v21") and obs.get("cert") else None
        cr = config_roundtrip(case, row, p, e, sr, ir, kf, cb)
        obs["cfg_rt"] = "ok" if cr is None else cr[0]
        if cr is not None:
            fail(cr[0], cr[1], cr[2], tag="cfg" + ("/ambiguous-class" if type(p).__name__ != cn else ""))
    r = pyres(p.export)
    if r[0] != "ok":
        obs["reexport"] = r[0]
        fail("re-export of the parsed image raised", r, tag="ambiguous-class" if type(p).__name__ != cn else None)
    else:
        e2 = bytes(r[1])
        obs["reexport_bytes"] = e2.hex()
        a, b = mask(e, sr, ir), mask(e2, sr, ir) if len(e2) == len(e) else e2
        obs["reexport"] = "same" if a == b else "diff"
        if a != b:
            d = next((i for i in range(min(len(a), len(b))) if a[i] != b[i]), min(len(a), len(b)))
            fail("re-export of the parsed image differs outside the signature field", {"len": len(e2), "first_diff": d},
                 {"len": len(e)}, tag="ambiguous-class" if type(p).__name__ != cn else None)
    return obs, fails


def config_roundtrip(case, row, p, e, sr, ir, key_file, cert_bin=None):
    """create_config -> load_from_config -> export of a parsed image (what `nxpimage mbi parse` + `nxpimage mbi export` do).
    Returns a failure description or None.  Only the secrets the image cannot carry are put back into the configuration."""
    import shutil
    import tempfile
    from spsdk.image.mbi import mbi as M
    out = tempfile.mkdtemp(prefix="c01cfg-", dir=os.environ.get("VERIF_SCRATCH"))
    try:
        r = pyres(p.create_config, out)
        if r[0] != "ok":
            return ("create_config of a parsed image raised", r, None)
        cfg = dict(r[1])
        if "signPrivateKey" in cfg:
            cfg["signPrivateKey"] = str(key_file)
        if "outputImageEncryptionKeyFile" in cfg:
            cfg["outputImageEncryptionKeyFile"] = case.get("hkey")
        if cert_bin is not None:
            # a certificate block carries only the hashes of the other root keys: its YAML cannot name them again
            # (certificate block configuration is property C03); hand the block itself back as a binary
            Path(out, "cert_block.bin").write_bytes(cert_bin)
            cfg["certBlock"] = "cert_block.bin"
        r = pyres(M.get_mbi_class, cfg)
        if r[0] != "ok":
            return ("configuration created from a parsed image does not select a class", r, None)
        cls2 = r[1]
        # what `nxpimage mbi export` does before loading: both schema validations
        from spsdk.utils.schema_validator import check_config
        r = pyres(lambda: (check_config(cfg, cls2.get_validation_schemas_family()),
                           check_config(cfg, cls2.get_validation_schemas(cfg["family"]), search_paths=[out, "."])))
        if r[0] != "ok":
            return ("configuration created from a parsed image is refused by the configuration schema (`nxpimage mbi export` would refuse it)",
                    r, {k: v for k, v in cfg.items() if k != "inputImageFile"})
        m2 = cls2()
        r = pyres(m2.load_from_config, cfg, [out])
        if r[0] != "ok":
            return ("configuration created from a parsed image does not load", r, {k: v for k, v in cfg.items() if k != "inputImageFile"})
        r = pyres(m2.export)
        if r[0] != "ok":
            return ("image loaded from the configuration of a parsed image does not export", r, None)
        e3 = bytes(r[1])
        a, b = mask(e, sr, ir), mask(e3, sr, ir) if len(e3) == len(e) else e3
        if a != b:
            d = next((i for i in range(min(len(a), len(b))) if a[i] != b[i]), min(len(a), len(b)))
            return ("create_config -> load_from_config -> export differs from the original image outside the signature field",
                    {"len": len(e3), "first_diff": d}, {"len": len(e)})
        return None
    finally:
        shutil.rmtree(out, ignore_errors=True)


def malformed_variants(rng_seed, e, case, tzs):
    """corrupted / truncated versions of an exported plain or CRC image (image type, zero-length-ness and load address are kept,
    so the parser selects the same class)"""
    rng = random.Random(rng_seed)
    n = len(e)
    out = []

    def put(off, val):
        b = bytearray(e)
        b[off:off + 4] = struct.pack("<I", val & 0xFFFFFFFF)
        return bytes(b)
    w20, w24 = struct.unpack_from("<2I", e, 0x20)
    for L in {0, 0x10, 0x24, 0x27, 0x34, 0x37, 0x38, 0x39, 0x3C, n - 4, n - 1, max(0, n - tzs), max(0, n - tzs - 1), max(0, n - tzs - 4),
              4 * rng.randrange(n // 4 + 1), rng.randrange(n + 1)}:
        if w20 == 0 or L >= 0x24:
            out.append(("trunc", e[:L]))
    if w20 != 0:
        for v in (n + 1, 0xFFFFFFFF, n - 1, 0x38, 1):
            out.append(("total_len", put(0x20, v)))
    for bit in (6, 7, 10, 11, 12, 13, 14, 15, 16, 31):
        out.append((f"flag_bit{bit}", put(0x24, w24 ^ (1 << bit))))
    out.append(("tz3", put(0x24, w24 | (3 << 13))))
    out.append(("append", e + bytes(rng.getrandbits(8) for _ in range(rng.choice([1, 2, 3, 4, 8, 16, 17])))))
    if "reloc" in case:
        b = bytearray(e)
        tail = n - (len(bytes.fromhex(case["tz"][1])) if case.get("tz", ["e"])[0] == "c" else 0)
        for name, off, val in (("reloc_marker", tail - 16, 0x4C54424D), ("reloc_ver", tail - 12, 1), ("reloc_n", tail - 8, 0xFFFF),
                               ("reloc_n0", tail - 8, 0), ("reloc_ptr", tail - 4, n + 5), ("reloc_ptr0", tail - 4, 0),
                               ("reloc_entry_flags", tail - 20, 0), ("reloc_entry_size", tail - 24, 0x7FFFFFFF), ("reloc_entry_src", tail - 32, n)):
            if off >= 0x38:
                b2 = bytearray(b)
                b2[off:off + 4] = struct.pack("<I", val)
                out.append((name, bytes(b2)))
    return out


AUTH_CLI = {"plain": "plain", "crc": "crc", "signed": "signed", "nxp_signed": "signed-nxp", "encrypted": "signed-encrypted"}


def forward_config(case, row, out, cert_bin, tzkeys=None):
    """The configuration a user writes for the option set of a case (files are put into `out`).  `tzkeys` = (en, pf, data)
    overrides the spelling of the TrustZone keys: enableTrustZone absent / true / false ("a"/"t"/"f") and trustZonePresetFile
    absent / empty string / a binary preset file ("a"/"e"/"f").  Returns (configuration, private key file)."""
    fam, rev, tgt, auth, cn, itype, mixins, tzs, fixed = row
    out = Path(out)
    (out / "app.bin").write_bytes(bytes.fromhex(case["app"]))
    cfg = {"family": fam, "revision": rev, "outputImageExecutionTarget": "xip" if tgt == "xip" else "load-to-ram",
           "outputImageAuthenticationType": AUTH_CLI[auth], "masterBootOutputFile": "out.bin", "inputImageFile": "app.bin"}
    if "load" in case:
        cfg["outputImageExecutionAddress"] = hex(case["load"])
    if "ver" in case:
        cfg["imageVersion"] = case["ver"]
    if "sub" in case:
        cfg["outputImageSubtype"] = "main" if case["sub"] == 0 else "nbu" if _has(mixins, "ManifestDigest") or fam.startswith(("k32", "kw4", "mcxw7")) else "recovery"
    if "tz" in case:
        cfg["enableTrustZone"] = case["tz"][0] != "d"
        if case["tz"][0] == "c":
            (out / "tz.bin").write_bytes(bytes.fromhex(case["tz"][1]))
            cfg["trustZonePresetFile"] = "tz.bin"
    if "hwk" in case:
        cfg["enableHwUserModeKeys"] = case["hwk"]
    if "ks" in case and case["ks"][0] == "ks":
        (out / "ks.bin").write_bytes(bytes.fromhex(case["ks"][1]))
        cfg["keyStoreFile"] = "ks.bin"
    if "hkey" in case:
        cfg["outputImageEncryptionKeyFile"] = case["hkey"]
    if "iv" in case:
        cfg["CtrInitVector"] = case["iv"]
    if "reloc" in case:
        tab = []
        for k, (img, dst) in enumerate(case["reloc"]):
            (out / f"rel{k}.bin").write_bytes(bytes.fromhex(img))
            tab.append({"binary": f"rel{k}.bin", "destAddress": hex(dst), "load": True})
        cfg["applicationTable"] = tab
    kf = None
    if cert_bin is not None:
        (out / "cert_block.bin").write_bytes(cert_bin)
        ct = case["cert"]
        kf = RSA_VARIANTS[ct["id"]][3] if ct["kind"] == "v1" else \
            KC_ECC / (f"ec_pk_secp{ct['isk']}r1_sign_cert.pem" if ct["isk"] else f"ec_pk_secp{ct['curve']}r1_cert{ct['used']}.pem")
        cfg["certBlock"] = "cert_block.bin"
        cfg["signPrivateKey"] = str(kf)
    if "fw" in case:
        cfg["firmwareVersion"] = case["fw"]
    if _has(mixins, "ManifestDigest"):
        cfg["addManifestDigest"] = case.get("digest") == "auto"
    if tzkeys is not None:
        en, pf, data = tzkeys
        cfg.pop("enableTrustZone", None)
        cfg.pop("trustZonePresetFile", None)
        if en != "a":
            cfg["enableTrustZone"] = en == "t"
        if pf == "e":
            cfg["trustZonePresetFile"] = ""
        elif pf == "f":
            (out / "tz_keys.bin").write_bytes(bytes.fromhex(data))
            cfg["trustZonePresetFile"] = "tz_keys.bin"
    return cfg, kf


def requested_tz(mixins, tzkeys):
    """What the configuration REQUESTS, written from the schema text of the two keys (independent of the loaders):
    `enableTrustZone`: "If not specified, the Trust zone is disabled"; `trustZonePresetFile`: "If not specified, but TrustZone
    is enabled (enableTrustZone) the default values are used"; families with mandatory TrustZone have it always on."""
    en, pf, data = tzkeys
    optional = "Mbi_MixinTrustZone" in mixins
    if optional and en != "t":
        return ["d", ""]
    return ["c", data] if pf == "f" else ["e", ""]


def sanitize_for_config(case, row):
    """option sets a configuration can express (sub types with a label, digest chosen by the key, key store data or none);
    None = no valid image for this case"""
    c = json.loads(json.dumps(case))
    alen = len(bytes.fromhex(c["app"]))
    if _has(row[6], "HmacMandatory") and alen + (-alen % 4) < 64:
        return None
    if c.get("sub", 0) > 1:
        c["sub"] = 0
    if c.get("digest") not in (None, "auto"):
        c["digest"] = "auto"
    if c.get("ks", ["none"])[0] in ("otp", "ks_empty"):
        c["ks"] = ["none", ""]
    return c


def config_forward(case, row):
    """configuration -> (both schema validations of the CLI) -> get_mbi_class -> load_from_config -> export, against
    (1) what the configuration requests (TrustZone type bits, TrustZone block) and (2) the image built through the class
    interface with the requested settings.  Returns (obs, failure triples)."""
    import shutil
    import tempfile
    from spsdk.image.mbi import mbi as M
    from spsdk.utils.schema_validator import check_config
    fam, rev, tgt, auth, cn, itype, mixins, tzs, fixed = row
    fc = sanitize_for_config(case, row)
    if fc is None:
        return {}, []
    keys = case["cfg_fw"].get("tz")
    tzkeys = (keys["en"], keys["pf"], keys["data"]) if keys else None
    if tzkeys is not None:
        fc["tz"] = requested_tz(mixins, tzkeys)
    obs, fails = {}, []
    out = tempfile.mkdtemp(prefix="c01fw-", dir=os.environ.get("VERIF_SCRATCH"))
    try:
        r = pyres(build, fc, row)
        if r[0] != "ok":
            return obs, [("option set requested by the configuration could not be constructed through the class interface", r, fc.get("tz"))]
        obj, sp = r[1]
        if "cert" in fc and fc["cert"]["kind"] == "v1":
            obj.cert_block.alignment = 4
        cert_bin = obj.cert_block.export() if "cert" in fc else None
        r = pyres(obj.export)
        if r[0] != "ok":
            return obs, [("export of the option set requested by the configuration raised", r, None)]
        e = bytes(r[1])
        sr, ir = sig_range(obj, e, mixins), isk_sig_range(obj, e, mixins)
        cfg, kf = forward_config(fc, row, out, cert_bin, tzkeys)
        if case["cfg_fw"].get("omit_defaults"):
            for key, dflt in (("imageVersion", 0), ("outputImageSubtype", "main"), ("firmwareVersion", 0), ("addManifestDigest", False)):
                if key in cfg and cfg[key] == dflt:
                    del cfg[key]
            if "Mbi_MixinLoadAddressOptional" in mixins and cfg.get("outputImageExecutionAddress") == "0x0":
                del cfg["outputImageExecutionAddress"]
        shown = {k: v for k, v in cfg.items() if k in ("enableTrustZone", "trustZonePresetFile", "outputImageAuthenticationType", "outputImageExecutionTarget")}
        shown["keys"] = sorted(cfg)
        r = pyres(M.get_mbi_class, cfg)
        if r[0] != "ok":
            return obs, [("a valid configuration does not select a class", r, shown)]
        cls2 = r[1]
        if cls2.__name__ != type(obj).__name__:
            fails.append(("the configuration selects another class than the one the database names for target / authentication", cls2.__name__, type(obj).__name__))
        r = pyres(lambda: (check_config(cfg, cls2.get_validation_schemas_family()),
                           check_config(cfg, cls2.get_validation_schemas(cfg["family"]), search_paths=[out, "."])))
        if r[0] != "ok":
            return obs, fails + [("a valid configuration is refused by the configuration schema", r, shown)]
        m2 = cls2()
        r = pyres(m2.load_from_config, cfg, [out])
        if r[0] != "ok":
            obs["loaded_tz"] = r[0]
            return obs, fails + [("load_from_config of a valid configuration raised", r, shown)]
        if hasattr(m2, "trust_zone"):
            t = settings_of(m2, mixins).get("tz")
            obs["loaded_tz"] = t[0] if t[0] != "c" else "c:" + (t[1] or "-")
        else:
            obs["loaded_tz"] = "none"
        r = pyres(m2.export)
        if r[0] != "ok":
            return obs, fails + [("export of the image loaded from a valid configuration raised", r, shown)]
        e1 = bytes(r[1])
        if "tz" in fc and has_ivt_row(mixins) and len(e1) >= 0x28:
            want = {"e": 0, "c": 1, "d": 2}[fc["tz"][0]]
            got = (struct.unpack_from("<I", e1, 0x24)[0] >> 13) & 3
            if got != want:
                fails.append(("TrustZone type bits (15:13 of the flag word) of the image built from the configuration are not what the configuration requests "
                              "(0 = default, 1 = custom preset, 2 = disabled)", {"bits": got, "keys": shown, "len": len(e1)}, {"bits": want, "len": len(e)}))
            blk = bytes.fromhex(fc["tz"][1]) if fc["tz"][0] == "c" else b""
            if "cert" not in fc and e1[len(e1) - len(blk):] != blk or len(e1) != len(e):
                fails.append(("TrustZone block of the image built from the configuration is not what the configuration requests "
                              "(preset data at the end of an unsigned image / no block)", {"len": len(e1), "tail": e1[-min(16, len(e1)):].hex(), "keys": shown},
                              {"len": len(e), "tail": e[-min(16, len(e)):].hex()}))
        if mask(e1, sr, ir) != mask(e, sr, ir):
            a, b = mask(e1, sr, ir), mask(e, sr, ir)
            d = next((i for i in range(min(len(a), len(b))) if a[i:i + 1] != b[i:i + 1]), min(len(a), len(b)))
            fails.append(("image built from the configuration differs from the image built through the class interface with the same settings (outside the signature)",
                          {"len": len(e1), "first_diff": d, "keys": shown}, {"len": len(e)}))
        return obs, fails
    finally:
        shutil.rmtree(out, ignore_errors=True)


def cli_roundtrip(case, row, scratch):
    """`nxpimage mbi export -c cfg` / `nxpimage mbi parse` / `nxpimage mbi export -c <parsed cfg>` through click's CliRunner:
    the configuration glue (schema validation, load_from_config of every mixin, file lookup) around the modelled core.
    Returns a list of failure triples."""
    import shutil
    import tempfile
    import yaml
    from click.testing import CliRunner
    from spsdk.apps import nxpimage
    fam, rev, tgt, auth, cn, itype, mixins, tzs, fixed = row
    fails = []
    out = Path(tempfile.mkdtemp(prefix="c01cli-", dir=scratch))
    try:
        r = pyres(build, case, row)
        if r[0] != "ok":
            return [("option set could not be constructed", r, None)]
        obj, sp = r[1]
        if "cert" in case and case["cert"]["kind"] == "v1":
            obj.cert_block.alignment = 4
        cert_bin = obj.cert_block.export() if "cert" in case else None
        e = bytes(obj.export())
        sr, ir = sig_range(obj, e, mixins), isk_sig_range(obj, e, mixins)
        cfg, kf = forward_config(case, row, out, cert_bin)
        (out / "cfg.yaml").write_text(yaml.safe_dump(cfg))
        runner = CliRunner()

        def run(args):
            res = runner.invoke(nxpimage.main, args, catch_exceptions=True)
            return res.exit_code, (res.output or "")[-300:] + (str(res.exception)[:300] if res.exception and res.exit_code != 0 else "")
        cwd = os.getcwd()
        os.chdir(out)
        try:
            rc, msg = run(["mbi", "export", "-c", str(out / "cfg.yaml")])
            if rc != 0 or not (out / "out.bin").exists():
                return [("`nxpimage mbi export` refuses a configuration of a valid option set", [rc, msg], None)]
            e1 = (out / "out.bin").read_bytes()
            if mask(e1, sr, ir) != mask(e, sr, ir):
                d = next((i for i in range(min(len(e), len(e1))) if mask(e1, sr, ir)[i:i + 1] != mask(e, sr, ir)[i:i + 1]), min(len(e), len(e1)))
                fails.append(("`nxpimage mbi export` of the configuration differs from the image built through the class interface (outside the signature)",
                              {"len": len(e1), "first_diff": d}, {"len": len(e)}))
                return fails
            args = ["mbi", "parse", "-b", str(out / "out.bin"), "-f", fam, "-r", rev, "-o", str(out / "parsed")]
            if "hkey" in case:
                args += ["-k", case["hkey"]]
            rc, msg = run(args)
            if rc != 0 or not (out / "parsed" / "mbi_config.yaml").exists():
                return [("`nxpimage mbi parse` of an exported image fails", [rc, msg], None)]
            pc = yaml.safe_load((out / "parsed" / "mbi_config.yaml").read_text())
            if "signPrivateKey" in pc:
                pc["signPrivateKey"] = str(kf)
            if "outputImageEncryptionKeyFile" in pc:
                pc["outputImageEncryptionKeyFile"] = case.get("hkey")
            if cert_bin is not None:
                (out / "parsed" / "cert_block.bin").write_bytes(cert_bin)
                pc["certBlock"] = "cert_block.bin"
            pc["masterBootOutputFile"] = "again.bin"
            (out / "parsed" / "mbi_config.yaml").write_text(yaml.safe_dump(pc))
            os.chdir(out / "parsed")
            rc, msg = run(["mbi", "export", "-c", str(out / "parsed" / "mbi_config.yaml")])
            if rc != 0 or not (out / "parsed" / "again.bin").exists():
                return [("`nxpimage mbi export` refuses the configuration `nxpimage mbi parse` created", [rc, msg], None)]
            e2 = (out / "parsed" / "again.bin").read_bytes()
            if mask(e2, sr, ir) != mask(e, sr, ir):
                d = next((i for i in range(min(len(e), len(e2))) if mask(e2, sr, ir)[i:i + 1] != mask(e, sr, ir)[i:i + 1]), min(len(e), len(e2)))
                fails.append(("nxpimage mbi export -> parse -> export does not reproduce the image outside the signature", {"len": len(e2), "first_diff": d}, {"len": len(e)}))
        finally:
            os.chdir(cwd)
        return fails
    finally:
        shutil.rmtree(out, ignore_errors=True)


def _short(h):
    return h if len(h) <= 160 else {"len": len(h) // 2, "head": h[:64], "tail": h[-64:]}


# ---------------------------------------------------------------------------------------------- model requests
def _hx(b):
    return bytes(b).hex() if len(b) else "-"


def model_export_line(case, obs, shape, tzs, sig=b""):
    kv = [f"shape={shape}", f"tzsize={tzs}", "app=" + (case["app"] or "-")]
    if "load" in case:
        kv.append(f"load={case['load']}")
    if "ver" in case:
        kv.append(f"ver={case['ver']}")
    if "sub" in case:
        kv.append(f"sub={case['sub']}")
    if "tz" in case:
        kv.append("tz=" + (case["tz"][0] if case["tz"][0] != "c" else "c:" + (case["tz"][1] or "-")))
    if "hwk" in case:
        kv.append(f"hwk={int(case['hwk'])}")
    if "ks" in case:
        kv.append("ks=" + ("-" if case["ks"][0] == "ks_empty" else "none" if case["ks"][0] != "ks" else case["ks"][1] or "-"))
    if "hkey" in case:
        kv.append("hkey=" + case["hkey"])
    if "iv" in case:
        kv.append("iv=" + case["iv"])
    if "reloc" in case:
        kv.append("reloc=" + (",".join(f"{img or '-'}:{dst}" for img, dst in case["reloc"]) or "-"))
    if obs.get("cert"):
        kv += ["cert=" + obs["cert"], f"siglen={obs['sig_size']}", "sig=" + _hx(sig)]
    if "fw" in case:
        kv.append(f"fw={case['fw']}")
    if obs.get("digest"):
        kv.append("digest=" + obs["digest"])
    if obs.get("bca"):
        kv.append("bca=" + obs["bca"])
    if obs.get("fcf"):
        kv.append("fcf=" + obs["fcf"])
    return "export " + " ".join(kv)


def model_parse_line(op, case, obs, shape, tzs, data, sig=b""):
    kv = [f"shape={shape}", f"tzsize={tzs}", "data=" + _hx(data)]
    if "hkey" in case:
        kv.append("dek=" + case["hkey"])
    if obs.get("cert"):
        kv += [f"siglen={obs['sig_size']}", f"certsize={obs['cert_size']}"]
    if op == "reexport":
        kv.append("sig=" + _hx(sig))
    return op + " " + " ".join(kv)


def real_settings_line(got, cert_hex):
    """the model's `parsedStr` for the settings read from the real parsed object"""
    def oh(x):
        return "none" if x is None else (x or "-")
    tz = got.get("tz", ["e", ""])
    rel = got.get("reloc")
    return (f"app={oh(got.get('app'))};load={got.get('load') or 0};ver={got.get('ver') or 0};sub={got.get('sub') or 0};"
            f"tz={tz[0] if tz[0] != 'c' else 'c:' + (tz[1] or '-')};hwk={int(bool(got.get('hwk')))};"
            f"ks={oh(got.get('ks') or None)};iv={got.get('iv') or '-'};"
            f"reloc={'none' if rel is None else (','.join(f'{i or chr(45)}:{d}' for i, d, _ in rel) or '-')};cert={oh(cert_hex)};"
            f"fw={got.get('fw') or 0};digest={got.get('digest') or 'none'};bca={oh(got.get('bca'))};fcf={oh(got.get('fcf'))}")


# ---------------------------------------------------------------------------------------------- run
ROWS = None
FINDING_MC56 = "C01-mc56-image-without-type-field"
FINDING_KS = "C01-encrypted-keystore-source-without-data"
SF = None


def _worker_init():
    import logging
    logging.disable(logging.CRITICAL)


def _work(task):
    ri, seed, draws, thorough, mal_ok = task
    row = ROWS[ri]
    rng = random.Random(seed)
    out = []
    for d in range(draws):
        case = gen_case(rng, row, d, thorough)
        if not mal_ok:
            case["malformed"] = 0
        try:
            obs, fails = eval_case(case, row)
        except Exception as exc:  # noqa: BLE001  - never let the real code (or a harness slip) kill the run silently
            import traceback
            obs, fails = {}, [{"what": "evaluation of a case crashed: " + type(exc).__name__, "observed": traceback.format_exc()[-1500:],
                               "expected": None, "tag": None}]
        if case.get("cfg_fw") is not None:
            try:
                fo, ff = config_forward(case, row)
            except Exception as exc:  # noqa: BLE001
                import traceback
                fo, ff = {}, [("configuration path crashed: " + type(exc).__name__, traceback.format_exc()[-1500:], None)]
            obs["cfg_fw"] = fo
            obs["cfg_fw_fails"] = [list(x) for x in ff]
        out.append((case, obs, fails))
    return ri, out


def short_case(case):
    c = dict(case)
    return c


def check_generated_rows(ck, rows, meta):
    """The statically extracted class table must be the live one (else the extractor is wrong: infrastructure error)."""
    gen = {(r[0], r[1], r[2], r[3]): (r[4], tuple(meta["shapes"][r[5]][1]), meta["shapes"][r[5]][0], r[6], r[7]) for r in meta["rows"]}
    live = {(r[0], r[1], r[2], r[3]): (r[4], tuple(r[6]), r[5], r[7], r[8]) for r in rows}
    if gen != live:
        only_g = sorted(set(gen) - set(live))[:5]
        only_l = sorted(set(live) - set(gen))[:5]
        diff = [(k, gen[k], live[k]) for k in gen if k in live and gen[k] != live[k]][:3]
        raise Infra(f"generated MbiClasses table differs from the live database API: only generated {only_g}, only live {only_l}, different {diff}")
    if meta.get("problems"):
        raise Infra("extractor could not resolve: " + "; ".join(meta["problems"][:5]))


def run(ck, only_rows=None):
    import concurrent.futures
    import logging
    import multiprocessing
    import vcore
    global ROWS
    logging.disable(logging.CRITICAL)
    ck.lean_obligations(generated=["MbiClasses", "IvtConsts"])
    # every op of drv_c01 evaluates the model of the CODE (Model/Mbi.lean, Model/MbiVx.lean, generated parts): none is Spec-only.
    # Their answers only feed `compare` (correspondence); every `expect` and every known-finding predicate is computed from the
    # input and the real code.
    ck.spec_ops = set()
    drv = ck.driver()
    meta = ck.generated_meta["MbiClasses"]
    ROWS = live_rows()
    check_generated_rows(ck, ROWS, meta)
    shape_idx = {(it, tuple(m)): i for i, (it, m) in enumerate(meta["shapes"])}
    ck.assume("certificate blocks are opaque byte blocks with a declared length and signature size (X.509 / key parsing is `cryptography`'s); "
              "the model is told both by the harness (Env), the cert-block-v1 size is recomputed from its header",
              "signatures are opaque blobs of the length the certificate block announces; the model is given the signature the real provider returned",
              "TrustZone, BCA and FCF blocks are fixed-length opaque blocks (register codecs: property C12); generated payloads carry them in normal form",
              "BinaryImage sub-image bookkeeping is modelled as concatenation of byte strings (BinaryImage itself: property C16)",
              "mc56 (Vx) images (no IVT): oracle only, with the tool-owned byte ranges of the application masked; not part of the Lean model",
              "AES/SHA/HMAC/CRC of the model are the Lean reference implementations (validated by C09)")
    draws = ck.budget(6, 150)
    rows_sel = list(range(len(ROWS))) if only_rows is None else only_rows
    first_of_shape = {}
    for ri, r in enumerate(ROWS):
        first_of_shape.setdefault((r[5], r[6]), ri)
    mal_rows = set(first_of_shape.values()) if ck.quick else set(range(len(ROWS)))   # malformed stream: quick = one row per mixin list
    tasks = [(ri, ck.rng.getrandbits(64), draws, not ck.quick, ri in mal_rows) for ri in rows_sel]
    s = ck.stream("export_parse", f"EVERY row of the MBI class table ({len(ROWS)} rows = family x revision x target x authentication; {len(shape_idx)} distinct mixin lists) x {draws} draws: "
                  "payload lengths {0x38..0x41,0x48,0x50,0x1FF,0x200,0x201, random <= 8 KiB, multiples of 16/512 +-1}, tails resembling the relocation marker, load addresses, "
                  "image versions, sub-types, TrustZone disabled/default/custom, HW-key flag, key store none/present/OTP, relocation tables of 1-4 entries, HMAC keys, counter IVs, "
                  "RSA chains depth 1-3 / 2048-4096 bit with 1-4 roots, P-256/P-384 root sets of 1-4 with every signing root, +-ISK, ISK user data; "
                  "non-trivial = distinct (row, option set, payload)")
    s.exhaustive = False
    sc = ck.stream("class_selection", "for every successfully parsed image: the class the parser selects among the family's classes vs the model's selectClass; "
                   "non-trivial = distinct (family, revision, image)")
    st = ck.stream("theorem_instances", "every generated case of an IVT class: the hypotheses (ClassWF, cfgWF) hold and the conclusions of parse_export / reexport / "
                   "header_describes / total_len_sum evaluate to true in the compiled Lean model (non-vacuity of the theorem hypotheses on the generator's inputs)")
    sm = ck.stream("malformed", "truncated / corrupted variants (length classes around 0x38 and the TrustZone block, total-length word, every flag bit, TrustZone type 3, "
                   "appended bytes, relocation header/entry fields) of exported plain and CRC images: accept/reject class and parsed settings, model vs implementation")
    sv = ck.stream("vx", "every mc56f81xxx / mwct20x2 row (header-less 'Vx' images: plain, CRC in the BCA, ECC signed with ISK certificate): export bytes (real signature plugged in), "
                   "parsed application / life cycle / firmware version, and the Vx theorem instances (frame outside the tool-owned ranges, parse(export)) in the compiled Model/MbiVx.lean")
    global SF
    SF = ck.stream("config_options", "configuration path forward, one draw of EVERY IVT row (thorough: every fifth draw): the configuration a user writes for the option set "
                   "-> both schema validations of `nxpimage mbi export` -> get_mbi_class -> load_from_config -> export, with every spelling of the TrustZone keys "
                   "(enableTrustZone absent/true/false x trustZonePresetFile absent/''/binary preset file; optional and mandatory TrustZone mixins): the TrustZone type "
                   "bits and the TrustZone block of the image are what the configuration requests (schema text) and the image equals the one built through the class "
                   "interface with the requested settings; the TrustZone `load_from_config` derives = compiled model's tzOfConfig (loaders GENERATED from the source); "
                   "non-trivial = distinct (row, option set, key spelling)")
    ctx = multiprocessing.get_context("fork")
    nproc = min(8, os.cpu_count() or 2)
    extra_drivers = []
    if drv is not None:
        for _ in range(3):
            d = vcore.Driver(drv.exe, on_death=lambda msg: ck.broken.append(msg + " - correspondence cannot be evaluated"),
                             spec_ops=lambda: set(ck.spec_ops or ()))
            ck.drivers.append(d)
            extra_drivers.append(d)
    drivers = ([drv] + extra_drivers) if drv is not None else []
    groups = {}
    for r in ROWS:
        groups.setdefault((r[0], r[1]), []).append(r)
    pool = ctx.Pool(nproc, initializer=_worker_init)
    block = 96 if ck.quick else 24          # rows per block (bounds the memory of the thorough tier)
    for b0 in range(0, len(tasks), block):
        results = sorted(pool.imap_unordered(_work, tasks[b0:b0 + block], chunksize=2), key=lambda x: x[0])
        _process_block(ck, results, drivers, shape_idx, groups, s, sc, st, sm, sv)
    pool.close()
    pool.join()
    # ---- command line entry points (CliRunner, in this process): first row of the mixin lists, valid option sets only
    import logging
    scli = ck.stream("cli", "`nxpimage mbi export -c` (= image built through the class interface), `nxpimage mbi parse`, `nxpimage mbi export -c <parsed configuration>` "
                     "(= same image outside the signature) through click's CliRunner for the first database row of the mixin lists "
                     f"({'every second' if ck.quick else 'every'} list; IVT classes); non-trivial = distinct (row, option set)")
    cli_rows = [ri for k, ri in enumerate(sorted(first_of_shape.values())) if has_ivt_row(ROWS[ri][6]) and (k % 2 == 0 or not ck.quick)]
    for ri in cli_rows:
        row = ROWS[ri]
        for d in range(ck.budget(1, 3)):
            rng = random.Random(ck.rng.getrandbits(64))
            case = gen_case(rng, row, 9 + d * 3)
            alen = len(bytes.fromhex(case["app"]))
            if case.get("sub", 0) > 1 or case.get("digest") not in (None, "auto") or case.get("ks", ["none"])[0] in ("otp", "ks_empty") \
                    or (_has(row[6], "HmacMandatory") and alen + (-alen % 4) < 64):
                case.pop("sub", None) if case.get("sub", 0) > 1 else None
                if case.get("digest") not in (None, "auto"):
                    case["digest"] = "auto"
                if case.get("ks", ["none"])[0] in ("otp", "ks_empty"):
                    case["ks"] = ["none", ""]
                if "sub" not in case and _has(row[6], "ImageSubType"):
                    case["sub"] = 0
            scli.note((row[:5], case), cls=f"{row[2]}/{row[3]}")
            try:
                fl = cli_roundtrip(case, row, os.environ.get("VERIF_SCRATCH"))
            except Exception as exc:  # noqa: BLE001
                import traceback
                fl = [("CLI round trip crashed: " + type(exc).__name__, traceback.format_exc()[-1200:], None)]
            for what, o, x in fl:
                scli.expect(False, {"row": list(row[:5]), "case": case}, what, o, x)
    logging.disable(logging.CRITICAL)
    ck.extra["rows"] = len(ROWS)
    ck.extra["shapes"] = len(shape_idx)


def _process_block(ck, results, drivers, shape_idx, groups, s, sc, st, sm, sv):
    import concurrent.futures
    # ---- oracle results
    model_jobs = []   # (key, lines, real answers, inputs)
    for ri, out in results:
        row = ROWS[ri]
        fam, rev, tgt, auth, cn, itype, mixins, tzs, fixed = row
        sh = shape_idx[(itype, mixins)]
        vx = _has(mixins, "BcaTable")
        fixed_conflict = fixed >= 0 and itype != fixed
        for case, obs, fails in out:
            inp = {"row": list(row[:5]), "case": case}
            s.note((row[:5], case), cls=f"{tgt}/{auth}")
            ks_empty_enc = case.get("ks", ["none"])[0] == "ks_empty" and _has(mixins, "AppTrustZoneCertBlockEncrypt")
            for f in fails:
                finding = FINDING_MC56 if fixed_conflict else FINDING_KS if ks_empty_enc else None
                s.expect(False, inp, f["what"], f["observed"], f["expected"], finding=finding)
            if "cfg_fw" in obs:
                SF.note((row[:5], json.dumps(case["cfg_fw"].get("tz"), sort_keys=True), case["app"][:32]), cls=f"{tgt}/{auth}")
                for what, o, x in obs["cfg_fw_fails"]:
                    SF.expect(False, inp, what, o, x)
                k = case["cfg_fw"].get("tz")
                if drivers and k and "loaded_tz" in obs["cfg_fw"]:
                    pf = "a" if k["pf"] == "a" else "e" if k["pf"] == "e" else "f:" + (k["data"] or "-")
                    model_jobs.append((inp, [f"tzcfg shape={sh} tzsize={tzs} en={k['en']} pf={pf}"], [obs["cfg_fw"]["loaded_tz"]]))
            if drivers and vx and "export" in obs and not (fixed >= 0 and itype != fixed and False):
                kind = "signed" if _has(mixins, "EccSignVx") else "crc" if _has(mixins, "CrcSignBca") else "plain"
                e = obs["export"]
                sigb = bytes.fromhex(e)[0x380:0x3C0] if kind == "signed" and not e.startswith("E:") else b""
                base = (f"kind={kind} app={case['app']} lifecycle={case.get('lifecycle', 255)} fw={case.get('fw', 0) if kind == 'signed' else 0} "
                        f"cert={obs.get('cert') or '-'} certhash={obs.get('cert_hash') or '-'} addhash={int(bool(case.get('add_hash')))} "
                        f"jh={int(bool(case.get('just_header')))} sig={_hx(sigb)}")
                lines, real = ["vxexport " + base], [("ok:" + e) if not e.startswith("E:") else e]
                if not e.startswith("E:"):
                    lines.append("vxthm " + base)
                    real.append("wf=1 frame=1 rt=1")
                    if obs.get("parsed_cls") == cn and "parsed" in obs:
                        g = obs["parsed"]
                        lines.append(f"vxparse kind={kind} data={e}")
                        real.append(f"ok:app={g.get('app') or '-'};lifecycle={g.get('lifecycle')};fw={(g.get('fw') or 0) if kind == 'signed' else 0}")
                model_jobs.append((inp, lines, real))
                continue
            if not drivers or vx or "export" not in obs:
                continue
            e = obs["export"]
            lines, real = [], []
            if e.startswith("E:"):
                lines.append(model_export_line(case, obs, sh, tzs))
                real.append(e)
            else:
                eb = bytes.fromhex(e)
                sr = obs.get("sig")
                sig = eb[sr[0]:sr[1]] if sr else b""
                lines.append(model_export_line(case, obs, sh, tzs, sig))
                real.append("ok:" + e)
                if "parsed" in obs and obs.get("parsed_cls") == cn:
                    lines.append(model_parse_line("parse", case, obs, sh, tzs, eb))
                    real.append("ok:" + real_settings_line(obs["parsed"], obs.get("parsed_cert")))
                    if "reexport_bytes" in obs:
                        e2 = bytes.fromhex(obs["reexport_bytes"])
                        lines.append(model_parse_line("reexport", case, obs, sh, tzs, eb, e2[sr[0]:sr[1]] if sr else b""))
                        real.append("ok:" + obs["reexport_bytes"])
                if _has(mixins, "Bca") and not has_ivt_row(mixins):
                    # mcxc (BCA / FCF blocks, no IVT): only the round-trip conclusion (`parse_export_mcxc`) is evaluated
                    lines.append(model_export_line(case, obs, sh, tzs, sig).replace("export ", "thm ", 1) + " mcxc=1")
                    real.append("rt=1")
                if has_ivt_row(mixins) and case.get("ks", ["none"])[0] != "ks_empty":
                    # the theorems' hypotheses and conclusions evaluated on this very case by the compiled model
                    ln = model_export_line(case, obs, sh, tzs, sig).replace("export ", "thm ", 1)
                    if "hkey" in case:
                        ln += " dek=" + case["hkey"]
                    if obs.get("cert"):
                        ln += f" certsize={obs['cert_size']}"
                    lines.append(ln)
                    real.append("cwf=1 wf=1 rt=1 re=1 hdr=1 tl=1")
                for name, img, line in obs.get("mal", []):
                    lines.append(model_parse_line("parse", case, obs, sh, tzs, bytes.fromhex(img)).replace("parse ", "mparse ", 1))
                    real.append(line)
                if "parsed_cls" in obs:
                    cands = groups[(fam, rev)]
                    lines.append("select fixed=%d cands=%s data=%s" % (fixed, ",".join(f"{shape_idx[(c[5], c[6])]}:{c[7]}" for c in cands), _hx(eb)))
                    want = next(i for i, c in enumerate(cands) if c[4] == obs["parsed_cls"])
                    real.append(f"sel:{want}")
            model_jobs.append((inp, lines, real))
    # ---- model answers (several driver processes)
    if drivers:
        chunks = [model_jobs[i::len(drivers)] for i in range(len(drivers))]

        def ask(k):
            flat = [ln for _, lines, _ in chunks[k] for ln in lines]
            return drivers[k].batch(flat)
        with concurrent.futures.ThreadPoolExecutor(len(drivers)) as ex:
            answers = list(ex.map(ask, range(len(drivers))))
        for k, chunk in enumerate(chunks):
            pos = 0
            for inp, lines, real in chunk:
                for ln, r in zip(lines, real):
                    a = answers[k][pos]
                    pos += 1
                    op = ln.split(" ", 1)[0]
                    if op in ("vxexport", "vxparse", "vxthm"):
                        sv.note((inp["row"], hash(ln)))
                        sv.compare({**inp, "op": op}, _short_line(r), _short_line(a), f"{op}: mc56 (Vx) model differs from implementation / theorem instance false")
                    elif op == "tzcfg":
                        req = {"d": 2, "e": 0, "c": 1}.get(r[:1], -1)
                        mine = ";".join(t for t in a.split(";") if not t.startswith("loader="))
                        SF.compare({**inp, "op": op}, f"{r};req={req}" if req >= 0 else r, mine if req >= 0 else mine.split(";")[0],
                                   "tzcfg: the TrustZone setting load_from_config derives from the configuration keys differs from the model's tzOfConfig "
                                   "(GENERATED loaders), or is not what the keys request (req: tag requested per schema text)")
                    elif op == "mparse":
                        sm.note((inp["row"], hash(ln)))
                        sm.compare({**inp, "variant": ln[:0]}, _short_line(r), _short_line(a), "malformed image: parser verdict / settings differ between model and implementation")
                    elif op == "thm" and ln.endswith(" mcxc=1"):
                        st.note((inp["row"], hash(ln)))
                        st.compare(inp, r, " ".join(t for t in a.split() if t.startswith("rt=")), "mcxc image: parse(export) = canon is false in the compiled model")
                    elif op == "thm":
                        st.note((inp["row"], hash(ln)))
                        st.compare(inp, r, a, "a generated valid case does not satisfy the hypotheses (wf/cwf) or the conclusions (rt: parse(export)=canon, "
                                   "re: re-export, hdr: header words, tl: total length) of the C01 theorems in the compiled model")
                    elif op == "select":
                        sc.note((inp["row"], hash(ln)))
                        # the first class with the minimal mismatch: compare the *shape* selected (identical classes are interchangeable)
                        sc.compare(inp, r, a.replace("ok:", "sel:"), "parser's class selection differs from the model's selectClass")
                    else:
                        s.compare({**inp, "op": op}, _short_line(r), _short_line(a), f"{op}: model differs from implementation")


def has_ivt_row(mixins):
    return _has(mixins, "Ivt", "IvtZeroTotalLength")


def _short_line(x):
    """long canonical lines are compared through a digest + length + head so that evidence stays readable"""
    import hashlib
    if len(x) <= 200:
        return x
    return f"{x[:96]}…len={len(x)} blake2={hashlib.blake2b(x.encode(), digest_size=8).hexdigest()}"


def replay(ck, data):
    """Re-run the rows of the failing cases (same seed gives the same cases); fall back to the full run."""
    run(ck)
