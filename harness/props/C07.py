"""C07 - HAB image: layout round trip, CSF authenticates its blocks, encryption inverts.

Every case is built the way tests/nxpimage/test_nxpimage_hab.py does (a BD-style configuration dictionary ->
`HabContainer.load_from_config` -> `export()`), for every (family, boot device) of the database, application sizes
around the 16-byte / 4 KiB boundaries, +-DCD, +-XMCD, plain / authenticated / encrypted, SRK tables of 1..4 RSA or
P-256/384/521 keys with each source index, MAC 4..16, DEK 128/192/256.

Per case
  * correspondence: the bytes of the whole image, the digests of the two signed messages (taken from the CMS
    `messageDigest` attributes of the REAL signatures) and `HabContainer.parse` of the image are compared with the Lean
    model (`drv_c07`: build / parse); the model gets the commands as loaded from the configuration (before
    `update_csf`), the real CMS blobs as the output of the abstract signer, the DEK and the nonce;
  * oracle on the real code, independent of the model: IVT pointers / boot data against real positions and sizes,
    SPSDK parse -> same segments, an own walk of the CSF, CMS `SignedData` opened with asn1crypto, digests recomputed
    over exactly header+commands / exactly the listed blocks, signatures verified with `cryptography` under the
    installed CSF / IMG certificates, certificates verified under SRK[source index] taken from the SRK table bytes,
    SRK fuse hash recomputed and compared with `SrkTable.export_fuses()`, coverage / disjointness of the block lists,
    AES-CCM decryption of the listed blocks with DEK / nonce / MAC -> application;
  * the compiled independent ROM-side reader `Spec.HabRom.habCheck` applied to SPSDK's bytes.
"""
from __future__ import annotations

import hashlib
import os
import struct
from datetime import datetime, timezone

from vcore import REPO, Infra, hexs, pyres

GENERATED = ["HabConsts", "HabFuns"]
REPO_PKI = str(REPO / "tests" / "nxpimage" / "data" / "hab" / "export" / "keys")
TS = "16/05/2023 12:34:08"


# ====================================================================================================== PKI
class Pki:
    """SRK -> CSF/IMG trees: RSA (keys re-used from the repository's test PKI, certificates issued here so that the chain
    is known by construction) and P-256/384/521 (keys derived from the run's PRNG)."""

    def __init__(self, rng, scratch, kinds):
        from cryptography.hazmat.primitives import serialization
        self.dir = os.path.join(scratch, "pki")
        os.makedirs(self.dir, exist_ok=True)
        self.rng = rng
        self.trees = {}
        self.ser = serialization
        for kind in kinds:
            self.trees[kind] = self._tree(kind)

    def _rsa(self, name):
        with open(os.path.join(REPO_PKI, name + "_key.pem"), "rb") as f:
            return self.ser.load_pem_private_key(f.read(), None)

    def _ec(self, curve):
        from cryptography.hazmat.primitives.asymmetric import ec
        c = {"p256": ec.SECP256R1(), "p384": ec.SECP384R1(), "p521": ec.SECP521R1()}[curve]
        return ec.derive_private_key(self.rng.getrandbits(c.key_size - 8) + 2, c)

    def _cert(self, subject, pub, issuer, issuer_key, serial, ca):
        from cryptography import x509
        from cryptography.hazmat.primitives import hashes
        from cryptography.x509.oid import NameOID
        n = lambda s: x509.Name([x509.NameAttribute(NameOID.COMMON_NAME, s)])  # noqa: E731
        b = (x509.CertificateBuilder().subject_name(n(subject)).issuer_name(n(issuer)).public_key(pub)
             .serial_number(serial).not_valid_before(datetime(2020, 1, 1, tzinfo=timezone.utc))
             .not_valid_after(datetime(2040, 1, 1, tzinfo=timezone.utc))
             .add_extension(x509.BasicConstraints(ca=ca, path_length=None), critical=True))
        if ca:
            b = b.add_extension(x509.KeyUsage(digital_signature=False, content_commitment=False, key_encipherment=False,
                                              data_encipherment=False, key_agreement=False, key_cert_sign=True, crl_sign=True,
                                              encipher_only=False, decipher_only=False), critical=True)
        return b.sign(issuer_key, hashes.SHA256())

    def _tree(self, kind):
        if kind == "rsa4096":
            srk = [self._rsa(f"SRK{i}_sha256_4096_65537_v3_usr") for i in range(1, 5)]
            leaf = lambda n, i: self._rsa(f"{n}{i}_1_sha256_2048_65537_v3_usr")  # noqa: E731
        elif kind == "rsa2048":
            srk = [self._rsa(f"{n}_1_sha256_2048_65537_v3_usr") for n in ("CSF5", "CSF6", "IMG5", "IMG6")]
            leaf = lambda n, i: self._rsa(f"{n}{i}_1_sha256_2048_65537_v3_usr")  # noqa: E731
        else:
            srk = [self._ec(kind) for _ in range(4)]
            leaf = lambda n, i: self._ec(kind)  # noqa: E731
        out = []
        for i, sk in enumerate(srk, 1):
            ca_name = f"SRK{i}_{kind}_ca"
            ca = self._cert(ca_name, sk.public_key(), ca_name, sk, 0x1000 + i, True)
            ent = {"srk_key": sk, "srk_cert": self._w(f"crts/{kind}_SRK{i}_crt.pem", ca.public_bytes(self.ser.Encoding.PEM)),
                   "srk_der": ca.public_bytes(self.ser.Encoding.DER),
                   "srk_keyfile": self._w(f"keys/{kind}_SRK{i}_key.pem", sk.private_bytes(
                       self.ser.Encoding.PEM, self.ser.PrivateFormat.PKCS8, self.ser.NoEncryption()))}
            for n in ("CSF", "IMG"):
                k = leaf(n, i)
                c = self._cert(f"{n}{i}_1_{kind}_usr", k.public_key(), ca_name, sk, 0x2000 + 16 * i + (n == "IMG"), False)
                ent[n.lower() + "_cert"] = self._w(f"crts/{kind}_{n}{i}_1_crt.pem", c.public_bytes(self.ser.Encoding.PEM))
                ent[n.lower() + "_key"] = self._w(f"keys/{kind}_{n}{i}_1_key.pem", k.private_bytes(
                    self.ser.Encoding.PEM, self.ser.PrivateFormat.PKCS8, self.ser.NoEncryption()))
                ent[n.lower() + "_der"] = c.public_bytes(self.ser.Encoding.DER)
            out.append(ent)
        return out

    def _w(self, rel, data):
        p = os.path.join(self.dir, rel)
        os.makedirs(os.path.dirname(p), exist_ok=True)
        with open(p, "wb") as f:
            f.write(data)
        return p

    def srk_table(self, kind, nkeys):
        """SRK table of the first `nkeys` SRK certificates, built with SPSDK's own classes (as `nxpimage hab srk-table`)."""
        from spsdk.crypto.certificate import Certificate
        from spsdk.image.secret import SrkItem, SrkTable
        t = SrkTable(version=0x40)
        for ent in self.trees[kind][:nkeys]:
            t.append(SrkItem.from_certificate(Certificate.load(ent["srk_cert"])))
        return t


# ====================================================================================================== case generation
def sec(i, **kw):
    return {"section_id": i, "options": [{k: v} for k, v in kw.items()], "commands": []}


def gen_app(rng, n, base):
    """application bytes with a Cortex-M looking vector table (parse finds the application by its reset vector)"""
    b = bytearray(rng.getrandbits(8) for _ in range(n))
    if n >= 8:
        b[0:4] = struct.pack("<I", 0x20000000 + 4 * rng.randrange(0x8000))
        rv = base + rng.randrange(8, n)
        b[4:8] = struct.pack("<I", rv if rv % 2 else rv - 1)
    return bytes(b)


def gen_dcd(rng, maxlen):
    """a DCD segment built with SPSDK's classes (Write Data / Check Data / NOP), <= maxlen bytes"""
    from spsdk.image.commands import CmdCheckData, CmdNop, CmdWriteData, EnumCheckOps, EnumWriteOps
    from spsdk.image.segments import SegDCD
    d = SegDCD(enabled=True)
    budget = rng.choice([16, 40, 64, 0xC0 - 8, maxlen])
    budget = min(budget, maxlen)
    while True:
        r = rng.random()
        if r < 0.6:
            c = CmdWriteData(ops=rng.choice(list(EnumWriteOps)), data=[(0x400F_C000 + 4 * rng.randrange(64), rng.getrandbits(32))
                                                                        for _ in range(rng.randint(1, 6))])
        elif r < 0.85:
            c = CmdCheckData(ops=rng.choice(list(EnumCheckOps)), address=0x400D_8000 + 4 * rng.randrange(64), mask=rng.getrandbits(32),
                             count=rng.choice([None, 5]))
        else:
            c = CmdNop()
        if d.size + c.size > budget:
            break
        d.append(c)
    return d.export()


def gen_xmcd(rng):
    n = rng.choice([4, 4, 8, 12, 256, 508])
    size = 4 + n
    iface = rng.choice([0, 1])
    inst = rng.choice([0, 0, 1, 2])
    typ = rng.choice([0, 1])
    return bytes([size & 0xFF, (typ << 4) | (size >> 8), (iface << 4) | inst, 0xC0]) + bytes(rng.getrandbits(8) for _ in range(n))


APP_SIZES = [16, 4095, 4096, 17, 31, 32, 4097, 8192 - 1, 100]


def gen_case(rng, pki, devices, i, big):
    fam, dev, ivt_db, ils_db = devices[i % len(devices)]
    mode = ("plain", "auth", "enc")[(i // len(devices) + i) % 3] if i < 3 * len(devices) else rng.choice(["plain", "auth", "auth", "enc", "enc"])
    explicit = rng.random() < 0.25
    if explicit:
        ivt, ils = rng.choice([(0, 0x400), (0x400, 0x1000), (0x1000, 0x2000), (0x400, 0x2000), (0, 0x1000), (0, 0x100)])
    else:
        ivt, ils = ivt_db, ils_db
    start = rng.choice([0x30000000, 0x60000000, 0x20200000, 0x80000000, 0x1000, 0x2024FC00 & ~0xFFF, 0x70000000 + 0x1000 * rng.randrange(16)])
    n = APP_SIZES[i % len(APP_SIZES)] if rng.random() < 0.6 else rng.randrange(16, big)
    app = gen_app(rng, n, start + ils)
    c = {"i": i, "family": fam, "dev": dev, "explicit": explicit, "ivt": ivt, "ils": ils, "start": start, "mode": mode,
         "app": app, "entry": None,
         "dcd": None, "xmcd": None, "version": rng.choice(["4.0", "4.1", "4.2", "4.3", "4.5"])}
    rv = struct.unpack_from("<I", app, 4)[0]
    r = rng.random()
    if r < 0.25:       # explicit entry point near the reset vector (AppHabSegment.parse accepts a vector in [entry-0x400, entry+len))
        e = rv + rng.choice([0, 0, 2, 0x3F0, -2])
        c["entry"] = e if start + ils <= e < start + ils + n else rv   # the entry point stays inside the application
    elif r < 0.29:     # anywhere in the application: parse may not find the application (known finding)
        c["entry"] = start + ils + rng.randrange(0, n)
    room = ils - ivt - 0x40
    r = rng.random()
    if r < 0.3 and room >= 16:
        c["dcd"] = gen_dcd(rng, min(room, 0x3C0 if rng.random() < 0.2 else 0xB8))
    elif r < 0.55 and room >= 16:
        x = gen_xmcd(rng)
        if len(x) <= min(room, 0xC0) or (len(x) <= room and rng.random() < 0.3):
            c["xmcd"] = x
    if mode != "plain":
        kind = rng.choice(list(pki.trees))
        nkeys = rng.randint(1, 4)
        c.update(kind=kind, nkeys=nkeys, src=rng.randrange(nkeys), img_slot=rng.choice([2, 2, 3, 4, 5]),
                 engine=rng.choice(["ANY", "ANY", "DCP", "CAAM", "SW"]), extra=rng.choice(["", "", "unlock_snvs", "unlock_ocotp", "unlock_caam", "set_engine"]),
                 nocak=(mode == "auth" and rng.random() < 0.15),
                 keyloc_csf=rng.choice(KEYLOCS), keyloc_img=rng.choice(KEYLOCS))
    if mode == "enc":
        c.update(mac=rng.choice([4, 6, 8, 10, 12, 14, 16, 16]), keybits=rng.choice([128, 192, 256]),
                 dek=bytes(rng.getrandbits(8) for _ in range(32)), key_slot=rng.randrange(4), kek=rng.choice([0, 2, 3]),
                 nonce=None if rng.random() < 0.5 else bytes(rng.getrandbits(8) for _ in range(rng.choice([13, 13, 12, 11]))))
        c["dek"] = c["dek"][:c["keybits"] // 8]
    return c


KEYLOCS = ("file", "provider", "auto")   # *_PrivateKeyFile / *_SignProvider "type=file;file_path=…" / located from crts/…_crt.pem -> keys/…_key.pem


def case_id(c):
    """what identifies a case (replay key / distinctness): everything except the random payload bytes"""
    d = {k: v for k, v in c.items() if k not in ("app", "dcd", "xmcd", "dek", "nonce")}
    d.update(app_len=len(c["app"]), app_sha=hashlib.sha256(c["app"]).hexdigest()[:12], dcd=len(c["dcd"]) if c["dcd"] else None,
             xmcd=c["xmcd"].hex()[:16] if c["xmcd"] else None, xmcd_len=len(c["xmcd"]) if c["xmcd"] else None,
             nonce=len(c["nonce"]) if c.get("nonce") else None)
    return d


def make_config(c, pki, wd):
    """the configuration dictionary in the structure the BD parser produces (what load_from_config consumes)"""
    os.makedirs(wd, exist_ok=True)

    def w(name, data):
        p = os.path.join(wd, name)
        with open(p, "wb") as f:
            f.write(data)
        return p

    flags = {"plain": 0, "auth": 8, "enc": 0xC}[c["mode"]]
    o = {"flags": flags, "startAddress": c["start"], "signatureTimestamp": TS}
    if c["explicit"]:
        o.update(ivtOffset=c["ivt"], initialLoadSize=c["ils"])
    else:
        o.update(family=c["family"], bootDevice=c["dev"])
    if c["entry"] is not None:
        o["entryPointAddress"] = c["entry"]
    if c["dcd"]:
        o["DCDFilePath"] = w("dcd.bin", c["dcd"])
    if c["xmcd"]:
        o["XMCDFilePath"] = w("xmcd.bin", c["xmcd"])
    s = []

    def keyparam(prefix, path, loc):
        """how the private key reaches the command: explicit file, signature provider string, or nothing (legacy CST convention: the key is
        located from the certificate path, crts/<name>_crt.pem -> keys/<name>_key.pem; the PKI files are laid out that way)"""
        if loc == "provider":
            return {prefix + "_SignProvider": f"type=file;file_path={path}"}
        if loc == "auto":
            return {}
        return {prefix + "_PrivateKeyFile": path}

    if c["mode"] != "plain":
        ent = pki.trees[c["kind"]][c["src"]]
        table = pki.srk_table(c["kind"], c["nkeys"])
        c["_fuses"] = table.export_fuses()
        s += [sec(20, Header_Version=c["version"], Header_HashAlgorithm="sha256", Header_Engine=c["engine"], Header_EngineConfiguration=0,
                  Header_CertificateFormat="x509", Header_SignatureFormat="CMS"),
              sec(21, InstallSRK_Table=w("srk_table.bin", table.export()), InstallSRK_SourceIndex=c["src"])]
        if c.get("nocak"):   # HAB4 fast authentication: the SRK itself signs the CSF and the image
            s += [sec(23, InstallNOCAK_File=ent["srk_cert"], InstallNOCAK_CertificateFormat="x509"),
                  sec(24, **keyparam("AuthenticateCsf", ent["srk_keyfile"], c.get("keyloc_csf", "file")))]
        else:
            s += [sec(22, InstallCSFK_File=ent["csf_cert"], InstallCSFK_CertificateFormat="x509"),
                  sec(24, **keyparam("AuthenticateCsf", ent["csf_key"], c.get("keyloc_csf", "file")))]
        if c["extra"] == "unlock_snvs":
            s.append(sec(33, Unlock_Engine="SNVS", Unlock_features="ZMK WRITE"))
        elif c["extra"] == "unlock_ocotp":
            s.append(sec(33, Unlock_Engine="OCOTP", Unlock_features="JTAG, SRK REVOKE", Unlock_UID="0x01, 0x23, 0x45, 0x67, 0x89, 0xab, 0xcd, 0xef"))
        elif c["extra"] == "unlock_caam":
            s.append(sec(33, Unlock_Engine="CAAM", Unlock_features="RNG"))
        elif c["extra"] == "set_engine":
            s.append(sec(31, SetEngine_HashAlgorithm="sha256", SetEngine_Engine="DCP", SetEngine_EngineConfiguration=0))
        if c.get("nocak"):
            s += [sec(26, AuthenticateData_VerificationIndex=0, AuthenticateData_Engine=c["engine"], AuthenticateData_EngineConfiguration=0,
                      **keyparam("AuthenticateData", ent["srk_keyfile"], c.get("keyloc_img", "file")))]
        else:
            s += [sec(25, InstallKey_File=ent["img_cert"], InstallKey_VerificationIndex=0, InstallKey_TargetIndex=c["img_slot"]),
                  sec(26, AuthenticateData_VerificationIndex=c["img_slot"], AuthenticateData_Engine=c["engine"], AuthenticateData_EngineConfiguration=0,
                      **keyparam("AuthenticateData", ent["img_key"], c.get("keyloc_img", "file")))]
    if c["mode"] == "enc":
        d = {"Decrypt_Engine": "ANY", "Decrypt_EngineConfiguration": "0", "Decrypt_VerifyIndex": c["key_slot"], "Decrypt_MacBytes": c["mac"]}
        if c["nonce"]:
            d["Decrypt_Nonce"] = w("nonce.bin", c["nonce"])
        s += [sec(27, SecretKey_Name=w("dek.bin", c["dek"]), SecretKey_Length=c["keybits"], SecretKey_VerifyIndex=c["kek"],
                  SecretKey_TargetIndex=c["key_slot"], SecretKey_ReuseDek=1), sec(28, **d)]
    return {"options": o, "sources": {"elfFile": w("app.bin", c["app"])}, "sections": s}


# ====================================================================================================== independent readers
def walk_csf(csf):
    """own reader of a CSF: (header length, version, commands).  commands: dicts with tag and fields."""
    tag, length, ver = struct.unpack_from(">BHB", csf, 0)
    assert tag == 0xD4, f"CSF tag {tag:#x}"
    cmds, off = [], 4
    while off < length:
        t, ln, par = struct.unpack_from(">BHB", csf, off)
        assert ln >= 4 and ln % 4 == 0, f"command length {ln}"
        d = {"tag": t, "len": ln, "par": par, "off": off, "raw": csf[off:off + ln]}
        if t == 0xBE:
            d["proto"], d["alg"], d["src"], d["tgt"], d["loc"] = struct.unpack_from(">4BL", csf, off + 4)
        elif t == 0xCA:
            d["key"], d["proto"], d["eng"], d["cfg"], d["loc"] = struct.unpack_from(">4BL", csf, off + 4)
            d["blocks"] = [struct.unpack_from(">2L", csf, off + 12 + 8 * k) for k in range((ln - 12) // 8)]
        cmds.append(d)
        off += ln
    return length, ver, cmds


def blob(csf, loc):
    t, ln, ver = struct.unpack_from(">BHB", csf, loc)
    return t, ver, csf[loc:loc + ln]


def srk_keys(table):
    """public keys of the SRK table records, read from the bytes (not with SPSDK): [(record bytes, key object)]"""
    from cryptography.hazmat.primitives.asymmetric import ec, rsa
    t, ln, _ = struct.unpack_from(">BHB", table, 0)
    assert t == 0xD7
    out, off = [], 4
    while off < ln:
        rt, rl, alg = struct.unpack_from(">BHB", table, off)
        rec = table[off:off + rl]
        assert rt == 0xE1, f"SRK record tag {rt:#x}"
        if alg == 0x21:
            ml, el = struct.unpack_from(">2H", rec, 8)
            n = int.from_bytes(rec[12:12 + ml], "big")
            e = int.from_bytes(rec[12 + ml:12 + ml + el], "big")
            key = rsa.RSAPublicNumbers(e, n).public_key()
        elif alg == 0x27:
            curve = {0x4B: ec.SECP256R1(), 0x4D: ec.SECP384R1(), 0x4E: ec.SECP521R1()}[rec[8]]
            bits = struct.unpack_from(">H", rec, 10)[0]
            cl = (bits + 7) // 8
            x = int.from_bytes(rec[12:12 + cl], "big")
            y = int.from_bytes(rec[12 + cl:12 + 2 * cl], "big")
            key = ec.EllipticCurvePublicNumbers(x, y, curve).public_key()
        else:
            raise AssertionError(f"SRK algorithm {alg:#x}")
        out.append((rec, key, rec[7]))
        off += rl
    return out


def verify_with(key, sig, data, hash_alg=None):
    from cryptography.exceptions import InvalidSignature
    from cryptography.hazmat.primitives import hashes
    from cryptography.hazmat.primitives.asymmetric import ec, padding, rsa
    h = hash_alg or hashes.SHA256()
    try:
        if isinstance(key, rsa.RSAPublicKey):
            key.verify(sig, data, padding.PKCS1v15(), h)
        else:
            key.verify(sig, data, ec.ECDSA(h))
        return True
    except InvalidSignature:
        return False


def open_cms(sig_blob_data, cert_der):
    """-> (messageDigest, signature ok under the certificate's key, signer id matches the certificate, reason)"""
    from asn1crypto import cms
    from cryptography import x509
    ci = cms.ContentInfo.load(sig_blob_data)
    if ci["content_type"].native != "signed_data":
        return None, False, False, "not SignedData"
    sd = ci["content"]
    if len(sd["signer_infos"]) != 1:
        return None, False, False, "signer infos"
    si = sd["signer_infos"][0]
    from cryptography.hazmat.primitives import hashes
    declared = si["digest_algorithm"]["algorithm"].native
    if declared != "sha256":          # HAB4 CSFs are SHA-256 only (Header_HashAlgorithm / Install Key hash algorithm 0x17)
        return None, False, False, f"digest algorithm {declared}"
    sig_alg = si["signature_algorithm"]["algorithm"].native
    if sig_alg not in ("sha256_rsa", "rsassa_pkcs1v15", "sha256_ecdsa"):
        return None, False, False, f"signature algorithm {sig_alg} does not match the declared digest {declared}"
    if {a["algorithm"].native for a in sd["digest_algorithms"]} != {declared}:
        return None, False, False, "digestAlgorithms of the SignedData differ from the signer's digest algorithm"
    attrs = si["signed_attrs"]
    md = None
    ctype = None
    for a in attrs:
        if a["type"].native == "message_digest":
            md = a["values"][0].native
        if a["type"].native == "content_type":
            ctype = a["values"][0].native
    raw = attrs.dump()
    to_verify = b"\x31" + raw[1:]  # signedAttrs are signed with the universal SET OF tag (RFC 5652 5.4)
    cert = x509.load_der_x509_certificate(cert_der)
    # the signature must have been made with the DECLARED digest algorithm (a verifier hashes the signed attributes with it)
    ok = verify_with(cert.public_key(), si["signature"].native, to_verify, hashes.SHA256())
    made_with = "sha256" if ok else next((n for n, h in (("sha384", hashes.SHA384()), ("sha512", hashes.SHA512()), ("sha1", hashes.SHA1()))
                                          if verify_with(cert.public_key(), si["signature"].native, to_verify, h)), "?")
    sid = si["sid"].chosen
    sid_ok = sid["serial_number"].native == cert.serial_number and sid["issuer"].dump() == cert.issuer.public_bytes()
    enc = sd["encap_content_info"]
    detached = enc["content"].native is None and enc["content_type"].native == "data" and ctype == "data"
    return md, ok, sid_ok and detached, "" if ok else f"declared {declared}, signature made with {made_with}"


# ====================================================================================================== one case
def pre_commands(cfg, search_paths=None):
    """commands as loaded from the configuration, before update_csf: [(command bytes, data block bytes or None)]"""
    from spsdk.image.hab.hab_config import HabConfig
    from spsdk.image.hab.segments import CsfHabSegment
    hc = HabConfig.load_from_config(cfg, search_paths)
    pre = CsfHabSegment.load_from_config(hc, search_paths)
    out = []
    for cmd in pre.segment.commands:
        ref = cmd.cmd_data_reference if cmd.needs_cmd_data_reference else None
        out.append((cmd.export(), ref.export() if ref is not None else None))
    return out, pre.segment.version


def canon_parsed(p):
    from spsdk.image.hab.segments import HabSegment
    segs = []
    order = [("ivt", HabSegment.IVT), ("bdt", HabSegment.BDT), ("dcd", HabSegment.DCD), ("xmcd", HabSegment.XMCD), ("csf", HabSegment.CSF), ("app", HabSegment.APP)]
    for name, e in order:
        s = p.get_segment(e)
        if s is not None:
            segs.append(f"{name}@{s.offset}={hexs(s.export())}")
    return f"ok:{p.flags},{p.start_address},{p.ivt_offset}|" + "|".join(segs)


def run_case(ck, s, drv, c, pki, wd, reqs):
    from spsdk.image.hab.hab_container import HabContainer
    cid = case_id(c)
    cfg = make_config(c, pki, wd)
    cls = f"{c['mode']}" + ("+nocak" if c.get("nocak") else "") + ("+dcd" if c["dcd"] else "") + ("+xmcd" if c["xmcd"] else "")
    s.note(cid, cls=cls)
    r = pyres(HabContainer.load_from_config, cfg)
    if r[0] != "ok":
        s.expect(False, cid, "load_from_config raised on a valid configuration", r)
        return
    hab = r[1]
    ex = pyres(hab.export)
    pad = pyres(hab.export_padding)
    if ex[0] != "ok" or pad[0] != "ok":
        s.expect(False, cid, "export raised", (ex[0], pad[0]))
        return
    img, padded = ex[1], pad[1]
    ivt_off, ils, start = c["ivt"], c["ils"], c["start"]
    auth, enc = c["mode"] != "plain", c["mode"] == "enc"
    app16 = c["app"] + bytes(-len(c["app"]) % 16) if auth else c["app"]
    app_off = ils - ivt_off
    image_len = ils + len(c["app"])
    csf_abs = (image_len + (16 - image_len % 16) + 0xFFF) // 0x1000 * 0x1000
    csf_off = csf_abs - ivt_off

    # ------------------------------------------------------------------ oracle 1: pointers, positions, sizes
    s.expect(padded == bytes(ivt_off) + img, cid, "export_padding() is not ivt_offset zero bytes + export()")
    hd = struct.unpack_from(">BHB", img, 0)
    e_app, _r1, e_dcd, e_bdt, e_self, e_csf, _r2 = struct.unpack_from("<7L", img, 4)
    b_start, b_len, b_plugin = struct.unpack_from("<3L", img, 32)
    want_entry = c["entry"] if c["entry"] is not None else struct.unpack_from("<I", c["app"], 4)[0]
    s.expect(hd[0] == 0xD1 and hd[1] == 32 and hd[2] == 0x40, cid, "IVT header", hd)
    s.expect(e_self == start + ivt_off, cid, "IVT self pointer is not start address + IVT offset", e_self, start + ivt_off)
    s.expect(e_bdt == e_self + 32, cid, "IVT boot-data pointer is not the position of the boot data", e_bdt, e_self + 32)
    s.expect(e_app == want_entry, cid, "IVT entry point", e_app, want_entry)
    s.expect(b_start == start and b_plugin == 0, cid, "boot data start / plugin", (b_start, b_plugin), (start, 0))
    s.expect(b_len == len(padded) + (0x200 if enc else 0), cid, "boot-data length is not the real size of the image (+ key blob when encrypted)",
             b_len, len(padded) + (0x200 if enc else 0))
    if c["dcd"]:
        s.expect(e_dcd == e_self + 64 and img[64:64 + len(c["dcd"])] == c["dcd"], cid, "IVT DCD pointer does not designate the DCD bytes", e_dcd)
    else:
        s.expect(e_dcd == 0, cid, "IVT DCD pointer set without DCD", e_dcd)
    if c["xmcd"]:
        s.expect(img[64:64 + len(c["xmcd"])] == c["xmcd"], cid, "XMCD block is not at IVT+0x40 with the bytes of the XMCD file",
                 img[64:72].hex(), c["xmcd"][:8].hex())
    if not enc:
        s.expect(img[app_off:app_off + len(app16)] == app16, cid, "application bytes are not at initial_load_size - ivt_offset")
    if auth:
        s.expect(e_csf == start + csf_abs and len(img) == csf_off + 0x2000 and img[csf_off] == 0xD4, cid,
                 "IVT CSF pointer does not designate the CSF / CSF does not end the image", (e_csf, len(img)), (start + csf_abs, csf_off + 0x2000))
        s.expect(not any(img[app_off + len(app16):csf_off]), cid, "non-zero bytes between application and CSF")
    else:
        s.expect(e_csf == 0 and len(img) == app_off + len(c["app"]), cid, "plain image: CSF pointer / length", (e_csf, len(img)))

    # ------------------------------------------------------------------ oracle 2: SPSDK parse gives the same segments
    pr = pyres(HabContainer.parse, img)
    # signed / encrypted images: the application is located through the CSF block list; unsigned images: reset-vector heuristic
    heuristic_ok = auth or app_heuristic_ok(img, e_app, app_off)
    fin = None if heuristic_ok else "C07-parse-app-offset-guess"
    if pr[0] != "ok":
        s.expect(False, cid, "HabContainer.parse raised on an image SPSDK built", pr, finding=fin)
        real_parse = pr[0]
    else:
        p = pr[1]
        cp = pyres(canon_parsed, p)
        real_parse = cp[1] if cp[0] == "ok" else cp[0]
        s.expect(p.start_address == start and p.ivt_offset == ivt_off and p.flags == {"plain": 0, "auth": 8, "enc": 0xC}[c["mode"]], cid,
                 "parse: start address / IVT offset / flags", (p.start_address, p.ivt_offset, p.flags))
        from spsdk.image.hab.segments import HabSegment
        for name, e in (("IVT", HabSegment.IVT), ("BDT", HabSegment.BDT), ("DCD", HabSegment.DCD), ("XMCD", HabSegment.XMCD), ("CSF", HabSegment.CSF)):
            a, b = hab.get_segment(e), p.get_segment(e)
            same = pyres(lambda: (a is None and b is None) or (a is not None and b is not None and a.export() == b.export() and a.offset == b.offset))
            s.expect(same == ("ok", True), cid, f"parse does not give back the {name} segment", None if b is None else (b.offset, same))
        pa = p.get_segment(HabSegment.APP)
        ha = hab.get_segment(HabSegment.APP)
        s.expect(pa is not None and pa.offset == app_off and pa.binary == ha.binary, cid,
                 "parse does not give back the application segment (ciphertext when encrypted)", None if pa is None else (pa.offset, len(pa.binary)),
                 (app_off, len(ha.binary)), finding=fin)
        if heuristic_ok:
            s.expect(pyres(p.export) == ("ok", img), cid, "parse(export).export() differs from export()")

    # ------------------------------------------------------------------ oracle 3: CSF, signatures, coverage, decryption
    sig_csf = sig_data = b""
    md_csf = md_data = None
    if auth:
        try:
            sig_csf, sig_data, md_csf, md_data = check_csf(s, cid, c, img, csf_off, e_self, e_csf, app_off, app16, pki, hab, len(padded))
        except Exception as exc:  # noqa: BLE001  (own readers / cryptography / asn1crypto on bytes the real code produced)
            s.expect(False, cid, f"CSF of the exported image is not readable: {type(exc).__name__}: {exc}"[:300])

    # ------------------------------------------------------------------ model requests
    if drv is None:
        return
    hx = lambda b: "N" if b is None else hexs(b)  # noqa: E731
    if auth:
        pc = pyres(pre_commands, cfg)
        if pc[0] != "ok":
            s.expect(False, cid, "CsfHabSegment.load_from_config raised", pc)
            return
        cmds, ver = pc[1]
        nonce = hab.csf_segment.nonce if enc else b""
    else:
        cmds, ver, nonce = [], 0x40, b""
    line = " ".join(["build", str({"plain": 0, "auth": 8, "enc": 0xC}[c["mode"]]), str(start), str(ivt_off), str(ils), str(e_app), hx(c["dcd"]), hx(c["xmcd"]),
                     hexs(c["app"]), str(ver), hexs(c.get("dek", b"")), hexs(nonce or b""), str(c.get("mac", 16)), hexs(sig_data), hexs(sig_csf)]
                    + [f"{hexs(cb)}:{hx(db)}" for cb, db in cmds])
    real = "ok:" + img.hex() + ";" + (md_data.hex() if md_data else hashlib.sha256(b"").hexdigest()) + ";" + \
           (md_csf.hex() if md_csf else hashlib.sha256(b"").hexdigest())
    reqs.append((cid, "build", line, (real, heuristic_ok, None if auth else app_heuristic_ok(img, e_app, app_off))))
    reqs.append((cid, "parse", "parse " + img.hex(), real_parse))
    reqs.append((cid, "check", f"check {img.hex()} {hexs(c['dek']) if enc else 'N'}", (c, img, csf_off, app16, md_csf, md_data)))


def app_heuristic_ok(img, entry, app_off):
    """independent statement of when AppHabSegment.parse can find the application: the first of the probed offsets whose
    second word is odd, non-zero and in [entry-0x400, entry+len(image)) is the real application offset"""
    for off in (0x100, 0x400, 0xC00, 0x1000, 0x2000):
        rv = int.from_bytes(img[off + 4:off + 8], "little")
        if rv != 0 and entry - 0x400 <= rv < entry + len(img) and rv % 2 == 1:
            return off == app_off
    return False


def check_csf(s, cid, c, img, csf_off, e_self, e_csf, app_off, app16, pki, hab, padded_len):
    from cryptography import x509
    from cryptography.hazmat.primitives.ciphers.aead import AESCCM
    from spsdk.image.secret import SrkTable
    enc = c["mode"] == "enc"
    csf = img[csf_off:csf_off + 0x2000]
    hdr_len, ver, cmds = walk_csf(csf)
    want_ver = int(c["version"].replace(".", ""), 16)
    s.expect(ver == want_ver, cid, "CSF header version", ver, want_ver)
    ins = [d for d in cmds if d["tag"] == 0xBE]
    aut = [d for d in cmds if d["tag"] == 0xCA]
    srk_cmd = next((d for d in ins if d["proto"] == 0x03), None)
    csfk_cmd = next((d for d in ins if d["proto"] == 0x09 and d["par"] == 2), None)
    imgk_cmd = next((d for d in ins if d["proto"] == 0x09 and d["par"] == 0), None)
    sk_cmd = next((d for d in ins if d["proto"] == 0xBB), None)
    a_csf = next((d for d in aut if d["proto"] == 0xC5 and not d["blocks"]), None)
    a_dat = next((d for d in aut if d["proto"] == 0xC5 and d["blocks"]), None)
    a_dec = next((d for d in aut if d["proto"] == 0xA3), None)
    fast = bool(c.get("nocak"))
    need = (srk_cmd, a_csf, a_dat) if fast else (srk_cmd, csfk_cmd, imgk_cmd, a_csf, a_dat)
    ok = s.expect(all(x is not None for x in need) and (a_dec is not None) == enc and (sk_cmd is not None) == enc
                  and (not fast or (csfk_cmd is None and imgk_cmd is None)),
                  cid, "CSF does not contain Install SRK / Install CSFK / Authenticate CSF / Install Key / Authenticate Data (/ Install Secret Key / Decrypt Data); "
                  "fast authentication: Install SRK / Authenticate CSF / Authenticate Data only", [(d["tag"], d.get("proto")) for d in cmds])
    if not ok:
        return b"", b"", None, None
    s.expect(srk_cmd["src"] == c["src"] and srk_cmd["tgt"] == 0 and srk_cmd["par"] == 0 and srk_cmd["alg"] == 0x17, cid, "Install SRK fields", srk_cmd["raw"].hex())
    s.expect(a_csf["key"] == 1 and a_csf["par"] == 0, cid, "Authenticate CSF must use key slot 1", a_csf["raw"].hex())
    if fast:
        s.expect(a_dat["key"] == 0 and a_dat["par"] == 0, cid, "fast authentication: Authenticate Data must use key index 0 (the SRK)", a_dat["raw"].hex())
    else:
        s.expect(csfk_cmd["src"] == 0 and csfk_cmd["tgt"] == 1, cid, "Install CSFK fields", csfk_cmd["raw"].hex())
        s.expect(imgk_cmd["src"] == 0 and imgk_cmd["tgt"] == c["img_slot"], cid, "Install Key fields", imgk_cmd["raw"].hex())
        s.expect(a_dat["key"] == c["img_slot"] and a_dat["par"] == 0, cid, "Authenticate Data must use the installed image key slot", a_dat["raw"].hex())
    order = [d["off"] for d in ((srk_cmd, a_csf, a_dat) if fast else (srk_cmd, csfk_cmd, a_csf, imgk_cmd, a_dat))]
    s.expect(order == sorted(order), cid, "CSF command order", order)
    # data references: behind the commands, aligned, disjoint, inside the CSF
    refs = []
    for d, tag in (((srk_cmd, 0xD7), (a_csf, 0xD8), (a_dat, 0xD8)) if fast else ((srk_cmd, 0xD7), (csfk_cmd, 0xD7), (a_csf, 0xD8), (imgk_cmd, 0xD7), (a_dat, 0xD8))) \
            + (((a_dec, 0xAC),) if enc else ()):
        t, bver, b = blob(csf, d["loc"])
        s.expect(t == tag and d["loc"] >= hdr_len and d["loc"] % 4 == 0 and d["loc"] + len(b) <= 0x2000, cid,
                 "a command's data reference does not designate a block of the right kind inside the CSF behind the commands", (d["raw"].hex(), t, len(b)))
        s.expect(bver == want_ver or tag == 0xD7 and d is srk_cmd, cid, "data block version", (tag, bver))
        refs.append((d["loc"], len(b)))
    refs.sort()
    s.expect(all(a + la <= b for (a, la), (b, _) in zip(refs, refs[1:])), cid, "command data blocks overlap", refs)
    s.expect(not any(csf[refs[-1][0] + refs[-1][1]:]), cid, "non-zero bytes behind the last data block of the CSF")
    # SRK table, fuses, chain
    table = blob(csf, srk_cmd["loc"])[2]
    keys = srk_keys(table)
    fuse = hashlib.sha256(b"".join(hashlib.sha256(rec).digest() for rec, _, _ in keys)).digest()
    rep = pyres(lambda: SrkTable.parse(table).export_fuses())
    s.expect(rep == ("ok", fuse) and fuse == c["_fuses"], cid, "SRK fuse value reported by SPSDK is not SHA-256 over the SHA-256 of the installed table's records",
             rep[1].hex() if rep[0] == "ok" else rep, fuse.hex())
    s.expect(len(keys) == c["nkeys"] and all(f == 0x80 for _, _, f in keys), cid, "SRK table records / CA flags", len(keys))
    ent = pki.trees[c["kind"]][c["src"]]
    srk_pub = keys[srk_cmd["src"]][1]
    s.expect(srk_pub.public_numbers() == ent["srk_key"].public_key().public_numbers(), cid, "SRK[source index] is not the selected root key")
    if fast:   # no certificate in the CSF: the signer is the SRK itself
        csf_cert = img_cert = ent["srk_der"]
        crt = x509.load_der_x509_certificate(csf_cert)
        s.expect(crt.public_key().public_numbers() == srk_pub.public_numbers(), cid, "fast authentication: signer certificate is not SRK[source index]")
    else:
        csf_cert = blob(csf, csfk_cmd["loc"])[2][4:]
        img_cert = blob(csf, imgk_cmd["loc"])[2][4:]
        s.expect(csf_cert == ent["csf_der"] and img_cert == ent["img_der"], cid, "installed certificates are not the configured ones (DER)")
        for name, der in (("CSF", csf_cert), ("IMG", img_cert)):
            crt = x509.load_der_x509_certificate(der)
            s.expect(verify_with(srk_pub, crt.signature, crt.tbs_certificate_bytes, crt.signature_hash_algorithm), cid,
                     f"the installed {name} certificate does not verify under SRK[source index]")
    # signatures
    sig_csf = blob(csf, a_csf["loc"])[2][4:]
    sig_dat = blob(csf, a_dat["loc"])[2][4:]
    md_csf, ok1, sid1, why1 = open_cms(sig_csf, csf_cert)
    md_dat, ok2, sid2, why2 = open_cms(sig_dat, img_cert)
    s.expect(ok1 and sid1, cid, "CMS signature of Authenticate CSF does not verify (declared digest algorithm, signed attributes) under the installed CSF certificate", (ok1, sid1, why1))
    s.expect(ok2 and sid2, cid, "CMS signature of Authenticate Data does not verify (declared digest algorithm, signed attributes) under the installed IMG certificate", (ok2, sid2, why2))
    s.expect(md_csf == hashlib.sha256(csf[:hdr_len]).digest(), cid, "Authenticate CSF signature is not over exactly CSF header + commands",
             md_csf.hex() if md_csf else None, hashlib.sha256(csf[:hdr_len]).hexdigest())
    blocks = [(a - e_self, ln) for a, ln in a_dat["blocks"]]
    s.expect(all(a >= e_self and a - e_self + ln <= csf_off for a, ln in a_dat["blocks"]), cid, "Authenticate Data block outside the image before the CSF", a_dat["blocks"])
    signed = b"".join(img[o:o + ln] for o, ln in blocks)
    s.expect(md_dat == hashlib.sha256(signed).digest(), cid, "Authenticate Data signature is not over exactly the listed blocks of the image",
             md_dat.hex() if md_dat else None, hashlib.sha256(signed).hexdigest())
    # coverage
    dblocks = [(a - e_self, ln) for a, ln in a_dec["blocks"]] if enc else []
    allb = sorted(blocks + dblocks)
    s.expect(all(a + la <= b for (a, la), (b, _) in zip(allb, allb[1:])), cid, "authenticated / decrypted blocks overlap", allb)

    def cov(off, ln):
        return ln == 0 or any(a <= off and off + ln <= a + la for a, la in allb)

    s.expect(cov(0, 64), cid, "IVT + boot data are not covered by the authenticated blocks", allb)
    if c["dcd"]:
        s.expect(cov(64, len(c["dcd"])), cid, "the DCD is not covered by the authenticated blocks", allb, (64, len(c["dcd"])))
    if c["xmcd"]:
        s.expect(cov(64, len(c["xmcd"])), cid, "the XMCD block is not covered by the authenticated blocks", allb, (64, len(c["xmcd"])))
    s.expect(cov(app_off, len(app16)), cid, "the application is not covered by the authenticated / decrypted blocks", allb, (app_off, len(app16)))
    if enc:
        s.expect(not any(o <= app_off < o + ln for o, ln in blocks), cid, "encrypted application also listed as plain authenticated block")
        t, _, mb = blob(csf, a_dec["loc"])
        nl, ml = mb[5], mb[7]
        nonce, mac = mb[8:8 + nl], mb[8 + nl:8 + nl + ml]
        s.expect(ml == c["mac"] and len(mb) == 8 + nl + ml, cid, "MAC block lengths", (nl, ml, len(mb)), c["mac"])
        if c["nonce"]:
            s.expect(nonce == c["nonce"], cid, "configured nonce not used")
        else:
            s.expect(7 <= nl <= 13 and sum(ln for _, ln in dblocks) < 256 ** (15 - nl), cid,
                     "generated nonce length is not a CCM nonce length whose length field can hold the encrypted size", nl)
        s.expect(a_dec["key"] == c["key_slot"] and sk_cmd["tgt"] == c["key_slot"] and sk_cmd["src"] == c["kek"] and sk_cmd["par"] == 1, cid,
                 "Install Secret Key / Decrypt Data key slots", (a_dec["key"], sk_cmd["raw"].hex()))
        s.expect(sk_cmd["loc"] == e_csf + 0x2000 and sk_cmd["loc"] == c["start"] + padded_len, cid, "DEK blob location is not directly behind the CSF", sk_cmd["loc"], e_csf + 0x2000)
        ct = b"".join(img[o:o + ln] for o, ln in dblocks)
        try:
            pt = AESCCM(c["dek"], tag_length=ml).decrypt(nonce, ct + mac, b"")
        except Exception as exc:  # noqa: BLE001
            pt = type(exc).__name__
        s.expect(pt == app16, cid, "AES-CCM decryption of the listed blocks with DEK / nonce / MAC does not restore the application",
                 pt if isinstance(pt, str) else hashlib.sha256(pt).hexdigest(), hashlib.sha256(app16).hexdigest())
    return sig_csf, sig_dat, md_csf, md_dat


def settle(ck, s, drv, reqs):
    """send the queued model requests, compare"""
    if drv is None or not reqs:
        return
    answers = drv.batch([r[2] for r in reqs])
    for (cid, kind, _line, real), ans in zip(reqs, answers):
        if kind == "build":
            real, visible, plain_vis = real
            got = ";".join(ans.split(";")[:3])
            if plain_vis is not None and ans.startswith("ok:") and ";vis=" in ans:
                s.compare((cid, "AppVisible"), "vis=" + ("true" if plain_vis else "false"), "vis=" + ans.split(";vis=")[1].split(";")[0],
                          "the decidable predicate AppVisible (hypothesis of hab_roundtrip_unsigned) differs from the reset-vector test evaluated on the real image")
            if ans.startswith("ok:") and ";shape=" in ans and isinstance(cid, dict) and cid.get("mode") in ("auth", "enc"):
                # the hypothesis GenCfg of theorem rom_accepts_general (decided by Model/HabGen.lean: genShape, sound by gen_shape_sound) holds for
                # the command list CsfHabSegment.load_from_config produced; expected shape from the configuration alone
                s.compare((cid, "GenCfg shape"), "shape=" + ("fast" if cid.get("nocak") else "std"), "shape=" + ans.split(";shape=")[1].split(";")[0],
                          "the loaded CSF command list is outside the shape theorem rom_accepts_general covers (standard chain / fast authentication with Set, Unlock, NOP in the gaps)")
            if visible and ans.startswith("ok:"):
                s.compare((cid, "model round trip"), "rt=true", ans.rsplit(";", 1)[-1], "model: parse (export cfg) differs from the expected segments (theorem hab_roundtrip_partial)")
            if got != real:
                # shorten: first differing offset
                a, b = got.split(";")[0], real.split(";")[0]
                k = next((i for i in range(min(len(a), len(b))) if a[i] != b[i]), min(len(a), len(b)))
                s.compare((cid, "build"), f"len={len(b)} diff@{max(0, (k - 3) // 2)} {b[max(0, k - 16):k + 48]} ; {real.split(';', 1)[1] if ';' in real else ''}",
                          f"len={len(a)} diff@{max(0, (k - 3) // 2)} {a[max(0, k - 16):k + 48]} ; {got.split(';', 1)[1] if ';' in got else got[:80]}",
                          "model image / signed-message digests differ from the implementation")
            else:
                s.compare((cid, "build"), "same", "same")
        elif kind == "parse":
            if ans != real:
                k = next((i for i in range(min(len(ans), len(real))) if ans[i] != real[i]), min(len(ans), len(real)))
                s.compare((cid, "parse"), real[:40] + f"…@{k}:" + real[max(0, k - 30):k + 40], ans[:40] + f"…@{k}:" + ans[max(0, k - 30):k + 40], "model parse differs from HabContainer.parse")
            else:
                s.compare((cid, "parse"), "same", "same")
        else:
            c, img, csf_off, app16, md_csf, md_data = real
            if ans.startswith("refused:"):
                s.expect(False, cid, "the independent ROM-side reader (Spec.HabRom.habCheck) refuses the image SPSDK built", ans[:300])
                continue
            try:
                f = dict(kv.split("=", 1) for kv in ans[3:].split(";")) if ans.startswith("ok:") else None
                fields = None if f is None else (f["msgcsf"], f["msgdata"], f["plain"])
            except (ValueError, KeyError):
                fields = None
            if fields is None:      # not an answer of habCheck at all (driver died / fault injected): a broken correspondence, not a finding
                s.compare((cid, "check"), "ok:… | refused:…", ans[:80], "the ROM-side reader gave no verdict")
                continue
            if c["mode"] != "plain":
                s.expect(fields[0] == (md_csf or b"").hex() and fields[1] == (md_data or b"").hex(), cid,
                         "digests of the messages the ROM-side reader derives differ from the messageDigest attributes of the CMS signatures",
                         (fields[0], fields[1]), ((md_csf or b"").hex(), (md_data or b"").hex()))
            if c["mode"] == "enc":
                s.expect(fields[2] == hashlib.sha256(app16).hexdigest(), cid, "ROM-side AES-CCM decryption does not restore the application", fields[2])


# ====================================================================================================== run
def cross_check_generated(ck):
    """generated tables vs live objects.  A mismatch means the extractor no longer reads the current source (e.g. after a respelling it does not
    understand): that is a broken correspondence (reported, exit 1 `no-failing-input-found` unless a failing input is found elsewhere), never a
    harness crash.  The device list the streams iterate comes from the LIVE database, so no stream depends on the generated table."""
    from spsdk.image.commands import CmdTag, EnumCertFormat, EnumEngine
    from spsdk.image.hab.segments import CsfHabSegment, IvtHabSegment, XmcdHabSegment
    from spsdk.image.header import SegTag
    from spsdk.image.images import BootImgRT
    from spsdk.image.segments import SegBDT, SegIVT2
    from spsdk.utils.database import DatabaseManager, get_db, get_families
    m = ck.generated_meta.get("HabConsts", {}) or {}
    sg = ck.stream("generated_tables", "tables of Generated/HabConsts.lean against the live objects: HAB device rows, SegTag / CmdTag / EnumCertFormat / "
                   "EnumEngine, sizes and offsets. non-trivial = every table / constant")
    live = []
    for fam in get_families(DatabaseManager.HAB):
        db = get_db(fam)
        for dev, v in db.get_dict(DatabaseManager.HAB, "mem_types").items():
            live.append([fam, dev, db.get_int(DatabaseManager.BOOTABLE_IMAGE, ["mem_types", dev, "segments", "hab_container"]), v["initial_load_size"]])
    live.sort()
    gen_rows = m.get("devices", [])
    gen_rows = sorted(gen_rows) if isinstance(gen_rows, list) else gen_rows
    sg.note("devices")
    sg.compare("devices", live, gen_rows, "generated HAB device table differs from the live database")
    for name, enum in (("segTags", SegTag), ("cmdTags", CmdTag), ("certFormats", EnumCertFormat), ("engines", EnumEngine)):
        livev = {k: v.tag for k, v in enum.__members__.items()}
        sg.note(name)
        sg.compare(name, livev, m.get(name), f"generated table {name} differs from the live enum")
    livec = {"ivtVersion": IvtHabSegment.IVT_VERSION, "xmcdSegOffset": XmcdHabSegment.OFFSET, "csfSize": CsfHabSegment.CSF_SIZE,
             "keyblobSize": CsfHabSegment.KEYBLOB_SIZE, "bdtSize": BootImgRT.BDT_SIZE, "ivt2Size": SegIVT2.SIZE, "bdtStructSize": SegBDT.SIZE}
    for k, v in livec.items():
        sg.note(k)
        sg.compare(k, v, m.get(k), f"generated constant {k} differs from the live value")
    return [tuple(r) for r in live]


def run(ck):
    # driver ops that evaluate Spec-only definitions (Spec/HabRom.lean imports Model/Misc byte helpers and Crypto only, never Model/Hab* or
    # Generated/*): their answers may feed s.expect(); every other op (build, parse, cmd, xmcd, nonce) is model / generated code -> s.compare() only
    ck.spec_ops = {"check"}
    ck.lean_obligations(generated=GENERATED)
    drv = ck.driver()
    rng = ck.rng
    scratch = os.environ["VERIF_SCRATCH"]
    devices = cross_check_generated(ck)
    ck.assume("CMS SignedData / X.509 encoding and RSA / ECDSA signing are third party (asn1crypto, cryptography/OpenSSL): in the model a signature is the output "
              "of an abstract signer; the real signatures are verified by the harness with cryptography directly (never through spsdk.crypto)",
              "BinaryImage placement (children at their offsets, zero fill) is property C16; the container model uses its closed form for non-overlapping segments",
              "DCD, SRK table and certificates are opaque blocks with a declared length in the model; the DCD files are built with SPSDK's own SegDCD (canonical form)",
              "AES block function of the model driver = Crypto.Aes (validated against cryptography by C09)",
              "configurations with both DCD and XMCD (both at IVT+0x40: SPSDK overlays them silently) and CSFs larger than CSF_SIZE are outside the modelled domain")
    kinds = ["rsa4096", "rsa2048", "p256", "p384", "p521"]
    pki = Pki(rng, scratch, kinds)
    n = ck.budget(len(devices) * 3 + 12, 2500)
    big = ck.budget(20000, 65536)
    s = ck.stream("images", f"{n} containers: every (family, boot device) of the database x plain/authenticated/encrypted first, then random; application sizes "
                  "{16, 17, 31, 32, 100, 4095, 4096, 4097, 8191, random}; DB or explicit IVT offset / initial load size; +-DCD, +-XMCD (interface 0/1, instance 0..2); "
                  f"SRK tables of 1..4 keys ({', '.join(kinds)}) with each source index; private keys of the CSF and the IMG signer given as file / "
                  "signature-provider string / located from the certificate path (crts/ -> keys/), all 9 combinations x every key kind first; image key slots 2..5; MAC 4..16; DEK 128/192/256; given / generated nonce; "
                  "optional Unlock / Set Engine commands. non-trivial = distinct configuration")
    reqs = []
    combos = [(k, a, b) for k in kinds for a in KEYLOCS for b in KEYLOCS]   # key kind x CSF key location x IMG key location: first signed cases
    for i in range(n):
        c = gen_case(rng, pki, devices, i, big)
        if c["mode"] != "plain" and combos:
            k, a, b = combos.pop(0)
            c.update(kind=k, keyloc_csf=a, keyloc_img=b)
        run_case(ck, s, drv, c, pki, os.path.join(scratch, "w"), reqs)
        if len(reqs) >= 60:
            settle(ck, s, drv, reqs)
            reqs = []
    settle(ck, s, drv, reqs)


    both_stream(ck, pki, devices, scratch)
    cli_stream(ck, pki, devices, scratch)
    side_streams(ck, drv)
    dcd_streams(ck, drv)
    oversize_stream(ck, pki, scratch)


SECTION_NAMES = {20: ("SEC_CSF_HEADER", "Header"), 21: ("SEC_CSF_INSTALL_SRK", "InstallSRK"), 22: ("SEC_CSF_INSTALL_CSFK", "InstallCSFK"),
                 23: ("SEC_CSF_INSTALL_NOCAK", "InstallNOCAK"), 24: ("SEC_CSF_AUTHENTICATE_CSF", "AuthenticateCSF"), 25: ("SEC_CSF_INSTALL_KEY", "InstallKey"),
                 26: ("SEC_CSF_AUTHENTICATE_DATA", "AuthenticateData"), 27: ("SEC_CSF_INSTALL_SECRET_KEY", "SecretKey"), 28: ("SEC_CSF_DECRYPT_DATA", "Decrypt"),
                 29: ("SEC_NOP", "NOP"), 30: ("SEC_SET_MID", "SetMid"), 31: ("SEC_SET_ENGINE", "SetEngine"), 32: ("SEC_INIT", "Init"), 33: ("SEC_UNLOCK", "Unlock")}


def to_bd(cfg):
    """the configuration dictionary as BD text (the command-file format of tests/nxpimage/data/hab)"""
    def val(v):
        return f'"{v}"' if isinstance(v, str) else (f"{v:#x}" if isinstance(v, int) and v > 9 else str(v))
    out = ["options {"] + [f"    {k} = {val(v)};" for k, v in cfg["options"].items()] + ["}", "", "sources {", "    elfFile = extern(0);", "}", "", "constants {"]
    out += [f"    {n} = {i};" for i, (n, _) in sorted(SECTION_NAMES.items())] + ["}", ""]
    for sct in cfg["sections"]:
        opts = [(k, v) for d in sct["options"] for k, v in d.items()]
        out.append(f"section ({SECTION_NAMES[sct['section_id']][0]};" + (" " if opts else "") + ",\n    ".join(f"{k}={val(v)}" for k, v in opts) + ")\n{\n}\n")
    return "\n".join(out)


def to_yaml(cfg):
    """the same configuration in the flat YAML structure (`nxpimage hab convert` output)"""
    import yaml
    doc = {"inputImageFile": cfg["sources"]["elfFile"], "options": dict(cfg["options"]),
           "sections": [{SECTION_NAMES[sct["section_id"]][1]: {k: v for d in sct["options"] for k, v in d.items()}} for sct in cfg["sections"]]}
    return yaml.safe_dump(doc, sort_keys=False)


def cli_stream(ck, pki, devices, scratch):
    """the glue around the builder: BD text / YAML command file -> `nxpimage hab export` -> `nxpimage hab parse`, through click"""
    from click.testing import CliRunner
    from spsdk.apps import nxpimage
    from spsdk.image.hab.hab_container import HabContainer
    from spsdk.image.hab.segments import SEGMENTS_MAPPING
    rng = ck.rng
    sc = ck.stream("cli", "command files written as BD text and as YAML (plain / RSA-authenticated / RSA-encrypted with a given nonce, so the output is deterministic): "
                   "`nxpimage hab export` writes byte for byte what HabContainer.load_from_config(dict).export() gives, and `nxpimage hab parse` writes the builder's "
                   "segments. non-trivial = distinct configuration x file format")
    runner = CliRunner()
    done = 0
    for i in range(400):
        if done >= ck.budget(8, 60):
            break
        c = gen_case(rng, pki, devices, rng.randrange(3 * len(devices)), 6000)
        if c["mode"] != "plain" and not c["kind"].startswith("rsa"):
            continue
        if c["mode"] == "enc" and not c["nonce"]:
            c["nonce"] = bytes(rng.getrandbits(8) for _ in range(13))
        if c["mode"] != "plain":
            c["img_slot"] = rng.choice([2, 4])       # values the YAML schema enumerates
        if c["mode"] == "enc":
            c["key_slot"] = rng.choice([0, 1, 2])    # schema: SecretKey_TargetIndex <0..3>, Decrypt_VerifyIndex <0,1,2,4>
        fmt = "bd" if done % 2 == 0 else "yaml"
        wd = os.path.join(scratch, f"cli{done}")
        cfg = make_config(c, pki, wd)
        cid = dict(case_id(c), fmt=fmt)
        sc.note(cid, cls=f"{fmt}:{c['mode']}")
        done += 1
        ref = pyres(lambda: HabContainer.load_from_config(cfg))
        if ref[0] != "ok":
            sc.expect(False, cid, "load_from_config raised on a valid configuration", ref)
            continue
        hab = ref[1]
        img = hab.export()
        cmd_file = os.path.join(wd, "config." + fmt)
        with open(cmd_file, "w", encoding="utf-8") as f:
            f.write(to_bd(cfg) if fmt == "bd" else to_yaml(cfg))
        out = os.path.join(wd, "out.bin")
        args = ["hab", "export", "-c", cmd_file, "-o", out] + ([cfg["sources"]["elfFile"]] if fmt == "bd" else [])
        res = runner.invoke(nxpimage.main, args, catch_exceptions=True)
        if res.exit_code != 0 or not os.path.isfile(out):
            sc.expect(False, cid, "`nxpimage hab export` failed on a configuration load_from_config accepts", (res.exit_code, (res.output or "")[-300:], repr(res.exception)[:200]))
            continue
        with open(out, "rb") as f:
            cli_img = f.read()
        sc.expect(cli_img == img, cid, "`nxpimage hab export` output differs from HabContainer.load_from_config(...).export()",
                  (len(cli_img), next((k for k in range(min(len(cli_img), len(img))) if cli_img[k] != img[k]), None)), len(img))
        e_app = struct.unpack_from("<I", img, 4)[0]
        if c["mode"] == "plain" and not app_heuristic_ok(img, e_app, c["ils"] - c["ivt"]):
            continue
        pdir = os.path.join(wd, "parsed")
        res = runner.invoke(nxpimage.main, ["hab", "parse", "-b", out, "-o", pdir], catch_exceptions=True)
        if res.exit_code != 0:
            sc.expect(False, cid, "`nxpimage hab parse` failed on an image SPSDK built", (res.exit_code, (res.output or "")[-300:]))
            continue
        for seg_name in SEGMENTS_MAPPING:
            seg = hab.get_segment(seg_name)
            fp = os.path.join(pdir, f"{seg_name.label}.bin")
            if seg is None:
                sc.expect(not os.path.exists(fp), cid, f"`nxpimage hab parse` wrote a {seg_name.label} segment the image does not have")
                continue
            data = open(fp, "rb").read() if os.path.isfile(fp) else None
            want = seg.export()
            same = data is not None and data == want
            sc.expect(same, cid, f"`nxpimage hab parse` does not write the builder's {seg_name.label} segment", None if data is None else len(data), len(want))


def oversize_stream(ck, pki, scratch):
    """one deterministic configuration whose CSF data blocks alone exceed CSF_SIZE: 4 x RSA-4096 SRK table and an IMG certificate carrying a
    6000-byte extension (open finding C07-csf-oversize-silent), next to the same configuration with the ordinary IMG certificate"""
    from cryptography import x509
    from cryptography.hazmat.primitives import hashes
    from cryptography.x509.oid import NameOID, ObjectIdentifier
    from spsdk.image.hab.hab_container import HabContainer
    so = ck.stream("csf_size", "authenticated container (IVT offset 0x1000, initial load size 0x2000, 1000-byte application, 4 x RSA-4096 SRK table) with the ordinary "
                   "IMG certificate and with one that carries a 6000-byte extension, so that SRK table + certificates alone exceed CSF_SIZE: the builder refuses "
                   "(SPSDKError) or the boot-data length equals the real size of the padded image and the CSF ends the image 0x2000 behind its start. "
                   "non-trivial = distinct configuration")
    kind = "rsa4096"
    if kind not in pki.trees:
        return
    base = pki.trees[kind]
    src = 1
    ent = dict(base[src])
    sk = ent["srk_key"]
    n = lambda s: x509.Name([x509.NameAttribute(NameOID.COMMON_NAME, s)])  # noqa: E731
    img_key = pki._rsa(f"IMG{src + 1}_1_sha256_2048_65537_v3_usr")
    big = (x509.CertificateBuilder().subject_name(n("IMG_big_usr")).issuer_name(n(f"SRK{src + 1}_{kind}_ca")).public_key(img_key.public_key())
           .serial_number(0x7777).not_valid_before(datetime(2020, 1, 1, tzinfo=timezone.utc)).not_valid_after(datetime(2040, 1, 1, tzinfo=timezone.utc))
           .add_extension(x509.BasicConstraints(ca=False, path_length=None), critical=True)
           .add_extension(x509.UnrecognizedExtension(ObjectIdentifier("1.3.6.1.4.1.99999.1"), bytes(range(256)) * 23 + bytes(112)), critical=False)
           .sign(sk, hashes.SHA256()))
    ent["img_cert"] = pki._w(f"crts/{kind}_IMGbig_1_crt.pem", big.public_bytes(pki.ser.Encoding.PEM))
    ent["img_der"] = big.public_bytes(pki.ser.Encoding.DER)
    for label, tree_kind in (("ordinary", kind), ("big-extension", kind + "_big")):
        c = {"i": 0, "family": None, "dev": None, "explicit": True, "ivt": 0x1000, "ils": 0x2000, "start": 0x60000000, "mode": "auth",
             "app": gen_app(ck.rng, 1000, 0x60002000), "entry": None, "dcd": None, "xmcd": None, "version": "4.2",
             "kind": tree_kind, "nkeys": 4, "src": src, "img_slot": 2, "engine": "ANY", "extra": "", "nocak": False, "keyloc_csf": "file", "keyloc_img": "file"}
        try:
            if tree_kind != kind:
                pki.trees[tree_kind] = [ent if k == src else e for k, e in enumerate(base)]
            e = pki.trees[tree_kind][src]
            table = pki.srk_table(tree_kind, 4).export()
            # predicate of the finding, from the input alone: the data blocks the configuration names do not fit into CSF_SIZE even without signatures
            over = len(table) + len(e["csf_der"]) + len(e["img_der"]) > 0x2000
            cid = {"case": label, "srk_table": len(table), "csf_cert": len(e["csf_der"]), "img_cert": len(e["img_der"]), "ivt": c["ivt"], "ils": c["ils"], "app_len": 1000}
            so.note(cid, cls=label + ("/oversize" if over else "/fits"))
            r = pyres(HabContainer.load_from_config, make_config(c, pki, os.path.join(scratch, "wo")))
        finally:
            pki.trees.pop(kind + "_big", None)
        if r[0] == "E:spsdk":
            so.expect(over, cid, "the builder refused a configuration whose CSF fits", r)
            continue
        if r[0] != "ok":
            so.expect(False, cid, "load_from_config raised a non-SPSDK exception", r)
            continue
        img = pyres(r[1].export)
        if img[0] == "E:spsdk" and over:
            continue   # refused: the property only speaks about images SPSDK builds
        if img[0] != "ok":
            so.expect(False, cid, "export raised", img)
            continue
        img = img[1]
        fid = "C07-csf-oversize-silent" if over else None
        self_, csfp = struct.unpack_from("<I", img, 20)[0], struct.unpack_from("<I", img, 24)[0]
        blen = struct.unpack_from("<I", img, 36)[0]
        so.expect(blen == c["ivt"] + len(img), cid, "boot-data length differs from the real size of the padded image", blen, c["ivt"] + len(img), finding=fid)
        so.expect(csfp - self_ + 0x2000 == len(img), cid, "the CSF does not end the image 0x2000 behind its start (CSF larger than CSF_SIZE exported)",
                  (csfp - self_, len(img)), None, finding=fid)
        pr = pyres(HabContainer.parse, img)
        so.expect(pr[0] == "ok", cid, "HabContainer.parse raised on an image SPSDK built", pr[0], None, finding=fid)


def both_stream(ck, pki, devices, scratch):
    """DCD and XMCD in one configuration: both are placed at IVT+0x40"""
    from spsdk.image.hab.hab_container import HabContainer
    from spsdk.image.hab.segments import HabSegment
    rng = ck.rng
    sb = ck.stream("dcd_and_xmcd", "configurations with a DCD file AND an XMCD file (plain and authenticated): either the builder refuses the configuration "
                   "(SPSDKError) or the image carries both and parses back into the same DCD and XMCD. non-trivial = distinct configuration")
    for i in range(ck.budget(6, 40)):
        c = gen_case(rng, pki, devices, rng.randrange(len(devices)), 3000)
        c["mode"] = "plain" if i % 2 == 0 else "auth"
        c.update(dcd=None, xmcd=None, entry=None)
        if c["mode"] == "auth" and "kind" not in c:
            kind = rng.choice(list(pki.trees))
            c.update(kind=kind, nkeys=2, src=1, img_slot=2, engine="ANY", extra="", nocak=False,
                     keyloc_csf=rng.choice(KEYLOCS), keyloc_img=rng.choice(KEYLOCS))
        room = c["ils"] - c["ivt"] - 0x40
        if room < 0x40:
            continue
        c["dcd"] = gen_dcd(rng, min(room, 0xB8))
        c["xmcd"] = gen_xmcd(rng)[:4 + 12]
        c["xmcd"] = bytes([len(c["xmcd"]) & 0xFF, c["xmcd"][1] & 0xF0, c["xmcd"][2], 0xC0]) + c["xmcd"][4:]
        cid = case_id(c)
        sb.note(cid, cls=c["mode"])
        r = pyres(HabContainer.load_from_config, make_config(c, pki, os.path.join(scratch, "wb")))
        if r[0] == "E:spsdk":
            continue   # refused: the property only speaks about images SPSDK builds
        if r[0] != "ok":
            sb.expect(False, cid, "load_from_config raised a non-SPSDK exception", r)
            continue
        img = pyres(r[1].export)
        if img[0] != "ok":
            sb.expect(False, cid, "export raised", img)
            continue
        img = img[1]
        dptr = struct.unpack_from("<I", img, 12)[0] - struct.unpack_from("<I", img, 20)[0]
        sb.expect(img[dptr:dptr + len(c["dcd"])] == c["dcd"] and img[64:64 + len(c["xmcd"])] == c["xmcd"], cid,
                  "the image does not contain the DCD where the IVT points and the XMCD block at IVT+0x40 (one overwrites the other)",
                  (dptr, img[dptr:dptr + 8].hex()), c["dcd"][:8].hex(), finding="C07-dcd-xmcd-overlay")
        pr = pyres(HabContainer.parse, img)
        back = pr[0] == "ok" and pyres(lambda: pr[1].get_segment(HabSegment.DCD).export() == c["dcd"] and pr[1].get_segment(HabSegment.XMCD).export() == c["xmcd"]) == ("ok", True)
        sb.expect(back, cid, "parse does not give back the DCD and the XMCD of the configuration", pr[0], finding="C07-dcd-xmcd-overlay")


def side_streams(ck, drv):
    """small codecs: CSF commands, XMCD block, nonce length"""
    from spsdk.image.commands import (CmdAuthData, CmdInstallKey, CmdNop, CmdSet, CmdUnlockCAAM, CmdUnlockOCOTP, CmdUnlockSNVS, EnumAuthDat,
                                      EnumCertFormat, EnumEngine, EnumInsKey, EnumItm, parse_command)
    from spsdk.image.images import BootImgRT
    from spsdk.image.secret import EnumAlgorithm
    from spsdk.image.segments import SegXMCD
    rng = ck.rng
    # ---------------------------------------------------------------- commands
    sc = ck.stream("commands", "CSF commands built with SPSDK's classes (Install Key, Authenticate Data with 0..6 blocks, Set, Unlock SNVS/CAAM/OCOTP with and "
                   "without UID, NOP) with random field values: export -> parse_command(export + junk) -> export is the identity on the real code; the model's "
                   "decode/encode gives the same bytes and size. non-trivial = distinct command")
    reqs = []
    for _ in range(ck.budget(300, 5000)):
        k = rng.randrange(7)
        if k == 0:
            fmt = rng.choice(list(EnumCertFormat))
            cmd = CmdInstallKey(rng.choice(list(EnumInsKey)), fmt, rng.choice(list(EnumAlgorithm)), rng.choice([0, 1, 2, 3] if fmt == EnumCertFormat.SRK else [0, 2, 3, 4, 5]),
                                rng.randrange(6), rng.getrandbits(32))
        elif k == 1:
            cmd = CmdAuthData(rng.choice(list(EnumAuthDat)), rng.randrange(6), rng.choice([EnumCertFormat.CMS, EnumCertFormat.AEAD]), rng.choice(list(EnumEngine)),
                              rng.getrandbits(8), rng.getrandbits(32))
            for _b in range(rng.randrange(7)):
                cmd.append(rng.getrandbits(32), rng.getrandbits(32))
        elif k == 2:
            cmd = CmdSet(rng.choice(list(EnumItm)), rng.choice(list(EnumAlgorithm)), rng.choice(list(EnumEngine)), rng.getrandbits(8))
        elif k == 3:
            cmd = CmdUnlockSNVS(rng.randrange(4))
        elif k == 4:
            cmd = CmdUnlockCAAM(rng.randrange(8))
        elif k == 5:
            cmd = CmdUnlockOCOTP(rng.randrange(16), rng.getrandbits(64))
        else:
            cmd = CmdNop(0)
        raw = pyres(cmd.export)
        if raw[0] != "ok":
            sc.expect(False, repr(cmd), "command export raised", raw)
            continue
        raw = raw[1]
        sc.note(raw.hex(), cls=type(cmd).__name__)
        junk = bytes(rng.getrandbits(8) for _ in range(rng.randrange(9)))
        back = pyres(lambda: (lambda c2: (c2.export(), c2.size))(parse_command(raw + junk)))
        sc.expect(back == ("ok", (raw, len(raw))), raw.hex(), "parse_command(export) does not give the command back", back)
        reqs.append((raw.hex(), "cmd " + (raw + junk).hex(), f"ok:{raw.hex()}:{len(raw)}"))
    if drv is not None:
        for (inp, _l, real), ans in zip(reqs, drv.batch([r[1] for r in reqs])):
            sc.compare(inp, real, ans)
    # ---------------------------------------------------------------- XMCD
    sx = ck.stream("xmcd", "XMCD files: every interface 0/1 x instance 0..15 x type 0/1 with sizes {4, 8, 12, 255, 256, 260, 516, 4092}, plus wrong tag / version / "
                   "interface / size / truncated files: SegXMCD.parse(file).export() (what the HAB builder places at IVT+0x40) must be the file; model xmcdLoad. "
                   "non-trivial = distinct file header")
    reqs = []
    files = []
    for iface in (0, 1):
        for inst in range(16):
            for typ in (0, 1):
                size = rng.choice([4, 8, 12, 255, 256, 260, 516, 4092])
                files.append((True, bytes([size & 0xFF, (typ << 4) | (size >> 8), (iface << 4) | inst, 0xC0]) + bytes(rng.getrandbits(8) for _ in range(size - 4))))
    nvalid = len(files)
    for _ in range(40):
        good = files[rng.randrange(nvalid)][1]
        bad = bytearray(good)
        r = rng.randrange(5)
        if r == 0:
            bad[3] = rng.choice([0xD0, 0xC1, 0x00])
        elif r == 1:
            bad[2] = 0x20 | (bad[2] & 0xF)
        elif r == 2:
            bad[1] = 0x20 | (bad[1] & 0xF)
        elif r == 3:
            bad = bad + b"\x00"
        else:
            bad = bad[:rng.randrange(0, 4)]
        files.append((False, bytes(bad)))
    for valid, f in files:
        sx.note(f[:4].hex() + f":{len(f)}", cls="valid" if valid else "invalid")
        real = pyres(lambda: SegXMCD.parse(f).export())
        if valid:
            sx.expect(real == ("ok", f), f[:8].hex(), "SegXMCD.parse(file).export() is not the file (interface / instance lost)", real[1][:8].hex() if real[0] == "ok" else real, f[:8].hex())
            sx.expect(pyres(lambda: SegXMCD.parse(f).size) == ("ok", len(f)), f[:8].hex(), "SegXMCD.size is not the length of the exported block", pyres(lambda: SegXMCD.parse(f).size), len(f))
        reqs.append((f[:8].hex() + f":{len(f)}", "xmcd " + hexs(f), ("ok:" + real[1].hex()) if real[0] == "ok" else real[0]))
    if drv is not None:
        for (inp, _l, real), ans in zip(reqs, drv.batch([r[1] for r in reqs])):
            sx.compare(inp, real, ans)
    # ---------------------------------------------------------------- nonce length
    sn = ck.stream("nonce_length", "BootImgRT.aead_nonce_len at 0, 1, 2^16-1, 2^16, 2^24-1, 2^24, 2^32-1 and random sizes: a CCM nonce length (7..13) whose length "
                   "field holds the size; equals the translated function. non-trivial = distinct size")
    sizes = [0, 1, 15, 16, 0xFFFF, 0x10000, 0x10001, 0xFFFFFF, 0x1000000, 0x1000001, 0xFFFFFFFF] + [rng.getrandbits(rng.randrange(1, 33)) for _ in range(ck.budget(50, 500))]
    reqs = []
    for n in sizes:
        r = pyres(BootImgRT.aead_nonce_len, n)
        sn.note(n)
        sn.expect(r[0] == "ok" and 7 <= r[1] <= 13 and n < 256 ** (15 - r[1]), n, "nonce length is not a CCM nonce length that can hold the data size", r)
        reqs.append((n, f"nonce {n}", f"ok:{r[1]}" if r[0] == "ok" else r[0]))
    if drv is not None:
        for (inp, _l, real), ans in zip(reqs, drv.batch([r[1] for r in reqs])):
            sn.compare(inp, real, ans)


def dcd_streams(ck, drv):
    """Write Data / Check Data / Initialize / NOP / Unlock commands, parse_command over all classes, SegDCD and SegBDT round trips
    (Model/HabDcd.lean through the driver ops dcmd / dcd / bdt)"""
    from spsdk.image.commands import (CmdCheckData, CmdInitialize, CmdNop, CmdSet, CmdUnlockAbstract, CmdUnlockCAAM, CmdUnlockOCOTP, CmdUnlockSNVS,
                                      CmdWriteData, EnumCheckOps, EnumEngine, EnumWriteOps, parse_command)
    from spsdk.image.segments import SegBDT, SegDCD
    rng = ck.rng
    edge = [0, 1, 0xFF, 0x100, 0xFFFF, 0x10000, 0x7FFFFFFF, 0x80000000, 0xFFFFFFFE, 0xFFFFFFFF]
    csf_only = {0xB1, 0xB2, 0xBE, 0xCA}   # tags whose malformed forms the model classifies only approximately: kept out of the bytes a mutated parse can walk into

    def word(safe=False):
        while True:
            v = rng.choice(edge) if rng.random() < 0.4 else rng.getrandbits(32)
            if not safe or not (set(v.to_bytes(4, "big")) & csf_only):
                return v

    def fields(c):
        """canonical text of a command object (same layout as dcmdStr of the driver)"""
        if isinstance(c, CmdWriteData):
            return f"W,{c.num_bytes},{c.ops.tag}," + "+".join(f"{a}={v}" for a, v in c)
        if isinstance(c, CmdCheckData):
            return f"C,{c.num_bytes},{c.ops.tag},{c.address},{c.mask}," + ("N" if c.count is None else str(c.count))
        if isinstance(c, CmdInitialize):
            return f"I,{c.engine.tag}," + "+".join(str(v) for v in c._data)
        if isinstance(c, CmdNop):
            return f"N,{c._header.param}"
        if isinstance(c, CmdUnlockAbstract):
            return f"U,{c.engine.tag},{c.features},{c.uid}"
        if isinstance(c, CmdSet):
            return f"S,{c.itm.tag},{c.hash_algorithm.tag},{c.engine.tag},{c.engine_cfg}"
        return "X," + c.export().hex()

    def gen_cmd(kinds, safe=False):
        """(command, finding id or None, class label); the finding predicate looks at the constructor arguments only"""
        k = rng.choice(kinds)
        if k == "W":
            n = rng.choice([0, 0, 1, 1, 2, 3, rng.randrange(13), rng.randrange(13)] + ([rng.randrange(40, 200)] if rng.random() < 0.1 else []))
            pairs = [(word(safe), word(safe)) for _ in range(n)]
            w, o = rng.choice([1, 2, 4]), rng.choice(list(EnumWriteOps))
            if rng.random() < 0.5:
                c = CmdWriteData(w, o, pairs)
            else:
                c = CmdWriteData(w, o)
                for a, v in pairs:
                    c.append(a, v)
            return c, None, f"write/{o.label}/{w}/n={min(n, 4)}"
        if k == "C":
            cnt = rng.choice([None, None, 0, 1, 0xFFFFFFFF, word(safe)])
            if safe and cnt is not None and (set(cnt.to_bytes(4, "big")) & csf_only):
                cnt = 5
            w, o = rng.choice([1, 2, 4]), rng.choice(list(EnumCheckOps))
            c = CmdCheckData(w, o, word(safe), word(safe), cnt)
            return c, None, f"check/{o.label}/{w}/count={'none' if cnt is None else 'zero' if cnt == 0 else 'set'}"
        if k == "N":
            return CmdNop(rng.choice([0, 0, rng.getrandbits(8)])), None, "nop"
        if k == "I":
            n = rng.choice([0, 1, 2, rng.randrange(10)])
            vals = [min(word(safe), 0xFFFFFFFE) for _ in range(n)]
            eng = rng.choice(list(EnumEngine))
            if n and rng.random() < 0.3:
                return CmdInitialize(eng, list(vals)), None, "initialize/ctor-data"   # counted in the header length since 6f0b9cd
            c = CmdInitialize(eng)
            for v in vals:
                c.append(v)
            return c, None, f"initialize/append/n={min(n, 3)}"
        u = rng.randrange(3)
        if u == 0:
            return CmdUnlockSNVS(rng.randrange(4)), None, "unlock/snvs"
        if u == 1:
            return CmdUnlockCAAM(rng.randrange(8)), None, "unlock/caam"
        feat = rng.randrange(16)
        uid = rng.getrandbits(64)
        # a UID is part of the command only for the features that need one (mask 0b1101); otherwise it is not exported and reads back as 0
        return CmdUnlockOCOTP(feat, uid if feat & 0b1101 else 0), None, "unlock/ocotp" + ("+uid" if feat & 0b1101 else "")

    def model_line(parsed):
        """what the model has to answer for the result of the real parse: ('ok', (fields, export, size)) or an error class"""
        return f"ok:{parsed[1][0]}:{parsed[1][1].hex()}:{parsed[1][2]}" if parsed[0] == "ok" else parsed[0]

    sd = ck.stream("dcd_commands", "Write Data (every operation x width 1/2/4, 0..12 and occasionally 40..200 address/value pairs, constructor list or append), Check Data "
                   "(every operation x width, poll count None / 0 / 1 / 0xFFFFFFFF / random), Initialize (every engine, words by append or constructor list), NOP, "
                   "Unlock SNVS/CAAM/OCOTP with boundary words 0 / 0xFFFFFFFF: parse_command(export + junk) == command, its export is the same bytes and "
                   "size == len(export); SegDCD of 0..8 such commands: SegDCD.parse(export + junk) == segment, same bytes, size == len; SegBDT likewise; "
                   "malformed commands / segments (truncated, tag replaced, length field changed, width / engine invalid, Initialize inside a DCD): result "
                   "or error class. The model (Model/HabDcd.lean) answers every parse with the same fields / bytes / size / error class. non-trivial = distinct bytes")
    reqs = []
    # ------------------------------------------------------------ single commands
    for _ in range(ck.budget(300, 5000)):
        got = pyres(gen_cmd, ["W", "W", "C", "C", "N", "I", "I", "U"])
        if got[0] != "ok":
            sd.expect(False, "constructor", "a command constructor refused values inside its documented range", got)
            continue
        cmd, fid, label = got[1]
        raw = pyres(cmd.export)
        if raw[0] != "ok":
            sd.expect(False, label, "command export raised", raw)
            continue
        raw = raw[1]
        sd.note(raw.hex(), cls=label)
        junk = bytes(rng.getrandbits(8) for _ in range(rng.randrange(9)))
        back = pyres(parse_command, raw + junk)
        parsed = pyres(lambda: (fields(back[1]), back[1].export(), back[1].size)) if back[0] == "ok" else back
        sd.expect(pyres(lambda: cmd.size) == ("ok", len(raw)), fields(cmd), "size differs from the length of the exported command", (pyres(lambda: cmd.size), len(raw)), None, finding=fid)
        sd.expect(back[0] == "ok" and back[1] == cmd, fields(cmd), "parse_command(export) does not give the command back",
                  parsed if parsed[0] != "ok" else parsed[1][0], fields(cmd), finding=fid)
        sd.expect(parsed[0] == "ok" and parsed[1][1] == raw and parsed[1][2] == len(raw), fields(cmd), "export of the parsed command differs from the exported bytes",
                  parsed if parsed[0] != "ok" else (parsed[1][1].hex(), parsed[1][2]), (raw.hex(), len(raw)), finding=fid)
        reqs.append((raw.hex(), "dcmd " + ((raw + junk).hex() or "-"), model_line(parsed)))
    # ------------------------------------------------------------ DCD segments
    def build_seg(safe=False):
        param = rng.choice([0x41, 0x41, 0x40, rng.getrandbits(8)])
        seg = SegDCD(param, True)
        fids = []
        for _c in range(rng.choice([0, 1, 2, 3, rng.randrange(9)])):
            c, fid, _l = gen_cmd(["W", "W", "C", "C", "N"] + ([] if safe else ["U"]), safe)
            seg.append(c)
            fids.append(fid)
        return seg, next((f for f in fids if f), None)

    def seg_view(sg):
        return (f"{sg.header.param}:" + "|".join(fields(c) for c in sg.commands), sg.export(), sg.size)

    for _ in range(ck.budget(80, 1500)):
        got = pyres(build_seg)
        if got[0] != "ok":
            sd.expect(False, "SegDCD.append", "building a DCD from Write / Check / NOP / Unlock commands raised", got)
            continue
        seg, fid = got[1]
        raw = pyres(seg.export)
        if raw[0] != "ok":
            sd.expect(False, seg_view(seg)[0] if fid is None else "dcd", "SegDCD.export raised", raw, None, finding=fid)
            continue
        raw = raw[1]
        sd.note(raw.hex(), cls=f"dcd/cmds={min(len(seg), 4)}")
        junk = bytes(rng.getrandbits(8) for _ in range(rng.randrange(5)))
        back = pyres(SegDCD.parse, raw + junk)
        parsed = pyres(seg_view, back[1]) if back[0] == "ok" else back
        ident = pyres(lambda: seg_view(seg)[0])[-1]
        sd.expect(pyres(lambda: seg.size) == ("ok", len(raw)), ident, "SegDCD.size differs from the length of the exported segment", (pyres(lambda: seg.size), len(raw)), None, finding=fid)
        sd.expect(back[0] == "ok" and back[1] == seg, ident, "SegDCD.parse(export) does not give the segment back", parsed if parsed[0] != "ok" else parsed[1][0], ident, finding=fid)
        sd.expect(parsed[0] == "ok" and parsed[1][1] == raw, ident, "export of the parsed DCD differs from the exported bytes", parsed if parsed[0] != "ok" else parsed[1][1].hex(), raw.hex(), finding=fid)
        reqs.append((raw.hex(), "dcd " + (raw + junk).hex(), model_line(parsed)))
    # ------------------------------------------------------------ boot data
    for _ in range(ck.budget(20, 200)):
        st, ln, pl = word(), word(), rng.randrange(3)
        b = pyres(lambda: SegBDT(st, ln, pl))
        raw = pyres(lambda: b[1].export())
        sd.note(("bdt", st, ln, pl), cls="bdt")
        back = pyres(lambda: SegBDT.parse(raw[1] + b"\x00" * rng.randrange(3)))
        sd.expect(raw[0] == "ok" and len(raw[1]) == b[1].size and back[0] == "ok" and back[1] == b[1] and back[1].export() == raw[1], (st, ln, pl),
                  "SegBDT.parse(export) does not give the boot data back / size differs", (raw, back))
        if raw[0] == "ok":
            reqs.append((raw[1].hex(), "bdt " + raw[1].hex(), f"ok:{st},{ln},{pl}:{raw[1].hex()}"))
    for bad in (struct.pack("<3L", 0x60000000, 0x2000, 3), struct.pack("<3L", 0, 0, 0xFFFFFFFF), b"\x00" * 11, b""):
        sd.note(("bdt-bad", bad.hex()), cls="bdt/malformed")
        r = pyres(SegBDT.parse, bad)
        reqs.append((bad.hex(), "bdt " + (bad.hex() or "-"), f"ok:{r[1].app_start},{r[1].app_length},{r[1].plugin}:{r[1].export().hex()}" if r[0] == "ok" else r[0]))
    # ------------------------------------------------------------ malformed commands and segments: result or error class
    def mutate(raw, positions):
        """one mutation of exported bytes; `positions` = offsets of command headers inside `raw` (0 for a single command)"""
        b = bytearray(raw)
        m = rng.randrange(6)
        pos = rng.choice(positions) if positions else 0
        if m == 0 or len(b) < 4:
            return bytes(b[:rng.randrange(len(b) + 1)]), "truncated"
        if m == 1:
            b[pos] = rng.choice([0xCC, 0xCF, 0xB4, 0xC0, 0x00, 0xCD, 0xD2, 0xFF])
            return bytes(b), "tag"
        if m == 2:
            cur = b[pos + 1] * 256 + b[pos + 2]
            new = rng.choice([0, 3, 4, 5, 8, 12, 13, 16, max(cur - 1, 0), cur + 1, max(cur - 4, 0), cur + 4, cur + 8, 0xFFFF])
            b[pos + 1], b[pos + 2] = new >> 8, new & 0xFF
            return bytes(b), "length"
        if m == 3:
            b[pos + 3] = rng.choice([0, 3, 5, 6, 7, 0x1C, 0x24, 0x44, 0xE4, 0xFF, 0x02, 0x1D])
            return bytes(b), "param"
        if m == 4:
            cut = rng.randrange(len(b) + 1)
            return bytes(b[:cut]) + bytes(rng.choice([0x00, 0xC0, 0xCC, 0xCF, 0xB4, 0x04, 0x41]) for _ in range(rng.randrange(1, 9))), "tail-replaced"
        return bytes(b) + bytes(b[pos:pos + 4]), "header-repeated"

    for _ in range(ck.budget(200, 4000)):
        if rng.random() < 0.5:
            got = pyres(gen_cmd, ["W", "C", "N", "I"], True)
            if got[0] != "ok":
                continue
            raw = pyres(got[1][0].export)
            if raw[0] != "ok":
                continue
            data, how = mutate(raw[1], [0])
            sd.note(("bad-cmd", data.hex()), cls="malformed-command/" + how)
            back = pyres(parse_command, data)
            parsed = pyres(lambda: (fields(back[1]), back[1].export(), back[1].size)) if back[0] == "ok" else back
            reqs.append((data.hex(), "dcmd " + (data.hex() or "-"), model_line(parsed)))
        else:
            got = pyres(build_seg, True)
            if got[0] != "ok":
                continue
            seg = got[1][0]
            raw = pyres(seg.export)
            if raw[0] != "ok":
                continue
            positions, off = [0], 4
            for c in seg.commands:
                positions.append(off)
                off += len(c.export())
            if rng.random() < 0.15:   # an Initialize command inside a DCD: SegDCD.append refuses it, so must SegDCD.parse
                ini = CmdInitialize(EnumEngine.ANY)
                ini.append(1)
                body = raw[1][4:] + ini.export()
                data, how = struct.pack(">BHB", 0xD2, 4 + len(body), raw[1][3]) + body, "initialize-inside"
                sd.expect(pyres(seg.append, ini) == ("E:spsdk",), "SegDCD.append(CmdInitialize)", "SegDCD accepted a command outside its command set", None)
            else:
                data, how = mutate(raw[1], positions)
            sd.note(("bad-dcd", data.hex()), cls="malformed-dcd/" + how)
            back = pyres(SegDCD.parse, data)
            parsed = pyres(seg_view, back[1]) if back[0] == "ok" else back
            reqs.append((data.hex(), "dcd " + (data.hex() or "-"), model_line(parsed)))
    if drv is not None:
        for (inp, line, real), ans in zip(reqs, drv.batch([r[1] for r in reqs])):
            sd.compare(line.split(" ")[0] + " " + inp, real, ans)


def replay(ck, data):
    """re-run the whole generation with the seed / tier of the replay file (cases are functions of the seed)"""
    import random
    if isinstance(data, dict) and "seed" in data:
        ck.seed = data["seed"]
        ck.rng = random.Random(f"{ck.prop}/{ck.seed}")
        ck.tier = data.get("tier", ck.tier)
    run(ck)
