"""C10 - bootloader protocols: data arrives intact, results mirror the device, faults surface.

Obligations   : Properties/C10.lean over Model/Mboot.lean (host: serial frame codec / HID report codec /
                CmdPacket + parse_cmd_response / McuBoot state machine; device: a reference bootloader) and the
                agreement of Generated/MbootConsts.lean (regenerated from /repo) with the protocol constants.
Correspondence: `MbootSerialProtocol` / `MbootBulkProtocol` + `McuBoot` run UNMODIFIED on a `DeviceBase` stub plugged
                in below the framing layer.  The stub replays a transcript (what the device sends in reaction to the
                i-th host write) produced by the compiled reference device in closed loop with the model host
                (`drv_c10`), optionally passed through a fault.  The same transcript is replayed to the model host.
                Compared per operation: return value / exception class (+ error value), `status_code`, every byte
                written to the device.
Oracle        : independent of the Lean model: a small Python re-implementation of the reference device is fed the
                bytes the REAL host wrote; an operation that *succeeds* (raises nothing, value not None/False,
                status_code == SUCCESS) must have returned exactly the device's bytes / left exactly the requested
                bytes in the device; without faults every operation must have exactly the protocol's effect.
"""
from __future__ import annotations

import binascii
import logging
import os
import random
import struct

from vcore import pyres  # noqa: F401  (kept for symmetry with the other checks)

SUCCESS = 0
MP_PROP = 0x0B
EXT_MEM_IDS = (1, 4, 8, 9, 10, 16, 0x100, 0x101, 0x110)


def clamp_id(m):
    """protocol: address-based commands on mapped memories carry id 0 for ids 1..255 (SPSDK clamps on purpose), other ids unchanged"""
    return 0 if 1 <= m <= 255 else m


def expected_commands(op):
    """The command packets (tag, parameter words) the protocol defines for one API call - written from the protocol description,
    independent of the Lean model.  None = not a fixed list (chunked read: checked structurally)."""
    k = op["op"]
    u = lambda x: x & 0xFFFFFFFF  # noqa: E731
    if k == "flash_erase_all":
        return [(0x01, [op["mem_id"]])]            # whole-memory command: the id selects the memory, carried as given
    if k == "flash_erase_all_unsecure":
        return [(0x0D, [])]
    if k == "configure_memory":
        return [(0x11, [op["mem_id"], op["addr"]])]  # the id selects the memory to configure, carried as given
    if k == "flash_erase_region":
        return [(0x02, [op["addr"], op["n"], clamp_id(op["mem_id"])])]
    if k == "fill_memory":
        return [(0x05, [op["addr"], op["n"], op["pattern"]])]
    if k == "write_memory":
        return [(0x04, [op["addr"], op["n"], clamp_id(op["mem_id"])])]
    if k == "receive_sb_file":
        return [(0x08, [op["n"]])]
    if k == "get_property":
        return [(0x07, [op["tag"], op["index"]])]
    if k == "set_property":
        return [(0x0C, [op["tag"], op["value"]])]
    if k == "execute":
        return [(0x09, [op["addr"], op["arg"], op["sp"]])]
    if k == "call":
        return [(0x0A, [op["addr"], op["arg"]])]
    if k == "reliable_update":
        return [(0x12, [op["addr"]])]
    if k == "reset":
        return [(0x0B, [])]
    if k == "flash_read_resource":
        return [(0x10, [op["addr"], op["n"], op["option"]])]
    if k == "flash_read_once":
        return [(0x0F, [op["index"], op["count"]])]
    if k == "efuse_read_once":
        return [(0x0F, [op["index"], 4])]
    if k == "flash_program_once":
        d = op_data(op)
        d += b"\0" * (-len(d) % 4)
        return [(0x0E, [op["index"], op["n"]] + list(struct.unpack(f"<{len(d) // 4}I", d)))]
    if k == "efuse_program_once":
        return [(0x0E, [op["index"], 4, op["value"]])] + ([(0x0F, [op["index"] & 0xFFFFFF, 4])] if op["verify"] else [])
    if k == "kp_enroll":
        return [(0x15, [0])]
    if k == "kp_set_intrinsic_key":
        return [(0x15, [2, op["key_type"], op["key_size"]])]
    if k == "kp_write_nonvolatile":
        return [(0x15, [3, op["mem_id"]])]
    if k == "kp_read_nonvolatile":
        return [(0x15, [4, op["mem_id"]])]
    if k == "kp_set_user_key":
        return [(0x15, [1, op["key_type"], op["n"]])]
    if k == "kp_write_key_store":
        return [(0x15, [5, 0, op["n"]])]
    if k == "kp_read_key_store":
        return [(0x15, [6])]
    if k == "update_life_cycle":
        return [(0x18, [op["value"]])]
    if k == "ele_message":
        return [(0x19, [0] + list(op["args"]))]
    if k == "tp_oem_set_master_share":
        return [(0x16, [1] + list(op["args"]))]
    if k == "tp_hsm_enc_blk":
        return [(0x16, [5] + list(op["args"]))]
    if k == "fuse_program":
        return [(0x14, [op["addr"], op["n"], clamp_id(op["mem_id"])])]
    if k == "fuse_read":
        return [(0x17, [op["addr"], op["n"], clamp_id(op["mem_id"])])]
    if k == "read_memory":
        return None
    return []   # open, load_image: no command at all


def command_oracle(op, evs, success, cfg):
    """-> list of violations: the commands the device RECEIVED for this API call vs the protocol's expectation."""
    k = op["op"]
    own = [(e["tag"], e["params"]) for e in evs if not (e["tag"] == 7 and e["params"][:1] == [MP_PROP] and k != "get_property")]
    viol = []
    exp = expected_commands(op)
    if exp is None:
        # read_memory: one READ_MEMORY (un-chunked) or consecutive chunks; ids clamped, addresses consecutive from the caller's address
        a, total = op["addr"], 0
        for tag, ps in own:
            if tag != 0x03 or len(ps) != 3 or ps[0] != a + total or ps[2] != clamp_id(op["mem_id"]) or total + ps[1] > op["n"]:
                viol.append(("read_memory sent a command packet the protocol does not define for this call (tag / address sequence / length / memory id)",
                             {"received": [tag, ps], "call": {"addr": a, "n": op["n"], "mem_id": op["mem_id"]}}))
                break
            total += ps[1]
        if success and own and total != op["n"]:
            viol.append(("read_memory reports success but the READ_MEMORY commands do not cover exactly the requested range", {"covered": total, "requested": op["n"]}))
        return viol
    if any(p >= 1 << 32 for _t, ps in exp for p in ps):
        return viol  # unencodable argument: nothing may be sent (checked elsewhere)
    if own != exp[:len(own)] or (success and own != exp):
        viol.append((f"{k}: the command packets the device received are not the ones the protocol defines for this call "
                     "(command tag / parameter that selects the target: memory id, property tag, key operation, fuse index, address)",
                     {"received": own[:3], "expected": exp[:3]}))
    return viol
SIMPLE = {"fill_memory", "flash_erase_region", "flash_erase_all", "execute", "call", "flash_erase_all_unsecure",
          "configure_memory", "reliable_update", "set_property", "kp_enroll", "kp_set_intrinsic_key", "kp_write_nonvolatile",
          "kp_read_nonvolatile", "flash_program_once", "efuse_program_once", "update_life_cycle", "ele_message",
          "tp_oem_set_master_share", "tp_hsm_enc_blk"}
DATA_OPS = {"write_memory", "receive_sb_file", "read_memory", "get_property", "kp_set_user_key", "kp_write_key_store", "kp_read_key_store",
            "flash_read_resource", "flash_read_once", "efuse_read_once", "fuse_program", "fuse_read"}


def hx(b):
    return bytes(b).hex() if len(b) else "-"


def gen_bytes(seed, n):
    return random.Random(f"d{seed}").randbytes(n) if n else b""


def crc16(b):
    return binascii.crc_hqx(bytes(b), 0)


# ----------------------------------------------------------------------------------------------- stubs
def make_stub_classes():
    from spsdk.utils.exceptions import SPSDKTimeoutError
    from spsdk.utils.interfaces.device.base import DeviceBase
    from spsdk.utils.interfaces.device.usb_device import UsbDevice

    class StubMixin:
        def _init(self, transcript, hid, partial):
            self.pending = list(transcript)
            self.pi = 0
            self.hid = hid
            self.partial = partial
            self.buf = b""
            self.pos = 0
            self.reports = []
            self.ri = 0
            self.tx = []
            self._opened = True
            self._timeout = 1_000_000
            self.reads = 0
            self.read_budget = 4 * sum(len(c) if isinstance(c, (bytes, bytearray)) else sum(len(r) + 1 for r in c) for c in transcript) + 4096

        @property
        def is_opened(self):
            return self._opened

        def open(self):
            self._opened = True

        def close(self):
            self._opened = False

        @property
        def timeout(self):
            return self._timeout

        @timeout.setter
        def timeout(self, value):
            self._timeout = value

        def __str__(self):
            return "verif stub"

        live = None          # a responding reference device (PyDev / PyRom): closed loop, the transcript is recorded
        recorded = None

        def write(self, data, timeout=None):
            self.tx.append(bytes(data))
            c = None
            if self.live is not None:
                c = self.live.respond(bytes(data))
                self.recorded.append(c)
                self.read_budget += 4 * (len(c) if isinstance(c, (bytes, bytearray)) else sum(len(r) + 1 for r in c)) + 16
            elif self.pi < len(self.pending):
                c = self.pending[self.pi]
                self.pi += 1
            if c is not None:
                if self.hid:
                    self.reports.extend(c)
                elif c:
                    self.buf = self.buf[self.pos:] + c
                    self.pos = 0

        def read(self, length, timeout=None):
            self.reads += 1
            if self.reads > self.read_budget:
                raise RuntimeError("verif: read budget exceeded (unbounded retry loop?)")
            if self.hid:
                if self.ri >= len(self.reports):
                    raise SPSDKTimeoutError()
                r = self.reports[self.ri]
                self.ri += 1
                if not r:
                    raise SPSDKTimeoutError()
                return r
            avail = len(self.buf) - self.pos
            if length <= 0 or avail == 0:
                raise SPSDKTimeoutError()
            if avail >= length:
                r = self.buf[self.pos:self.pos + length]
                self.pos += length
                return r
            if self.partial:
                r = self.buf[self.pos:]
                self.pos = len(self.buf)
                return r
            self.pos = len(self.buf)
            raise SPSDKTimeoutError()

        def leftover(self):
            if self.hid:
                return len(self.reports) - self.ri
            return len(self.buf) - self.pos

    class PlainStub(StubMixin, DeviceBase):
        def __init__(self, transcript, hid, partial):
            self._init(transcript, hid, partial)

    class UsbStub(StubMixin, UsbDevice):
        def __init__(self, transcript, hid, partial):  # pylint: disable=super-init-not-called
            self._init(transcript, hid, partial)

    return PlainStub, UsbStub


_STUBS = None
_PROTO = {}


def _proto_class(base):
    """the protocol classes are used through concrete interface subclasses that only add `identifier` (and scanning)"""
    if base not in _PROTO:
        _PROTO[base] = type("Verif" + base.__name__, (base,), {"identifier": "verif"})
    return _PROTO[base]


def classify_exc(exc):
    from spsdk.exceptions import SPSDKError
    from spsdk.mboot.exceptions import McuBootCommandError, McuBootConnectionError, McuBootDataAbortError, McuBootError
    if isinstance(exc, McuBootCommandError):
        return f"E:cmd:{exc.error_value}"
    if isinstance(exc, McuBootConnectionError):
        return "E:conn"
    if isinstance(exc, McuBootDataAbortError):
        return "E:abort"
    if isinstance(exc, TimeoutError):
        return "E:timeout"
    if isinstance(exc, McuBootError):
        return "E:mboot"
    if isinstance(exc, SPSDKError):
        return "E:spsdk"
    return "E:other"


def canon_val(v):
    if v is None:
        return "ok:none"
    if v is True:
        return "ok:true"
    if v is False:
        return "ok:false"
    if isinstance(v, (bytes, bytearray)):
        return "ok:b:" + hx(v)
    if isinstance(v, list):
        return "ok:i:" + (";".join(str(x) for x in v) if v else "-")
    return "ok:?" + type(v).__name__


def op_data(op):
    return gen_bytes(op["seed"], op["n"])


def call_op(mb, op):
    k = op["op"]
    if k == "open":
        mb.open()
        return "ok:unit"
    if k == "get_property":
        return canon_val(mb.get_property(op["tag"], op["index"]))
    if k == "set_property":
        return canon_val(mb.set_property(op["tag"], op["value"]))
    if k == "fill_memory":
        return canon_val(mb.fill_memory(op["addr"], op["n"], op["pattern"]))
    if k == "flash_erase_region":
        return canon_val(mb.flash_erase_region(op["addr"], op["n"], op["mem_id"]))
    if k == "flash_erase_all":
        return canon_val(mb.flash_erase_all(op["mem_id"]))
    if k == "execute":
        return canon_val(mb.execute(op["addr"], op["arg"], op["sp"]))
    if k == "call":
        return canon_val(mb.call(op["addr"], op["arg"]))
    if k == "flash_erase_all_unsecure":
        return canon_val(mb.flash_erase_all_unsecure())
    if k == "configure_memory":
        return canon_val(mb.configure_memory(op["addr"], op["mem_id"]))
    if k == "reliable_update":
        return canon_val(mb.reliable_update(op["addr"]))
    if k == "read_memory":
        return canon_val(mb.read_memory(op["addr"], op["n"], op["mem_id"], fast_mode=bool(op["fast"])))
    if k == "write_memory":
        return canon_val(mb.write_memory(op["addr"], op_data(op), op["mem_id"]))
    if k == "receive_sb_file":
        return canon_val(mb.receive_sb_file(op_data(op), check_errors=bool(op["check"])))
    if k == "load_image":
        return canon_val(mb.load_image(op_data(op)))
    if k == "flash_read_once":
        return canon_val(mb.flash_read_once(op["index"], op["count"]))
    if k == "flash_program_once":
        return canon_val(mb.flash_program_once(op["index"], op_data(op)))
    if k == "efuse_read_once":
        v = mb.efuse_read_once(op["index"])
        return "ok:none" if v is None else f"ok:n:{v}"
    if k == "efuse_program_once":
        return canon_val(mb.efuse_program_once(op["index"], op["value"], bool(op["verify"])))
    if k == "flash_read_resource":
        return canon_val(mb.flash_read_resource(op["addr"], op["n"], op["option"]))
    if k == "kp_enroll":
        return canon_val(mb.kp_enroll())
    if k == "kp_set_intrinsic_key":
        return canon_val(mb.kp_set_intrinsic_key(op["key_type"], op["key_size"]))
    if k == "kp_write_nonvolatile":
        return canon_val(mb.kp_write_nonvolatile(op["mem_id"]))
    if k == "kp_read_nonvolatile":
        return canon_val(mb.kp_read_nonvolatile(op["mem_id"]))
    if k == "kp_set_user_key":
        return canon_val(mb.kp_set_user_key(op["key_type"], op_data(op)))
    if k == "kp_write_key_store":
        return canon_val(mb.kp_write_key_store(op_data(op)))
    if k == "kp_read_key_store":
        return canon_val(mb.kp_read_key_store())
    if k == "reset":
        return canon_val(mb.reset(timeout=0, reopen=bool(op["reopen"])))
    if k == "update_life_cycle":
        return canon_val(mb.update_life_cycle(op["value"]))
    if k == "ele_message":
        return canon_val(mb.ele_message(*op["args"]))
    if k == "tp_oem_set_master_share":
        return canon_val(mb.tp_oem_set_master_share(*op["args"]))
    if k == "tp_hsm_enc_blk":
        return canon_val(mb.tp_hsm_enc_blk(*op["args"]))
    if k == "fuse_program":
        return canon_val(mb.fuse_program(op["addr"], op_data(op), op["mem_id"]))
    if k == "fuse_read":
        return canon_val(mb.fuse_read(op["addr"], op["n"], op["mem_id"]))
    raise ValueError(k)


def op_line(op):
    k = op["op"]
    if k == "open":
        return "op open"
    if k == "get_property":
        return f"op get_property {op['tag']} {op['index']}"
    if k == "set_property":
        return f"op set_property {op['tag']} {op['value']}"
    if k == "fill_memory":
        return f"op fill_memory {op['addr']} {op['n']} {op['pattern']}"
    if k == "flash_erase_region":
        return f"op flash_erase_region {op['addr']} {op['n']} {op['mem_id']}"
    if k == "flash_erase_all":
        return f"op flash_erase_all {op['mem_id']}"
    if k == "execute":
        return f"op execute {op['addr']} {op['arg']} {op['sp']}"
    if k == "call":
        return f"op call {op['addr']} {op['arg']}"
    if k == "flash_erase_all_unsecure":
        return "op flash_erase_all_unsecure"
    if k == "configure_memory":
        return f"op configure_memory {op['addr']} {op['mem_id']}"
    if k == "reliable_update":
        return f"op reliable_update {op['addr']}"
    if k == "read_memory":
        return f"op read_memory {op['addr']} {op['n']} {op['mem_id']} {int(op['fast'])}"
    if k == "write_memory":
        return f"op write_memory {op['addr']} {hx(op_data(op))} {op['mem_id']}"
    if k == "receive_sb_file":
        return f"op receive_sb_file {hx(op_data(op))} {int(op['check'])}"
    if k == "load_image":
        return f"op load_image {hx(op_data(op))}"
    if k == "flash_read_once":
        return f"op flash_read_once {op['index']} {op['count']}"
    if k == "flash_program_once":
        return f"op flash_program_once {op['index']} {hx(op_data(op))}"
    if k == "efuse_read_once":
        return f"op efuse_read_once {op['index']}"
    if k == "efuse_program_once":
        return f"op efuse_program_once {op['index']} {op['value']} {int(op['verify'])}"
    if k == "flash_read_resource":
        return f"op flash_read_resource {op['addr']} {op['n']} {op['option']}"
    if k == "kp_enroll":
        return "op kp_enroll"
    if k == "kp_set_intrinsic_key":
        return f"op kp_set_intrinsic_key {op['key_type']} {op['key_size']}"
    if k in ("kp_write_nonvolatile", "kp_read_nonvolatile"):
        return f"op {k} {op['mem_id']}"
    if k == "kp_set_user_key":
        return f"op kp_set_user_key {op['key_type']} {hx(op_data(op))}"
    if k == "kp_write_key_store":
        return f"op kp_write_key_store {hx(op_data(op))}"
    if k == "kp_read_key_store":
        return "op kp_read_key_store"
    if k == "reset":
        return f"op reset {int(op['reopen'])}"
    if k == "update_life_cycle":
        return f"op update_life_cycle {op['value']}"
    if k in ("ele_message", "tp_oem_set_master_share", "tp_hsm_enc_blk"):
        return f"op {k} " + " ".join(str(a) for a in op["args"])
    if k == "fuse_program":
        return f"op fuse_program {op['addr']} {hx(op_data(op))} {op['mem_id']}"
    if k == "fuse_read":
        return f"op fuse_read {op['addr']} {op['n']} {op['mem_id']}"
    raise ValueError(k)


def run_real(cfg, transcript, ops, live=None):
    """-> ([(result, status, [tx bytes], reads)], leftover, reads[, recorded transcript when `live` is a responding device])"""
    global _STUBS
    from spsdk.mboot.mcuboot import McuBoot
    from spsdk.mboot.protocol.bulk_protocol import MbootBulkProtocol
    from spsdk.mboot.protocol.serial_protocol import MbootSerialProtocol
    if _STUBS is None:
        _STUBS = make_stub_classes()
    hid = cfg["tr"] == "hid"
    cls = _STUBS[1] if cfg["usb"] else _STUBS[0]
    dev = cls(transcript, hid, bool(cfg["partial"]))
    if live is not None:
        dev.live, dev.recorded = live, []
    proto = _proto_class(MbootBulkProtocol if hid else MbootSerialProtocol)(dev)
    mb = McuBoot(proto, cmd_exception=bool(cfg["ce"]))
    out = []
    for op in ops:
        n0, r0 = len(dev.tx), dev.reads
        try:
            res = call_op(mb, op)
        except Exception as exc:  # noqa: BLE001
            res = classify_exc(exc)
            if isinstance(exc, RuntimeError) and "verif: read budget" in str(exc):
                res = "E:unbounded"
        out.append((res, int(mb.status_code), dev.tx[n0:], dev.reads - r0))
    if live is not None:
        return out, dev.leftover(), dev.reads, dev.recorded
    return out, dev.leftover(), dev.reads


# ----------------------------------------------------------------------------------------------- model side
def cfg_line(cfg):
    return f"cfg {cfg['tr']} {int(cfg['usb'])} {int(cfg['partial'])} {int(cfg['ce'])}"


def dev_mem(dev):
    return gen_bytes(dev["mem_seed"], dev["mem_size"])


def dev_line(dev):
    props = ";".join(f"{k}={v}" for k, v in dev["props"]) or "-"
    rw = ";".join(str(x) for x in dev["rw"]) or "-"
    faults = ";".join(f"{i}:{int(f)}:{s}" for i, f, s in dev["faults"]) or "-"
    return f"dev {hx(dev_mem(dev))} {dev['mp']} {dev['pad']} {dev['dummy']} {props} {rw} {faults}"


def dev_resource(dev):
    return gen_bytes(dev["mem_seed"] + 1, dev.get("res_size", 0))


def dev_keystore(dev):
    return gen_bytes(dev["mem_seed"] + 2, dev.get("ks_size", 0))


def dev2_line(dev):
    fuses = ";".join(f"{k}={v}" for k, v in dev.get("fuses", [])) or "-"
    locked = ";".join(str(x) for x in dev.get("locked", [])) or "-"
    ab = dev.get("abort")
    return f"dev2 {fuses} {locked} {hx(dev_resource(dev))} {hx(dev_keystore(dev))} {int(dev.get('image_mode', False))} {'-' if ab is None else ab}"


def chunk_str(c, hid):
    if hid:
        return "+".join(hx(r) for r in c) if c else "-"
    return hx(c)


def script_line(transcript, hid):
    return "script " + (",".join(chunk_str(c, hid) for c in transcript) if transcript else ".")


def parse_chunk(s, hid):
    if hid:
        return [] if s == "-" else [bytes.fromhex(r) if r != "-" else b"" for r in s.split("+")]
    return b"" if s == "-" else bytes.fromhex(s)


def parse_op_answer(ans, hid):
    """'<res> st=<n> rd=<n> tx=<..> rel=<..>' -> (res, status, [tx], [released chunks], reads)"""
    # defensive: an answer of any other shape is kept verbatim as the "result" so that every comparison with it disagrees
    bad = (f"?{ans!r}", -1, [], [], -1)
    try:
        parts = ans.split(" ")
        if len(parts) != 5:
            return bad
        res, st, rd, tx, rel = parts
        if not (st.startswith("st=") and rd.startswith("rd=") and tx.startswith("tx=") and rel.startswith("rel=")):
            return bad
        txl = [] if tx[3:] == "." else [bytes.fromhex(w) if w != "-" else b"" for w in tx[3:].split(",")]
        rell = [] if rel[4:] == "." else [parse_chunk(c, hid) for c in rel[4:].split(",")]
        return res, int(st[3:]), txl, rell, int(rd[3:])
    except (ValueError, AttributeError, TypeError):
        return bad


def model_live(drv, cfg, dev, ops):
    hid = cfg["tr"] == "hid"
    lines = [cfg_line(cfg), dev_line(dev), dev2_line(dev), "live"] + [op_line(o) for o in ops] + ["state"]
    ans = [str(a) for a in drv.batch(lines)]
    per_op = [parse_op_answer(a, hid) for a in ans[4:4 + len(ops)]]
    per_op += [parse_op_answer("", hid)] * (len(ops) - len(per_op))
    return per_op, (ans[-1] if len(ans) == len(lines) else "?")


def model_script(drv, cfg, transcript, ops):
    hid = cfg["tr"] == "hid"
    lines = [cfg_line(cfg), script_line(transcript, hid)] + [op_line(o) for o in ops]
    ans = [str(a) for a in drv.batch(lines)]
    per_op = [parse_op_answer(a, hid) for a in ans[2:2 + len(ops)]]
    return per_op + [parse_op_answer("", hid)] * (len(ops) - len(per_op))


def canon_op(res, status, tx, reads=None):
    return f"{res} st={status}" + ("" if reads is None else f" rd={reads}") + " tx=" + (",".join(hx(w) for w in tx) if tx else ".")


# ----------------------------------------------------------------------------------------------- python oracle device
class PyDev:
    """Independent re-implementation of the reference bootloader's *effects*, fed with host->device writes."""

    def __init__(self, dev, hid):
        self.mem = bytearray(dev_mem(dev))
        self.mp = dev["mp"]
        self.props = dict(dev["props"])
        self.rw = set(dev["rw"])
        self.faults = {}
        for i, f, st in dev["faults"]:
            self.faults.setdefault((i, bool(f)), st)  # the first entry for a (command index, phase) wins
        self.hid = hid
        self.sb = b""
        self.log = []
        self.ncmd = 0
        self.phase = None  # (tag, addr, remaining)
        self.send = None   # serial device->host data phase paced by ACKs: [tag, chunks, final status]
        self.pad = dev.get("pad", 0)
        self.dummy = dev.get("dummy", 0)
        self.max_data_packet = 0
        self.bad_packets = 0
        self.events = []  # (kind, info) per command, in order: what the device did
        # memories selected by a memory id (QuadSPI 1, SEMC NOR 8, FlexSPI NOR 9, ..., SEMC NAND 0x100, SPI NAND 0x101): what a
        # whole-memory command (FlashEraseAll) does to them is tracked here, next to the internal memory `mem` (id 0)
        self.ext = {i: bytes([i & 0x7F] * 8) for i in EXT_MEM_IDS}
        self.fuses = dict(dev.get("fuses", []))
        self.locked = set(dev.get("locked", []))
        self.resource = dev_resource(dev)
        self.ks = dev_keystore(dev)
        self.keys = {}
        self.image_mode = bool(dev.get("image_mode", False))
        self.image = b""
        self.abort = dev.get("abort")
        self.pkt = 0
        self.kp = None
        self.kpbuf = b""

    def program(self, i, v):
        if i not in self.locked:
            self.fuses[i] = self.fuses.get(i, 0) | v

    def finish(self, tag):
        if tag == 0x15 and self.kp is not None:
            if self.kp[0] == 5:
                self.ks = self.kpbuf
            else:
                self.keys[self.kp[1]] = self.kpbuf

    def state_str(self):
        fuses = ";".join(f"{k}={v}" for k, v in sorted(self.fuses.items())) or "-"
        keys = ";".join(f"{k}={hx(v)}" for k, v in sorted(self.keys.items())) or "-"
        return f"mem={hx(self.mem)} sb={hx(self.sb)} ncmd={self.ncmd} img={hx(self.image)} ks={hx(self.ks)} fuses={fuses} keys={keys}"

    def feed(self, w):
        """apply one host write (effects only).  Same state machine as the live device (`respond`): in particular a serial device that
        still owes data / the final response of a command (paced by the host's ACKs) does not take stray data frames as image data."""
        self.respond(w)

    def command(self, p):
        if len(p) < 4 or len(p) != 4 + 4 * p[3]:
            self.bad_packets += 1
            return
        tag, params = p[0], list(struct.unpack_from(f"<{p[3]}I", p, 4))
        idx = self.ncmd
        self.ncmd += 1
        self.phase = None
        self.send = None
        self.pkt = 0
        ev = {"tag": tag, "params": params, "status": 0, "idx": idx}
        self.events.append(ev)
        if (idx, False) in self.faults:
            ev["status"] = self.faults[(idx, False)]
            return
        fin = self.faults.get((idx, True), 0)
        n = len(self.mem)
        if tag == 7 and len(params) == 2:
            t = params[0]
            if t == MP_PROP:
                ev["values"] = [self.mp]
            elif t in self.props:
                ev["values"] = [self.props[t]]
            else:
                ev["status"] = 10300
        elif tag == 12 and len(params) == 2:
            t, v = params
            if t in self.rw:
                self.props[t] = v
            elif t in self.props or t == MP_PROP:
                ev["status"] = 10301
            else:
                ev["status"] = 10300
        elif tag == 5 and len(params) == 3:
            a, ln, pat = params
            if a + ln <= n:
                self.mem[a:a + ln] = (struct.pack("<I", pat) * (ln // 4 + 1))[:ln]
            else:
                ev["status"] = 10200
        elif tag == 2 and len(params) == 3:
            a, ln, _ = params
            if a + ln <= n:
                self.mem[a:a + ln] = b"\xff" * ln
            else:
                ev["status"] = 10200
        elif tag == 1:
            self.mem[:] = b"\xff" * n  # (the reference device keeps one array for the internal flash: erased for every id, as the Lean device)
            if len(params) == 1 and params[0] in self.ext:
                self.ext[params[0]] = b"\xff" * 8
        elif tag == 3 and len(params) == 3:
            a, ln, _ = params
            if a + ln <= n:
                ev["data"] = bytes(self.mem[a:a + ln])
                ev["final"] = fin
            else:
                ev["status"] = 10200
        elif tag == 4 and len(params) == 3:
            a, ln, _ = params
            if a + ln <= n:
                ev["final"] = fin
                ev["expect"] = ln
                ev["got"] = 0
                if ln:
                    self.phase = [4, a, ln, ev]
            else:
                ev["status"] = 10200
        elif tag == 8 and len(params) == 1:
            self.sb = b""
            ev["final"] = fin
            ev["expect"] = params[0]
            ev["got"] = 0
            if params[0]:
                self.phase = [8, 0, params[0], ev]
        elif tag in (9, 10, 13, 17, 18):
            self.log.append((tag, params))
        elif tag == 11:
            pass
        elif tag == 0x10 and len(params) == 3:
            a, ln, _ = params
            if a + ln <= len(self.resource):
                ev["data"] = self.resource[a:a + ln]
                ev["final"] = fin
            else:
                ev["status"] = 10200
        elif tag == 0x0F and len(params) == 2 and params[1] in (4, 8):
            i, ln = params
            ev["values"] = [self.fuses.get(i, 0)] + ([self.fuses.get(i + 1, 0)] if ln == 8 else [])
        elif tag == 0x0E and len(params) == 3 and params[1] == 4:
            self.program(params[0], params[2])
        elif tag == 0x0E and len(params) == 4 and params[1] == 8:
            self.program(params[0], params[2])
            self.program(params[0] + 1, params[3])
        elif tag == 0x15 and len(params) == 1 and params[0] == 0:
            self.log.append((tag, params))
        elif tag == 0x15 and len(params) == 1 and params[0] == 6:
            ev["data"] = self.ks
            ev["final"] = fin
        elif tag == 0x15 and len(params) == 2 and params[0] in (3, 4):
            self.log.append((tag, params))
        elif tag == 0x15 and len(params) == 3 and params[0] == 2:
            self.log.append((tag, params))
        elif tag == 0x15 and len(params) == 3 and params[0] in (1, 5):
            self.kp = (params[0], params[1])
            self.kpbuf = b""
            ev["final"] = fin
            ev["expect"] = params[2]
            ev["got"] = 0
            if params[2]:
                self.phase = [0x15, 0, params[2], ev]
            else:
                self.finish(0x15)
        elif tag in (0x18, 0x19):
            self.log.append((tag, params))
        elif tag == 0x16 and params and params[0] in (1, 5):
            self.log.append((tag, params))
        elif tag == 0x17 and len(params) == 3:
            a, ln, _ = params    # the fuse / IFR area is the `resource` region
            if a + ln <= len(self.resource):
                ev["data"] = self.resource[a:a + ln]
                ev["final"] = fin
            else:
                ev["status"] = 10200
        elif tag == 0x14 and len(params) == 3:
            self.sb = b""
            self.log.append((tag, params))
            ev["final"] = fin
            ev["expect"] = params[1]
            ev["got"] = 0
            if params[1]:
                self.phase = [0x14, 0, params[1], ev]
        elif tag in (7, 12, 5, 2, 3, 4, 8, 0x10, 0x0F, 0x0E, 0x15, 0x16, 0x17, 0x14):
            ev["status"] = 1
        else:
            ev["status"] = 10000

    def data(self, p):
        """-> ('stray_ok' | 'stray_bad' | 'abort' | 'refused' | 'more' | 'done', event)"""
        self.max_data_packet = max(self.max_data_packet, len(p))
        if self.phase is None:
            if self.image_mode and self.send is None and p and len(p) <= self.mp:
                self.image += p
                return "stray_ok", None
            self.bad_packets += 1
            return "stray_bad", None
        if self.abort is not None and self.pkt == self.abort:
            ev = self.phase[3]
            ev["final"] = 10002
            self.phase = None
            return "abort", ev
        if not p or len(p) > self.mp or len(p) > self.phase[2]:
            self.bad_packets += 1
            ev = self.phase[3]
            ev["final"] = 10002
            self.phase = None
            return "refused", ev
        tag, a, rem, ev = self.phase
        self.pkt += 1
        if tag == 4:
            self.mem[a:a + len(p)] = p
        elif tag == 0x15:
            self.kpbuf += p
        else:
            self.sb += p
        ev["got"] += len(p)
        self.phase[1] += len(p)
        self.phase[2] -= len(p)
        if self.phase[2] == 0:
            self.phase = None
            self.finish(tag)
            return "done", ev
        return "more", ev

    # ---- responses: the reference bootloader as a LIVE device (closed loop with the real host, no Lean involved)
    @staticmethod
    def _generic(st, tag):
        return bytes([0xA0, 0, 0, 2]) + struct.pack("<2I", st & 0xFFFFFFFF, tag)

    def _initial(self, ev):
        """response payload to a command, from what the device did with it"""
        tag, st = ev["tag"], ev["status"]
        if st != 0:
            if tag == 7 and st == 10300 and (ev["idx"], False) not in self.faults:
                return bytes([0xA7, 0, 0, 2]) + struct.pack("<2I", 10300, 0)
            return self._generic(st, tag)
        if tag == 7:
            v = ev["values"]
            return bytes([0xA7, 0, 0, 1 + len(v)]) + struct.pack(f"<{1 + len(v)}I", 0, *v)
        if tag == 0x0F:
            v = ev["values"]
            return bytes([0xAF, 0, 0, 2 + len(v)]) + struct.pack(f"<{2 + len(v)}I", 0, 4 * len(v), *v)
        if "data" in ev:
            rtag = {3: 0xA3, 0x10: 0xB0, 0x15: 0xB5, 0x17: 0xA3}[tag]
            return bytes([rtag, 0, 0, 2]) + struct.pack("<2I", 0, len(ev["data"]))
        return self._generic(0, tag)

    @staticmethod
    def frame(t, p):
        hdr = bytes([0x5A, t]) + struct.pack("<H", len(p))
        return hdr + struct.pack("<H", crc16(hdr + p)) + p

    def report(self, rid, p):
        r = bytes([rid, 0]) + struct.pack("<H", len(p)) + p
        return r + bytes(max(0, self.pad - len(r)))

    def _chunks(self, data):
        return [data[i:i + self.mp] for i in range(0, len(data), self.mp)] if self.mp > 0 else []

    def respond(self, w):
        """one host write in -> what the device sends in reaction (serial: bytes, HID: list of reports); also applies the effects"""
        if self.hid:
            if len(w) < 4:
                return []
            rid, _, ln = struct.unpack_from("<2BH", w)
            p = w[4:4 + ln]
            if len(p) < ln:
                return []
            if rid == 1:
                n0 = len(self.events)
                self.command(p)
                if len(self.events) == n0:
                    return []
                ev = self.events[-1]
                out = [self.report(3, self._initial(ev))]
                if ev["status"] == 0 and "data" in ev:
                    out += [self.report(4, c) for c in self._chunks(ev["data"])] + [self.report(3, self._generic(ev["final"], ev["tag"]))]
                elif ev["status"] == 0 and "expect" in ev and ev["expect"] == 0:
                    out.append(self.report(3, self._generic(ev["final"], ev["tag"])))
                return out
            if rid == 2:
                kind, ev = self.data(p)
                if kind == "abort":
                    return [self.report(3, b""), self.report(3, self._generic(10002, ev["tag"]))]
                if kind == "refused":
                    return [self.report(3, self._generic(10002, ev["tag"]))]
                if kind == "done":
                    return [self.report(3, self._generic(ev["final"], ev["tag"]))]
                return []
            return []
        if w == b"\x5a\xa6":
            body = b"\x5a\xa7" + struct.pack("<IH", 0x50010300, 0)
            return bytes(self.dummy) + body + struct.pack("<H", crc16(body))
        if w == b"\x5a\xa1":
            if self.send is not None:
                tag, chunks, fin = self.send
                if chunks:
                    return self.frame(0xA5, chunks.pop(0))
                self.send = None
                return self.frame(0xA4, self._generic(fin, tag))
            return b""
        nak = b"\x5a\xa2"
        if len(w) < 6 or w[0] != 0x5A:
            return nak
        t, ln, crc = w[1], w[2] | w[3] << 8, w[4] | w[5] << 8
        p = w[6:]
        if len(p) != ln or crc16(w[:4] + p) != crc:
            self.bad_packets += 1
            return nak
        ack = b"\x5a\xa1"
        if t == 0xA4:
            n0 = len(self.events)
            self.command(p)
            if len(self.events) == n0:
                return nak
            ev = self.events[-1]
            if ev["status"] == 0 and "data" in ev:
                self.send = [ev["tag"], self._chunks(ev["data"]), ev["final"]]
            elif ev["status"] == 0 and "expect" in ev and ev["expect"] == 0:
                self.send = [ev["tag"], [], ev["final"]]
            return ack + self.frame(0xA4, self._initial(ev))
        if t == 0xA5:
            kind, ev = self.data(p)
            if kind == "abort":
                return b"\x5a\xa3" + self.frame(0xA4, self._generic(10002, ev["tag"]))
            if kind == "refused":
                return ack + self.frame(0xA4, self._generic(10002, ev["tag"]))
            if kind == "done":
                return ack + self.frame(0xA4, self._generic(ev["final"], ev["tag"]))
            if kind in ("more", "stray_ok"):
                return ack
            return nak
        return nak


class FaultedLink:
    """The python reference device behind a link with ONE fault (closed loop with the real host).

    As long as the host writes what it wrote in the fault-free run, the i-th write releases the i-th chunk of the faulted recording `t2`
    (identical history: that IS the device's answer with the fault applied where it was placed).  A fault can change what the host sends next
    (e.g. a lost answer to the max-packet-size query makes McuBoot fall back to 32-byte packets and re-chunk a UsbDevice read): from the first
    write that differs, the recording is no longer what a device would answer to THIS host, so the device - which has received every host write
    intact - answers live; a fault that kills the link (truncate / noresp) keeps it dead."""

    def __init__(self, dev, hid, t2, base_tx, fault):
        self.dev = PyDev(dev, hid)
        self.hid, self.t2, self.base, self.i, self.diverged = hid, t2, base_tx, 0, False
        self.ci = fault.get("chunk", 0)
        self.dead = fault["kind"] in ("truncate", "noresp")

    def respond(self, w):
        i = self.i
        self.i += 1
        out = self.dev.respond(w)
        if not self.diverged and i < len(self.base) and i < len(self.t2) and w == self.base[i]:
            return self.t2[i]
        self.diverged = True
        if self.dead and i > self.ci:
            return [] if self.hid else b""
        return out


def expected_success(op, evs, cfg, verify_ok=True):
    """no-fault pass: does the protocol say this op succeeds?  evs = device events caused by the op."""
    if op["op"] == "efuse_program_once" and op["verify"] and not verify_ok:
        return False
    for ev in evs:
        if ev["tag"] == 7 and ev["params"][:1] == [MP_PROP] and op["op"] != "get_property":
            continue  # the max-packet-size query of _split_data/_get_max_packet_size: failure falls back to the default
        if ev["status"] != 0 or ev.get("final", 0) != 0:
            return False
        if "expect" in ev and ev["got"] != ev["expect"]:
            return False
    return True


# ----------------------------------------------------------------------------------------------- generators
MP_CLASSES = [32, 56, 512, 1016]
STATUSES = [1, 4, 10000, 10002, 10200, 10300, 0x12345678]


def gen_cfg(rng):
    tr = rng.choice(["serial", "hid"])
    return {"tr": tr, "usb": tr == "hid" and rng.random() < 0.6, "partial": tr == "serial" and rng.random() < 0.4, "ce": rng.random() < 0.5}


def gen_dev(rng, cfg, big=False):
    mp = rng.choice(MP_CLASSES + [rng.choice([1, 4, 7, 33])] if not big else MP_CLASSES)
    size = rng.choice([64, 200, 600, 2100] if not big else [70000, 66000])
    return {"mem_seed": rng.randrange(1 << 30), "mem_size": size, "mp": mp,
            "pad": rng.choice([0, 0, mp + 4, 1020 if mp <= 1016 else 0]) if cfg["tr"] == "hid" else 0,
            "dummy": rng.choice([0, 0, 0, 1, 3, 49, 50]) if cfg["tr"] == "serial" else 0,
            "props": [(1, 0x4B030100), (2, 0x13), (10, rng.randrange(2)), (20, rng.getrandbits(32))],
            "rw": [10, 20], "faults": [],
            "fuses": [(3, rng.getrandbits(32)), (4, 0xFF00), (9, 1)], "locked": [4], "res_size": rng.choice([0, 16, 64]),
            "ks_size": rng.choice([0, 1, 17, 100]), "image_mode": rng.random() < 0.5, "abort": rng.choice([None] * 6 + [0, 1, 2])}


def gen_len(rng, mp, cap):
    c = rng.choice([0, 1, mp - 1, mp, mp + 1, 2 * mp, 2 * mp + 1, 3 * mp - 1, rng.randrange(0, 4 * mp + 2), rng.randrange(0, cap + 1)])
    return max(0, min(c, cap))


def gen_op(rng, cfg, dev, first, malformed=False):
    size, mp = dev["mem_size"], dev["mp"]
    kinds = ["read_memory"] * 5 + ["write_memory"] * 5 + ["get_property"] * 2 + ["set_property", "fill_memory", "flash_erase_region",
                                                                                  "flash_erase_all", "receive_sb_file", "receive_sb_file", "execute", "call",
                                                                                  "flash_erase_all_unsecure", "configure_memory", "reliable_update"]
    kinds += ["load_image", "load_image", "flash_read_once", "flash_program_once", "efuse_read_once", "efuse_program_once", "efuse_program_once",
              "flash_read_resource", "kp_enroll", "kp_set_intrinsic_key", "kp_write_nonvolatile", "kp_read_nonvolatile", "kp_set_user_key",
              "kp_write_key_store", "kp_read_key_store", "reset"]
    kinds += ["update_life_cycle", "ele_message", "tp_oem_set_master_share", "tp_hsm_enc_blk", "fuse_program", "fuse_program", "fuse_read", "fuse_read"]
    if cfg["tr"] == "serial":
        kinds += ["open"] * (6 if first else 1)
    k = rng.choice(kinds)
    mem_id = rng.choice([0, 0, 0, 1, 4, 8, 9, 10, 16, 255, 0x100, 0x101, 0x110])
    op = {"op": k}
    if k in ("read_memory", "write_memory", "fill_memory", "flash_erase_region"):
        n = gen_len(rng, mp, min(size, 5000 if size < 10000 else size))
        a = rng.choice([0, size - n, rng.randrange(0, size - n + 1)])
        if rng.random() < 0.08:
            a = size - n + rng.choice([1, 5])  # out of range -> device error status
        op.update(addr=a, n=n, mem_id=mem_id)
        if k == "read_memory":
            op["fast"] = rng.random() < 0.3
        if k == "write_memory":
            op["seed"] = rng.randrange(1 << 30)
        if k == "fill_memory":
            op["pattern"] = rng.choice([0xFFFFFFFF, 0, 0x01020304, rng.getrandbits(32)])
            del op["mem_id"]
    elif k == "receive_sb_file":
        op.update(n=gen_len(rng, mp, 3000), seed=rng.randrange(1 << 30), check=rng.random() < 0.4)
    elif k == "get_property":
        op.update(tag=rng.choice([1, 2, 10, 11, 11, 20, 5, 77]), index=rng.choice([0, 0, 1, 9]))
    elif k == "set_property":
        op.update(tag=rng.choice([10, 20, 1, 11, 77]), value=rng.choice([0, 1, rng.getrandbits(32)]))
    elif k == "flash_erase_all":
        op.update(mem_id=mem_id)
    elif k == "execute":
        op.update(addr=rng.getrandbits(32), arg=rng.getrandbits(32), sp=rng.getrandbits(32))
    elif k == "call":
        op.update(addr=rng.getrandbits(32), arg=rng.getrandbits(32))
    elif k == "configure_memory":
        op.update(addr=rng.getrandbits(32), mem_id=mem_id)
    elif k == "reliable_update":
        op.update(addr=rng.getrandbits(32))
    elif k in ("load_image", "kp_set_user_key", "kp_write_key_store"):
        op.update(n=gen_len(rng, mp, 1500), seed=rng.randrange(1 << 30))
        if k == "kp_set_user_key":
            op.update(key_type=rng.choice([2, 3, 7, 11]))
    elif k == "flash_read_once":
        op.update(index=rng.choice([3, 4, 9, 30]), count=rng.choice([4, 4, 8, 8, 5, 0]))
    elif k == "flash_program_once":
        op.update(index=rng.choice([3, 4, 9, 30]), n=rng.choice([4, 4, 8, 8, 3, 12]), seed=rng.randrange(1 << 30))
    elif k == "efuse_read_once":
        op.update(index=rng.choice([3, 4, 9, 30]))
    elif k == "efuse_program_once":
        op.update(index=rng.choice([3, 4, 9, 30, 0x01000003]), value=rng.choice([1, 0xFF, 0xFF00, rng.getrandbits(32)]), verify=rng.random() < 0.6)
    elif k == "flash_read_resource":
        rs = dev.get("res_size", 0)
        n = rng.choice([0, 4, 8, 16, 6, rs])
        op.update(addr=rng.choice([0, 4, max(0, rs - n), rs]), n=n, option=rng.choice([0, 1]))
    elif k == "kp_set_intrinsic_key":
        op.update(key_type=rng.choice([2, 3, 7]), key_size=rng.choice([16, 32]))
    elif k in ("kp_write_nonvolatile", "kp_read_nonvolatile"):
        op.update(mem_id=rng.choice([0, 1, 9]))
    elif k == "reset":
        op.update(reopen=rng.random() < 0.6)
    elif k == "update_life_cycle":
        op.update(value=rng.choice([0, 1, 0x5A, 0xFF, rng.getrandbits(32)]))
    elif k in ("ele_message", "tp_oem_set_master_share", "tp_hsm_enc_blk"):
        op.update(args=[rng.choice([0, 1, 0x20000000, rng.getrandbits(32)]) for _ in range({"ele_message": 4, "tp_oem_set_master_share": 4, "tp_hsm_enc_blk": 8}[k])])
    elif k == "fuse_program":
        op.update(addr=rng.choice([0, 4, rng.getrandbits(32)]), n=gen_len(rng, mp, 600), seed=rng.randrange(1 << 30), mem_id=mem_id)
    elif k == "fuse_read":
        rs = dev.get("res_size", 0)
        n = rng.choice([0, 1, 4, 7, 16, rs, gen_len(rng, mp, rs)])
        op.update(addr=rng.choice([0, 4, max(0, rs - n), rs]), n=n, mem_id=mem_id)
    if malformed and rng.random() < 0.5:
        for key in ("addr", "value", "arg", "pattern", "index"):
            if key in op and rng.random() < 0.4:
                op[key] = rng.choice([1 << 32, (1 << 32) + 5, 1 << 40])
    return op


def gen_ops(rng, cfg, dev, nmax=8, malformed=False):
    n = rng.randint(1, nmax)
    return [gen_op(rng, cfg, dev, i == 0, malformed) for i in range(n)]


# ----------------------------------------------------------------------------------------------- transcript walking / faults
def walk_serial(chunk):
    """-> list of (kind, start, end, extra) items of one released serial chunk."""
    items, i, n = [], 0, len(chunk)
    while i < n:
        if chunk[i] == 0:
            items.append(("dummy", i, i + 1, None))
            i += 1
        elif chunk[i] == 0x5A and i + 1 < n and chunk[i + 1] in (0xA1, 0xA2, 0xA3):
            items.append(("ack", i, i + 2, None))
            i += 2
        elif chunk[i] == 0x5A and i + 1 < n and chunk[i + 1] == 0xA7:
            items.append(("ping", i, min(n, i + 10), None))
            i += 10
        elif chunk[i] == 0x5A and i + 5 < n:
            ln = chunk[i + 2] | chunk[i + 3] << 8
            items.append(("frame", i, min(n, i + 6 + ln), chunk[i + 1]))
            i += 6 + ln
        else:
            items.append(("junk", i, n, None))
            i = n
    return items


def serial_role(item, off):
    kind, s, _e, _x = item
    if kind == "frame":
        r = off - s
        return "start" if r == 0 else "type" if r == 1 else "len" if r < 4 else "crc" if r < 6 else "payload"
    if kind == "ack":
        return "ack_start" if off == s else "ack_type"
    return kind


STRICT_SERIAL_ROLES = {"type", "crc", "payload", "ack_type"}


def refresh_frame_crc(frame):
    body = frame[:4] + frame[6:]
    c = crc16(body)
    return frame[:4] + bytes([c & 0xFF, c >> 8]) + frame[6:]


def apply_fault(transcript, fault, hid):
    """-> new transcript (list of chunks)."""
    t = [list(c) if hid else bytes(c) for c in transcript]
    k = fault["kind"]
    if k == "none":
        return t
    if not hid:
        if k == "corrupt":
            ci, off = fault["chunk"], fault["off"]
            c = bytearray(t[ci])
            c[off] ^= fault["xor"]
            t[ci] = bytes(c)
        elif k == "truncate":
            ci, off = fault["chunk"], fault["off"]
            t[ci] = t[ci][:off]
            for j in range(ci + 1, len(t)):
                t[j] = b""
        elif k in ("nak", "abort"):
            ci, off = fault["chunk"], fault["off"]
            c = bytearray(t[ci])
            c[off + 1] = 0xA2 if k == "nak" else 0xA3
            t[ci] = bytes(c)
        elif k == "abort_frame":  # an ABORT frame in place of a whole frame
            ci, s, e = fault["chunk"], fault["start"], fault["end"]
            t[ci] = t[ci][:s] + b"\x5a\xa3" + t[ci][e:]
        elif k == "errstatus":
            ci, s, e = fault["chunk"], fault["start"], fault["end"]
            fr = bytearray(t[ci][s:e])
            fr[10:14] = struct.pack("<I", fault["status"])
            t[ci] = t[ci][:s] + refresh_frame_crc(bytes(fr)) + t[ci][e:]
        elif k == "zero_len":  # frame header announcing length 0 (= abort), rest of the frame dropped
            ci, s, e = fault["chunk"], fault["start"], fault["end"]
            t[ci] = t[ci][:s] + t[ci][s:s + 2] + b"\x00\x00" + t[ci][s + 4:s + 6] + t[ci][e:]
        elif k == "delete":
            ci, off = fault["chunk"], fault["off"]
            t[ci] = t[ci][:off] + t[ci][off + 1:]
        elif k == "insert":
            ci, off = fault["chunk"], fault["off"]
            t[ci] = t[ci][:off] + bytes([fault["byte"]]) + t[ci][off:]
        elif k == "drop_frame":
            ci, s, e = fault["chunk"], fault["start"], fault["end"]
            t[ci] = t[ci][:s] + t[ci][e:]
        else:
            raise ValueError(k)
        return t
    ci, ri = fault.get("chunk"), fault.get("report")
    if k == "truncate":
        t[ci] = t[ci][:ri] + [t[ci][ri][:fault["len"]]]
        for j in range(ci + 1, len(t)):
            t[j] = []
    elif k == "short_report":  # this report is cut short, the following ones still arrive
        t[ci][ri] = t[ci][ri][:fault["len"]]
    elif k == "drop_report":
        del t[ci][ri]
    elif k == "noresp":
        t[ci] = t[ci][:ri]
        for j in range(ci + 1, len(t)):
            t[j] = []
    elif k == "abort":
        r = t[ci][ri]
        t[ci][ri] = r[:2] + b"\x00\x00" + r[4:]
    elif k == "errstatus":
        r = bytearray(t[ci][ri])
        r[8:12] = struct.pack("<I", fault["status"])
        t[ci][ri] = bytes(r)
    elif k == "corrupt":
        r = bytearray(t[ci][ri])
        r[fault["off"]] ^= fault["xor"]
        t[ci][ri] = bytes(r)
    else:
        raise ValueError(k)
    return t


def enumerate_faults(transcript, hid, rng, per_position_values=1):
    """All fault placements for one transcript: (fault dict, strict?) ."""
    out = []
    if not hid:
        for ci, c in enumerate(transcript):
            for item in walk_serial(c):
                kind, s, e, x = item
                for off in range(s, e):
                    role = serial_role(item, off)
                    for _ in range(per_position_values):
                        out.append(({"kind": "corrupt", "chunk": ci, "off": off, "xor": rng.choice([1, 0x80, 0xFF, rng.randrange(1, 256)]), "role": role},
                                    role in STRICT_SERIAL_ROLES))
                    out.append(({"kind": "truncate", "chunk": ci, "off": off}, True))
                    if rng.random() < 0.15:
                        out.append(({"kind": "delete", "chunk": ci, "off": off}, False))
                        out.append(({"kind": "insert", "chunk": ci, "off": off, "byte": rng.choice([0, 0x5A, 0xA1, rng.randrange(256)])}, False))
                if kind == "ack":
                    out.append(({"kind": "nak", "chunk": ci, "off": s}, True))
                    out.append(({"kind": "abort", "chunk": ci, "off": s}, True))
                if kind == "frame":
                    out.append(({"kind": "abort_frame", "chunk": ci, "start": s, "end": e}, True))
                    out.append(({"kind": "zero_len", "chunk": ci, "start": s, "end": e}, True))
                    out.append(({"kind": "drop_frame", "chunk": ci, "start": s, "end": e}, False))
                    if x == 0xA4 and e - s >= 14:
                        out.append(({"kind": "errstatus", "chunk": ci, "start": s, "end": e, "status": rng.choice(STATUSES)}, True))
            out.append(({"kind": "truncate", "chunk": ci, "off": len(c)}, True))
        return out
    for ci, c in enumerate(transcript):
        for ri, r in enumerate(c):
            plen = r[2] | r[3] << 8 if len(r) >= 4 else 0
            for ln in sorted({0, 1, 3, 4, 5, 4 + plen // 2, 4 + plen - 1}):
                if 0 <= ln < 4 + plen:
                    out.append(({"kind": "truncate", "chunk": ci, "report": ri, "len": ln}, True))
                    out.append(({"kind": "short_report", "chunk": ci, "report": ri, "len": ln}, True))
            out.append(({"kind": "drop_report", "chunk": ci, "report": ri}, True))
            out.append(({"kind": "noresp", "chunk": ci, "report": ri}, True))
            out.append(({"kind": "abort", "chunk": ci, "report": ri}, True))
            if r[0] == 3 and len(r) >= 12:
                out.append(({"kind": "errstatus", "chunk": ci, "report": ri, "status": rng.choice(STATUSES)}, True))
            for off in sorted({0, 1, 2, 3, 4, 8, 4 + plen - 1, rng.randrange(0, 4 + plen)}):
                if off < len(r):
                    out.append(({"kind": "corrupt", "chunk": ci, "report": ri, "off": off, "xor": rng.choice([1, 0x80, 0xFF])}, False))
    return out


# ----------------------------------------------------------------------------------------------- oracle
def is_success(res, status):
    return status == SUCCESS and res.startswith("ok:") and res not in ("ok:none", "ok:false")


def oracle_op(s, case, op, res, status, tx, pre_mem, pre_sb, pydev, evs, strict, nofault, cfg):
    """The property's executable statement for one finished operation of the real host."""
    ok = is_success(res, status)
    k = op["op"]
    viol = []
    if ok:
        if k == "read_memory" and op["n"] == 0:
            pass  # nothing requested, nothing to get wrong
        elif k == "read_memory":
            want = bytes(pre_mem[op["addr"]:op["addr"] + op["n"]]) if op["addr"] + op["n"] <= len(pre_mem) else None
            got = bytes.fromhex(res[5:]) if res[5:] != "-" else b""
            if want is None or got != want:
                viol.append(("read_memory reports success but the returned bytes are not exactly the device's bytes for the requested range",
                             {"returned_len": len(got), "requested": op["n"], "first_diff": next((i for i, (a, b) in enumerate(zip(got, want or b"")) if a != b), None)}))
        elif k == "write_memory":
            data = op_data(op)
            a = op["addr"]
            want = bytes(pre_mem[:a]) + data + bytes(pre_mem[a + len(data):])
            if a + len(data) > len(pre_mem) or bytes(pydev.mem) != want:
                viol.append(("write_memory reports success but the device memory does not hold exactly the written bytes (once, in order, nothing else touched)", None))
        elif k == "receive_sb_file":
            if pydev.sb != op_data(op):
                viol.append(("receive_sb_file reports success but the device did not receive exactly the file", {"got": len(pydev.sb), "sent": op["n"]}))
        elif k == "fill_memory":
            a, n = op["addr"], op["n"]
            want = bytes(pre_mem[:a]) + (struct.pack("<I", op["pattern"] & 0xFFFFFFFF) * (n // 4 + 1))[:n] + bytes(pre_mem[a + n:])
            if a + n > len(pre_mem) or bytes(pydev.mem) != want:
                viol.append(("fill_memory reports success but the device memory is not the filled range", None))
        elif k == "flash_erase_region":
            a, n = op["addr"], op["n"]
            want = bytes(pre_mem[:a]) + b"\xff" * n + bytes(pre_mem[a + n:])
            if a + n > len(pre_mem) or bytes(pydev.mem) != want:
                viol.append(("flash_erase_region reports success but the device memory is not the erased range", None))
        elif k == "get_property":
            ev = [e for e in evs if e["tag"] == 7]
            want = ev[-1].get("values") if ev else None
            got = [int(x) for x in res[5:].split(";")] if res[5:] != "-" else []
            if want is None or got != want:
                viol.append(("get_property reports a value the device did not send", {"got": got, "device": want}))
        elif k == "set_property":
            if pydev.props.get(op["tag"]) != op["value"]:
                viol.append(("set_property reports success but the device property is not the value", None))
        elif k == "load_image" and not (pydev.hid and not pydev.image_mode) and not (pydev.mp < 32 and pydev.max_data_packet > pydev.mp):
            # (second exemption: after a failed size query McuBoot falls back to 32-byte packets, which only the stub's tiny devices refuse)
            # (over HID load_image expects neither ACK nor response: a device that is not collecting an image cannot be noticed)
            if pydev.image != pydev.pre["image"] + op_data(op):
                viol.append(("load_image reports success but the device did not collect exactly the image", {"got": len(pydev.image) - len(pydev.pre["image"]), "sent": op["n"]}))
        elif k == "kp_set_user_key":
            if pydev.keys.get(op["key_type"]) != op_data(op):
                viol.append(("kp_set_user_key reports success but the device does not hold exactly the key", None))
        elif k == "kp_write_key_store":
            if pydev.ks != op_data(op):
                viol.append(("kp_write_key_store reports success but the device key store is not exactly the data", None))
        elif k == "kp_read_key_store":
            got = bytes.fromhex(res[5:]) if res[5:] != "-" else b""
            if got != pydev.pre["ks"]:
                viol.append(("kp_read_key_store reports success but the returned bytes are not the device's key store", {"returned_len": len(got)}))
        elif k == "flash_read_resource":
            got = bytes.fromhex(res[5:]) if res[5:] != "-" else b""
            a, n = op["addr"], op["n"]
            if a + n > len(pydev.resource) or got != pydev.resource[a:a + n]:
                viol.append(("flash_read_resource reports success but the returned bytes are not exactly the device's bytes", {"returned_len": len(got)}))
        elif k == "fuse_program":
            if pydev.sb != op_data(op):
                viol.append(("fuse_program reports success but the device did not receive exactly the fuse data (once, in order)", {"got": len(pydev.sb), "sent": op["n"]}))
        elif k == "fuse_read":
            got = bytes.fromhex(res[5:]) if res[5:] != "-" else b""
            a, n = op["addr"], op["n"]
            if a + n > len(pydev.resource) or got != pydev.resource[a:a + n]:
                viol.append(("fuse_read reports success but the returned bytes are not exactly the device's bytes", {"returned_len": len(got), "requested": n}))
        elif k == "efuse_read_once":
            if res != f"ok:n:{pydev.pre['fuses'].get(op['index'], 0)}":
                viol.append(("efuse_read_once reports a value the device does not hold", res))
        elif k == "flash_read_once":
            got = bytes.fromhex(res[5:]) if res[5:] != "-" else b""
            want = b"".join(struct.pack("<I", pydev.pre["fuses"].get(op["index"] + j, 0)) for j in range(op["count"] // 4))
            if got != want:
                viol.append(("flash_read_once reports bytes the device does not hold", res[:40]))
        elif k == "efuse_program_once" and op["verify"]:
            if pydev.fuses.get(op["index"] & 0xFFFFFF, 0) & op["value"] != op["value"]:
                viol.append(("efuse_program_once(verify=True) reports success but the fuse word does not contain the value", None))
        if k in SIMPLE or k in DATA_OPS:
            if not evs and not (k == "read_memory" and op["n"] == 0 and cfg["usb"] and not op["fast"]):
                viol.append((f"{k} reports success although no command reached the device", None))
            for e in evs:
                if e["tag"] == 7 and e["params"][:1] == [MP_PROP] and k != "get_property":
                    continue
                if nofault and (e["status"] != 0 or e.get("final", 0) != 0):
                    viol.append((f"{k} reports success although the device answered with error status", {"device_status": e["status"] or e.get("final")}))
    viol.extend(command_oracle(op, evs, ok, cfg))
    if ok and k == "flash_erase_all":
        m = op["mem_id"]
        want = {i: (b"\xff" * 8 if i == m else v) for i, v in pydev.pre["ext"].items()}
        if pydev.ext != want:
            viol.append(("flash_erase_all(mem_id) reports success but the memory selected by mem_id is not the one that got erased",
                         {"mem_id": m, "erased": [i for i in pydev.ext if pydev.ext[i] != pydev.pre["ext"][i]]}))
    # negotiated size: the device's max packet size, or McuBoot's documented fallback (32) when the query itself failed
    fallback = (not nofault) or bool(pydev.faults)
    if pydev.max_data_packet > (max(pydev.mp, 32) if fallback else pydev.mp):
        viol.append(("a data packet larger than the device's max packet size was sent", {"packet": pydev.max_data_packet, "max": pydev.mp}))
    if res == "E:unbounded":
        viol.append(("the operation did not finish within the bounded number of reads", None))
    return viol


def run_case(ck, s, drv, case, live_cache=None, strict_from=None):
    """case = {cfg, dev, ops, fault}.  Returns (real_per_op, ok)."""
    cfg, dev, ops, fault = case["cfg"], case["dev"], case["ops"], case.get("fault") or {"kind": "none"}
    hid = cfg["tr"] == "hid"
    # 1. closed loop WITHOUT the Lean model: the REAL host against the live python reference device -> results + recorded transcript
    #    (everything the oracle uses comes from here; the Lean model only takes part in s.compare)
    if live_cache is not None and "base" in live_cache:
        base_real, base_left, transcript = live_cache["base"]
    else:
        base_real, base_left, _rd, transcript = run_real(cfg, [], ops, live=PyDev(dev, hid))
        if live_cache is not None:
            live_cache["base"] = (base_real, base_left, transcript)
    writes_per_op = [len(tx) for (_r, _st, tx, _rd2) in base_real]
    nofault = fault["kind"] == "none"
    t2 = apply_fault(transcript, fault, hid)
    # 2. real host: the closed-loop run itself, or the faulted recording replayed for as long as the host writes what it wrote in the
    #    fault-free run (FaultedLink); t2 becomes what was actually released per host write (this is what the model host replays)
    if nofault:
        real, leftover = base_real, base_left
    else:
        base_tx = [w for (_r, _st, tx, _rd2) in base_real for w in tx]
        real, leftover, _reads, t2 = run_real(cfg, t2, ops, live=FaultedLink(dev, hid, t2, base_tx, fault))
    # 3. model (compare only): the model host on the same transcript (open loop), and - without faults - the model host in closed loop
    #    with the LEAN reference device, which must produce the same conversation as the real host with the python reference device
    ok = True
    state = None
    if drv is not None:
        model = model_script(drv, cfg, t2, ops)
        for i, ((res, st, tx, rd), (mres, mst, mtx, _, mrd)) in enumerate(zip(real, model)):
            if not s.compare({"case": case, "op_index": i}, canon_op(res, st, tx, rd), canon_op(mres, mst, mtx, mrd),
                             "operation result / status_code / bytes written / number of device reads differ between McuBoot and the model"):
                ok = False
                break
        if nofault:
            if live_cache is not None and "live" in live_cache:
                live, state = live_cache["live"]
            else:
                live, state = model_live(drv, cfg, dev, ops)
                if live_cache is not None:
                    live_cache["live"] = (live, state)
            ltr = [c for (_r, _st, _tx, rel, _rd3) in live for c in rel]
            s.compare({"case": case, "what": "device conversation"}, [chunk_str(c, hid) for c in transcript], [chunk_str(c, hid) for c in ltr],
                      "what the reference device sends: python reference device (closed loop with McuBoot) vs Lean reference device (closed loop with the model host)")
            for i, ((res, st, tx, rd), (lres, lst, ltx, _, lrd)) in enumerate(zip(real, live)):
                s.compare({"case": case, "op_index": i, "what": "closed loop"}, canon_op(res, st, tx, rd), canon_op(lres, lst, ltx, lrd),
                          "closed loop: McuBoot + python reference device vs model host + Lean reference device")
    # 4. oracle on the real host, with the python reference device fed by the real host's writes
    pydev = PyDev(dev, hid)
    fault_op = None
    if not nofault:
        ci = fault.get("chunk", 0)
        acc = 0
        for i, n in enumerate(writes_per_op):
            acc += n
            if ci < acc:
                fault_op = i
                break
    soft_hits = 0
    for i, (op, (res, st, tx, _rd)) in enumerate(zip(ops, real)):
        pre_mem, pre_sb = bytes(pydev.mem), pydev.sb
        pydev.pre = {"image": pydev.image, "ks": pydev.ks, "fuses": dict(pydev.fuses), "keys": dict(pydev.keys), "ext": dict(pydev.ext)}
        ne = len(pydev.events)
        for w in tx:
            pydev.feed(w)
        evs = pydev.events[ne:]
        strict = nofault or (case.get("strict", True) and (fault_op is None or i <= fault_op))
        verify_ok = not (op["op"] == "efuse_program_once" and op["verify"]) or \
            pydev.fuses.get(op["index"] & 0xFFFFFF, 0) & op["value"] == op["value"]
        viol = oracle_op(s, case, op, res, st, tx, pre_mem, pre_sb, pydev, evs, strict, nofault, cfg)
        if nofault:
            if pydev.mp < 32 and pydev.max_data_packet > pydev.mp:
                # after a failed size query McuBoot sent its 32-byte fallback packets to a stub device with a smaller limit: from here on the
                # link is out of step by construction of the stub (see the packet-size oracle), nothing to demand
                continue
            exp = expected_success(op, evs, cfg, verify_ok)
            if op["op"] == "open":
                # open() does not touch status_code; with >= 50 dummy bytes per ping the link is left out of step (correspondence only)
                if dev["dummy"] < 50 and res != "ok:unit":
                    viol.append(("without any fault open() (ping) fails", {"result": res}))
                continue_ok = True
                for what, obs in viol:
                    s.expect(False, {"case": case, "op_index": i}, what, obs, None)
                continue
            if dev["dummy"] >= 50 and cfg["tr"] == "serial" and any(o["op"] in ("open", "reset") for o in ops[:i + 1]):
                continue
            own = [e for e in evs if not (e["tag"] == 7 and e["params"][:1] == [MP_PROP] and op["op"] != "get_property")]
            if op["op"] == "load_image":
                # no command at all: the data packets themselves are the operation
                if not hid and op["n"] > 0 and is_success(res, st) != pydev.image_mode and not any(o["op"] in ("open", "reset") for o in ops[:i]):
                    viol.append(("without any fault load_image success does not mirror whether the device collected the image", {"result": res, "image_mode": pydev.image_mode}))
                for what, obs in viol:
                    s.expect(False, {"case": case, "op_index": i}, what, obs, None)
                continue
            if op["op"] == "reset":
                for what, obs in viol:
                    s.expect(False, {"case": case, "op_index": i}, what, obs, None)
                continue
            if op["op"] == "read_memory" and op["n"] == 0 and cfg["usb"] and not op["fast"]:
                continue  # zero-length read on a UsbDevice sends no command at all and returns b"" (falsy)
            if not own:
                exp = None  # nothing reached the device (closed interface / unencodable argument): only "no success" is required
            if exp is True and not is_success(res, st):
                viol.append(("without any fault an operation the device carried out is not reported as success", {"result": res[:40], "status": st}))
            if exp is False and is_success(res, st):
                viol.append(("without any fault an operation the device refused is reported as success", {"result": res[:40], "status": st}))
            if exp is None and is_success(res, st):
                viol.append(("an operation that never reached the device is reported as success", {"result": res[:40], "status": st}))
            if exp is not None and op["op"] != "open" and evs:
                # status codes are reported as the device sent them
                last = evs[-1]
                dev_st = last["status"] or last.get("final", 0)
                if "expect" in last and last["status"] == 0 and last["got"] != last["expect"]:
                    dev_st = None
                shown = int(res.split(":")[2]) if res.startswith("E:cmd:") else st
                if op["op"] == "efuse_program_once" and op["verify"] and not verify_ok:
                    dev_st = None  # OTP_VERIFY_FAIL is the host's own verdict
                if dev_st is not None and res.startswith(("ok:", "E:cmd:")) and shown != dev_st:
                    viol.append(("status_code / McuBootCommandError value is not the status the device sent", {"host": shown, "device": dev_st}))
        if (not nofault) and i == fault_op and fault["kind"] in ("nak", "abort") and not hid and is_success(res, st) and op["op"] != "open" \
                and not (op["op"] == "load_image" and op["n"] == 0):
            viol.append(("the device answered a frame of this operation with NAK/ABORT (it did not accept it) but the operation reports success",
                         {"fault": fault["kind"], "result": res[:40]}))
        for what, obs in viol:
            if strict:
                s.expect(False, {"case": case, "op_index": i}, what, obs, None)
                ok = False
            else:
                soft_hits += 1
                lst = ck.extra.setdefault("search_only_examples", [])
                if len(lst) < 40:
                    lst.append({"fault": fault, "op_index": i, "fault_op": fault_op, "op": op["op"], "what": what, "cfg": cfg})
    if nofault:
        # (a device with a packet size below McuBoot's 32-byte fallback refuses the packets sent after a failed size query
        #  and keeps answering: by construction of the stub, not a protocol effect)
        if leftover and not (dev["dummy"] >= 50 and any(o["op"] in ("open", "reset") for o in ops)) and not (pydev.bad_packets and dev["mp"] < 32):
            s.expect(False, {"case": case}, "without any fault the host left bytes of the device unread", leftover, 0)
        # final device state: python reference fed by the REAL host's writes vs the Lean reference device driven by the model host
        want = pydev.state_str()
        got = " ".join(p for p in (state or "").split(" ") if p.startswith(("mem=", "sb=", "ncmd=", "img=", "ks=", "fuses=", "keys=")))
        if state is not None:
            s.compare({"case": case, "what": "final device state"}, want, got, "final memory of the reference device differs (python reference fed by McuBoot's writes vs Lean reference device)")
    return real, ok, soft_hits, transcript


# ----------------------------------------------------------------------------------------------- codec streams
def codec_stream(ck, drv):
    from spsdk.mboot.commands import CmdPacket, CommandTag, parse_cmd_response
    from spsdk.mboot.protocol.bulk_protocol import MbootBulkProtocol, ReportId
    from spsdk.mboot.protocol.serial_protocol import FPType, MbootSerialProtocol
    rng = ck.rng
    s = ck.stream("codec", "frame/CRC/report/command/response codecs called directly: _create_frame, _calc_crc, _parse_frame (incl. every truncation of a "
                  "report), parse_cmd_response on well-formed and malformed payloads (every response tag, every prefix), CmdPacket.to_bytes; "
                  "non-trivial = distinct input")
    reqs = []

    def cls_res(fn, *a):
        try:
            return ("ok", fn(*a))
        except Exception as exc:  # noqa: BLE001
            return (classify_exc(exc),)

    proto = MbootSerialProtocol.__new__(MbootSerialProtocol)
    for n in [0, 1, 2, 5, 31, 32, 33, 255, 256, 257, 1016] + [rng.randrange(0, 2000) for _ in range(ck.budget(40, 300))]:
        d = rng.randbytes(n)
        for ft in (FPType.CMD, FPType.DATA):
            fr = cls_res(proto._create_frame, d, ft)
            s.note(("frame", ft.tag, n))
            reqs.append((("mkframe", ft.tag, hx(d)), f"mkframe {ft.tag} {hx(d)}", hx(fr[1]) if fr[0] == "ok" else fr[0]))
            if fr[0] == "ok":
                f = fr[1]
                s.expect(f[:2] == bytes([0x5A, ft.tag]) and f[2] | f[3] << 8 == n and f[6:] == d and f[4] | f[5] << 8 == crc16(f[:4] + d), ("frame", ft.tag, hx(d)),
                         "serial frame is not 0x5A,type,len16,crc16-xmodem(header+payload),payload", hx(f))
        reqs.append((("crc", hx(d)), f"crc {hx(d)}", str(MbootSerialProtocol._calc_crc(d))))
        s.expect(MbootSerialProtocol._calc_crc(d) == crc16(d), ("crc", hx(d)), "_calc_crc is not CRC-16/XMODEM")
    bulk = MbootBulkProtocol.__new__(MbootBulkProtocol)
    for n in [0, 1, 4, 32, 56, 512, 1016] + [rng.randrange(0, 1100) for _ in range(ck.budget(20, 200))]:
        d = rng.randbytes(n)
        for rid in (ReportId.CMD_OUT, ReportId.DATA_OUT):
            fr = cls_res(bulk._create_frame, d, rid)
            s.note(("report", rid.tag, n))
            reqs.append((("mkreport", rid.tag, hx(d)), f"mkreport {rid.tag} {hx(d)}", hx(fr[1]) if fr[0] == "ok" else fr[0]))
        # incoming data report and every truncation of it: a report shorter than its header says must never yield data
        rep = struct.pack("<2BH", 4, 0, n) + d + bytes(rng.choice([0, 0, 3]))
        cuts = range(0, len(rep) + 1) if n <= 64 else sorted({0, 1, 3, 4, 5, 4 + n // 2, 4 + n - 1, 4 + n, len(rep)})
        for cut in cuts:
            raw = rep[:cut]
            r = cls_res(MbootBulkProtocol._parse_frame, raw)
            s.note(("hidparse", n, cut))
            real = ("ok:data:" + hx(r[1])) if r[0] == "ok" and isinstance(r[1], bytes) else r[0] if r[0] != "ok" else "ok:resp"
            reqs.append((("hidparse", hx(raw)), f"hidparse {hx(raw)}", real))
            if n > 0:
                complete = cut >= 4 + n
                s.expect((r[0] == "ok" and r[1] == d) if complete else r[0].startswith("E:"), ("hidparse", hx(raw)),
                         "HID _parse_frame: a complete report must yield exactly its payload; a report shorter than its length field must be refused",
                         real, "payload" if complete else "error")
    # parse_cmd_response
    def resp_real(data):
        r = cls_res(parse_cmd_response, data)
        if r[0] != "ok":
            return r[0]
        o = r[1]
        kind = {"GenericResponse": "generic", "GetPropertyResponse": "getProperty", "ReadMemoryResponse": "readMemory",
                "FlashReadResourceResponse": "flashReadResource", "FlashReadOnceResponse": "flashReadOnce", "KeyProvisioningResponse": "keyProv",
                "TrustProvisioningResponse": "trustProv", "CmdResponse": "plain"}.get(type(o).__name__, "?")
        vals = getattr(o, "values", [])
        return (f"ok:{kind}:{o.header.tag}:{o.header.params_count}:{o.status}:{getattr(o, 'cmd_tag', 0)}:{getattr(o, 'length', 0)}:"
                + (";".join(map(str, vals)) if vals else "-"))

    tags = [0xA0, 0xA3, 0xA7, 0xAF, 0xB0, 0xB3, 0xB5, 0xB6, 0xA1, 0x00, 0xFF]
    for tag in tags:
        for pc in (0, 1, 2, 3, 5):
            for extra in (-4, -1, 0, 3, 8):
                body = rng.randbytes(max(0, 4 * pc + extra))
                data = bytes([tag, rng.randrange(256), rng.randrange(256), pc]) + body
                for cut in sorted({len(data), 0, 3, 4, 7, 8, 11, 12}):
                    dd = data[:cut]
                    s.note(("parseresp", tag, pc, extra, cut))
                    reqs.append((("parseresp", hx(dd)), f"parseresp {hx(dd)}", resp_real(dd)))
    # CmdPacket.to_bytes
    for _ in range(ck.budget(60, 400)):
        tag = rng.choice(list(CommandTag))
        flags = rng.choice([0, 1, 255, 256])
        params = [rng.choice([0, 1, 0xFFFFFFFF, 1 << 32, rng.getrandbits(32)]) for _ in range(rng.choice([0, 1, 2, 3, 7]))]
        r = cls_res(lambda: CmdPacket(tag, flags, *params).to_bytes(padding=False))
        s.note(("cmdbytes", tag.tag, flags, tuple(params)))
        reqs.append((("cmdbytes", tag.tag, flags, params), f"cmdbytes {tag.tag} {flags} " + " ".join(map(str, params)), ("ok:" + hx(r[1])) if r[0] == "ok" else r[0]))
    # serial read() on single frames incl. odd frame types and damaged frames
    from spsdk.mboot.protocol.serial_protocol import MbootSerialProtocol as MSP
    PlainStub = (make_stub_classes() if _STUBS is None else _STUBS)[0]
    for _ in range(ck.budget(150, 1500)):
        n = rng.choice([1, 2, 12, 16, 33])
        t = rng.choice([0xA4, 0xA5, 0xA5, 0xA7, 0x00, 0x11, 0xA1, 0xA3])
        p = rng.randbytes(n) if t != 0xA4 or rng.random() < 0.3 else struct.pack("<4B2I", 0xA0, 0, 0, 2, rng.choice([0, 1, 10200]), rng.randrange(20))
        fr = bytearray(bytes([0x5A, t]) + struct.pack("<H", len(p)) + b"\0\0" + p)
        fr = bytearray(refresh_frame_crc(bytes(fr)))
        mode = rng.choice(["ok", "ok", "flip", "cut", "lead0", "len0"])
        if mode == "flip":
            fr[rng.randrange(len(fr))] ^= rng.choice([1, 0x80, 0xFF])
        elif mode == "cut":
            fr = fr[:rng.randrange(len(fr))]
        elif mode == "lead0":
            fr = bytearray(b"\0\0") + fr
        elif mode == "len0":
            fr[2:4] = b"\0\0"
        part = rng.random() < 0.5
        dev = PlainStub([bytes(fr)], False, part)
        dev.write(b"")
        dev.tx.clear()
        pr = MSP(dev)
        r = cls_res(pr.read)
        if r[0] == "ok":
            real = ("ok:data:" + hx(r[1])) if isinstance(r[1], bytes) else resp_real(bytes(p))
        else:
            real = r[0]
        rest = dev.buf[dev.pos:]
        real += f" rest={hx(rest)} tx=" + (",".join(hx(w) for w in dev.tx) if dev.tx else ".")
        s.note(("serialread", mode, t, n, part))
        reqs.append((("serialread", int(part), hx(fr)), f"serialread {int(part)} {hx(fr)}", real))
        if mode == "ok" and t not in (0xA3, 0xA1) and r[0] == "ok" and isinstance(r[1], bytes):
            s.expect(r[1] == p, ("serialread", hx(fr)), "read() of a well-formed frame does not return its payload", hx(r[1]))
    if drv is not None:
        answers = drv.batch([q[1] for q in reqs])
        for (inp, _l, real), ans in zip(reqs, answers):
            s.compare(inp, real, ans)


# ----------------------------------------------------------------------------------------------- constants cross-check
def check_generated(ck):
    """tools/extract cross-check (DESIGN §5): generated constants vs the live objects; a disagreement is infrastructure trouble."""
    from vcore import Infra
    from spsdk.mboot.commands import CommandTag, ResponseTag
    from spsdk.mboot.error_codes import StatusCode
    from spsdk.mboot.protocol.bulk_protocol import ReportId
    from spsdk.mboot.protocol.serial_protocol import FPType, MbootSerialProtocol
    import re
    txt = (ck.__class__.__module__ and __import__("vcore").GEN / "MbootConsts.lean").read_text()

    def lst(name):
        m = re.search(rf"def {name} : List \(String × Nat\) := \[(.*?)\]\n", txt)
        return {a: int(b) for a, b in re.findall(r'\("(\w+)", (\d+)\)', m.group(1))} if m else None

    def nat(name):
        m = re.search(rf"def {name} : Nat := (\d+)", txt)
        return int(m.group(1)) if m else None
    live = [("fpTypes", {m.name: m.tag for m in FPType}), ("reportIds", {m.name: m.tag for m in ReportId}),
            ("commandTags", {m.name: m.tag for m in CommandTag}), ("responseTags", {m.name: m.tag for m in ResponseTag})]
    for name, want in live:
        if lst(name) != want:
            raise Infra(f"extractor disagrees with live object for {name}: {lst(name)} vs {want}")
    for name, want in (("frameStartByte", MbootSerialProtocol.FRAME_START_BYTE), ("stNoResponse", StatusCode.NO_RESPONSE.tag),
                       ("stSuccess", StatusCode.SUCCESS.tag), ("stFail", StatusCode.FAIL.tag)):
        if nat(name) != want:
            raise Infra(f"extractor disagrees with live object for {name}: {nat(name)} vs {want}")


# ----------------------------------------------------------------------------------------------- main
def setup_runtime():
    logging.disable(logging.CRITICAL)
    import spsdk.mboot.mcuboot as m1
    import spsdk.mboot.protocol.serial_protocol as m2

    class _NoSleep:
        def __getattr__(self, name):
            import time as _t
            return getattr(_t, name)

        @staticmethod
        def sleep(_x):
            return None
    m1.time = _NoSleep()
    m2.time = _NoSleep()


def fault_class(fault, strict):
    return f"{fault['kind']}" + (f":{fault['role']}" if "role" in fault else "") + ("" if strict else "(search-only)")


def run(ck):
    ck.lean_obligations(generated=["MbootConsts", "SdpConsts", "MbootProps"])
    # every driver op of this property evaluates Model/ definitions (host model, reference device, codecs built on the generated constants):
    # none of them is a Spec-only oracle.  All expectations (s.expect) are computed in python from the real code and the python reference
    # device; driver answers only ever enter s.compare.
    ck.spec_ops = set()
    drv = ck.driver()
    setup_runtime()
    check_generated(ck)
    rng = ck.rng
    ck.assume("DeviceBase contract used by the stub: serial read(n) returns n bytes, or fewer only in 'partial' mode (pyserial), or raises SPSDKTimeoutError; "
              "HID read returns one whole report (<= 1024 bytes) or raises SPSDKTimeoutError; write() never fails",
              "the wall-clock bound of _wait_for_data / ping_timeout / _pause_point sleeps is not modelled (stub timeout 10^6 ms, time.sleep patched out)",
              "reference bootloader (Model/Mboot.lean `Dev`, re-implemented in harness/props/C10.py `PyDev`) is written from the protocol description: it is the "
              "specification of the device, not a model of a particular ROM",
              "USB-HID reports and data carry no checksum at this layer: a flipped payload byte in a report is undetectable by SPSDK and excluded from the claim "
              "(correspondence only); on the serial link corruption of the start byte or length field, byte deletion/insertion and loss of whole frames are "
              "search-only (CRC-16 detection is not a certainty there)",
              "after the operation in which a fault is consumed the link is desynchronised (the protocol has no sequence numbers): later operations of the same "
              "sequence are compared with the model but not held to the oracle",
              "receive_sb_file on a UsbDevice: the SB2/SB3.1 header sniffing for the pause point never matches the random payloads used here",
              "BUSPAL/I2C/SPI/CAN/SDIO transports, libuuu, real timing, reset/reopen, key-provisioning/trust-provisioning/fuse operations are not covered",
              "SDP: thin layer only - SDPSerialProtocol + SDP (read/write/write_file/write_dcd/write_csf/skip_dcd/jump_and_run/read_status) against a small "
              "reference ROM, strict reads; SDP over USB-HID (SDPBulkProtocol), SDPS and the HAB log/status parsing are not modelled; SDP packets carry no "
              "checksum: corruption outside status words is undetectable by SPSDK and search-only")
    codec_stream(ck, drv)
    # ---- stream 0: regression corpus (past disagreements / violations) first
    corpus_stream(ck, drv)

    # ---- stream 1: op sequences without faults (closed loop transcript, replayed to the real host)
    s1 = ck.stream("sequences", "random configurations (serial strict/partial reads, HID plain/UsbDevice, cmd_exception on/off) x reference devices "
                   "(memory 64 B..2 KiB quick / 64 KiB thorough, max packet {32,56,512,1016,1,4,7,33}, HID padding, ping dummy bytes 0..50, forced device error statuses "
                   "in the initial or final response) x sequences of 1..8 operations with lengths {0,1,mp-1,mp,mp+1,2mp,2mp+1,...}; non-trivial = distinct case")
    n_seq = ck.budget(400, 5000)
    for i in range(n_seq):
        cfg = gen_cfg(rng)
        big = (not ck.quick) and i % 40 == 0
        dev = gen_dev(rng, cfg, big)
        ops = gen_ops(rng, cfg, dev, nmax=3 if big else 8, malformed=i % 10 == 9)
        if big:
            for o in ops:
                if o["op"] in ("read_memory", "write_memory") and rng.random() < 0.7:
                    o["n"] = rng.choice([65536, 65535, 60000])
                    o["addr"] = 0
        if rng.random() < 0.3:
            nf = rng.choice([1, 1, 2])
            dev["faults"] = [(rng.randrange(0, len(ops) + 2), rng.random() < 0.5, rng.choice(STATUSES)) for _ in range(nf)]
        case = {"cfg": cfg, "dev": dev, "ops": ops}
        cache = {}
        real, ok, _soft, transcript = run_case(ck, s1, drv, case, cache)
        s1.note(case, cls=f"{cfg['tr']}{'/usb' if cfg['usb'] else ''}{'/partial' if cfg['partial'] else ''}/ce={int(cfg['ce'])}")
    # ---- stream 2: faults at every position of the device->host stream of short sequences
    s2 = ck.stream("faults", "for short sequences: every position of the device->host stream x {corrupt byte, truncate} and every frame/report x "
                   "{NAK, ABORT, abort frame, zero length, missing response, dropped/short report, error status}; plus search-only kinds "
                   "(start/length corruption, byte deletion/insertion, dropped frame, HID payload flips); non-trivial = distinct (case, fault)")
    soft_total = 0
    n_fault = 0
    cap = ck.budget(7000, 120000)
    fi = 0
    while n_fault < cap and fi < ck.budget(400, 6000):
        # short sequences over small packets so that every position of the stream can be visited
        fi += 1
        cfg = gen_cfg(rng)
        dev = gen_dev(rng, cfg)
        dev["mp"] = rng.choice([1, 4, 7, 32, 33, 56])
        dev["pad"] = rng.choice([0, dev["mp"] + 4]) if cfg["tr"] == "hid" else 0
        dev["mem_size"] = rng.choice([64, 200])
        dev["dummy"] = rng.choice([0, 0, 1, 2]) if cfg["tr"] == "serial" else 0
        dev["abort"] = None  # (a replayed transcript cannot follow a device abort that a changed packetisation would move)
        ops = gen_ops(rng, cfg, dev, nmax=3)
        for o in ops:
            if "n" in o and o["n"] > 2 * dev["mp"] + 1 and o["n"] > 20:
                o["n"] = rng.choice([dev["mp"] + 1, 2 * dev["mp"] + 1, 2 * dev["mp"]])
                if "addr" in o:
                    o["addr"] = max(0, min(o["addr"], dev["mem_size"] - o["n"]))  # (fuse_* lengths are not tied to the memory size)
        if rng.random() < 0.15:
            dev["faults"] = [(rng.randrange(0, len(ops) + 1), rng.random() < 0.5, rng.choice(STATUSES))]
        case = {"cfg": cfg, "dev": dev, "ops": ops}
        cache = {}
        run_case(ck, s2, drv, case, cache)
        hid = case["cfg"]["tr"] == "hid"
        transcript = cache["base"][2]
        for fault, strict in enumerate_faults(transcript, hid, rng):
            if n_fault >= cap:
                break
            c2 = dict(case, fault=fault, strict=strict)
            _real, _ok, soft, _t = run_case(ck, s2, drv, c2, cache)
            soft_total += soft
            n_fault += 1
            s2.note((case, fault), cls=fault_class(fault, strict))
    ck.extra["search_only_success_with_wrong_data"] = soft_total

    # ---- stream 3: crafted truncations in 'partial read' mode whose shortened payload has a colliding CRC
    crafted_stream(ck, drv)
    # ---- SDP
    sdp_streams(ck, drv)
    # ---- property value decoding
    property_stream(ck, drv)
    # ---- blhost CLI glue
    cli_stream(ck, drv)
    # ---- trust-provisioning query methods (real code only)
    tp_query_stream(ck)


TP_QUERIES = {  # method -> (command tag, first parameter word = operation, number of arguments, returns values[0] instead of the list)
    "tp_oem_gen_master_share": (0x16, 0, 8, False), "tp_oem_get_cust_cert_dice_puk": (0x16, 2, 4, True), "tp_hsm_gen_key": (0x16, 3, 6, False),
    "tp_hsm_store_key": (0x16, 4, 6, False), "tp_hsm_enc_sign": (0x16, 6, 6, True), "tp_oem_get_cust_dice_response": (0x16, 7, 4, True),
    "wpc_get_id": (0x16, 0x5000000, 2, True), "nxp_get_id": (0x16, 0x5000001, 2, True), "wpc_sign_csr": (0x16, 0x5000003, 4, True),
    "dsc_hsm_create_session": (0x16, 0x6000000, 4, True), "dsc_hsm_enc_blk": (0x16, 0x6000001, 5, True), "dsc_hsm_enc_sign": (0x16, 0x6000002, 4, True),
    "el2go_close_device": (0x20, 2, 2, True)}


def tp_query_stream(ck):
    """McuBoot.tp_* methods that return words of a TrustProvisioningResponse, on a one-response interface (no Lean model: oracle only)."""
    from spsdk.mboot.commands import parse_cmd_response
    from spsdk.mboot.exceptions import McuBootCommandError
    from spsdk.mboot.mcuboot import McuBoot
    rng = ck.rng
    s = ck.stream("tp_queries", "tp_oem_gen_master_share / tp_oem_get_cust_cert_dice_puk / tp_hsm_gen_key / tp_hsm_store_key / tp_hsm_enc_sign / "
                  "tp_oem_get_cust_dice_response / wpc_get_id / nxp_get_id / wpc_sign_csr / dsc_hsm_create_session / dsc_hsm_enc_blk / dsc_hsm_enc_sign / "
                  "el2go_close_device x cmd_exception x response {TrustProvisioning with status 0 and 1..4 words, TrustProvisioning with an error "
                  "status and 0..2 words, Generic with status 0 / error}: the command packet is (command tag, operation, caller's words); values are returned as "
                  "sent only with status 0; an error status gives None / [] / McuBootCommandError(status) with status_code = the device's, never success "
                  "and never an exception with cmd_exception off - an error-status response WITHOUT value words gives exactly None (fix e0d5125); non-trivial = distinct (method, cmd_exception, response)")

    class OneShot:
        identifier = "tp-stub"
        is_opened = True

        def __init__(self, payload):
            self.payload, self.sent = payload, []

        def open(self):
            pass

        def close(self):
            pass

        def write_command(self, packet):
            self.sent.append(packet)

        def read(self, length=None):
            return parse_cmd_response(self.payload)

    for name, (ctag, opn, nargs, first) in sorted(TP_QUERIES.items()):
        for ce in (False, True):
            for kind in ("tp_ok", "tp_err", "gen_ok", "gen_err"):
                for _ in range(ck.budget(3, 10)):
                    st = 0 if kind.endswith("ok") else rng.choice(STATUSES)
                    nv = rng.randint(1, 4) if kind == "tp_ok" else rng.choice([0, 0, 1, 2]) if kind == "tp_err" else 0
                    vals = [rng.choice([0, 1, 0x40, rng.getrandbits(32)]) for _ in range(nv)]
                    payload = (bytes([0xB6, 0, 0, 1 + nv]) + struct.pack(f"<{1 + nv}I", st, *vals)) if kind.startswith("tp") else \
                        (bytes([0xA0, 0, 0, 2]) + struct.pack("<2I", st, 0x16))
                    args = [rng.choice([0, 1, 0x20001000, rng.getrandbits(32)]) for _ in range(nargs)]
                    if name == "el2go_close_device":
                        args[1] = rng.choice([0, 1])  # dry_run
                    case = {"method": name, "cmd_exception": ce, "response": kind, "status": st, "values": vals, "args": args}
                    s.note((name, ce, kind, st, tuple(vals)), cls=kind)
                    itf = OneShot(payload)
                    mb = McuBoot(itf, cmd_exception=ce)
                    exc, res = None, None
                    try:
                        res = getattr(mb, name)(*args)
                    except Exception as e:  # noqa: BLE001 - the class of the exception is what is examined
                        exc = e
                    sent = [(p.header.tag, list(p.params)) for p in itf.sent]
                    s.expect(sent == [(ctag, [opn] + args)], case, "trust provisioning: the command packet is not (command tag, operation, the caller's words)", sent)
                    if st == 0 and kind == "tp_ok":
                        s.expect(exc is None and res == (vals[0] if first else vals) and mb.status_code == 0, case,
                                 "trust provisioning: the words of a SUCCESS response are not returned as the device sent them", repr(exc or res)[:80])
                    elif st == 0:
                        s.expect(exc is None and res is None, case, "trust provisioning: a generic response carries no values, None expected", repr(exc or res)[:80])
                    elif ce:
                        s.expect(isinstance(exc, McuBootCommandError) and exc.error_value == st, case,
                                 "device error status with cmd_exception: McuBootCommandError(status) expected", repr(exc or res)[:80])
                    else:
                        s.expect(exc is None, case,
                                 "device error status (cmd_exception off): an exception escapes instead of a failure result", repr(exc)[:80])
                        if first and not vals:
                            s.expect(exc is None and res is None, case,
                                     "device error status without value words (cmd_exception off): None expected", repr(exc or res)[:80], "None")
                        s.expect(mb.status_code == st, case, "status_code is not the status the device sent", mb.status_code, st)
                        s.expect(exc is not None or not is_success(canon_val(res) if not isinstance(res, int) or isinstance(res, bool) else f"ok:n:{res}", mb.status_code),
                                 case, "device error status reported as success", repr(res)[:80])


def corpus_stream(ck, drv):
    """corpus/C10/cases.json: past failing cases, replayed first with the comparisons and the oracle of `sequences`, and with every enumerated
    fault of `faults` when the case is short"""
    import json as _json
    path = os.path.join(os.path.dirname(os.path.dirname(os.path.dirname(os.path.abspath(__file__)))), "corpus", "C10", "cases.json")
    if not os.path.exists(path):
        return
    s = ck.stream("corpus", "past disagreements / violations (corpus/C10/cases.json), replayed first: same comparisons and oracle as `sequences`; "
                  "short cases also under every enumerated link fault; non-trivial = distinct case")
    import random as _random
    crng = _random.Random(ck.rng.getrandbits(32))  # one draw, whatever the size of the corpus: the other streams do not move when it grows
    for ent in _json.load(open(path, encoding="utf-8")).get("cases", []):
        case = ent["case"]
        case["dev"]["props"] = [tuple(x) for x in case["dev"]["props"]]
        case["dev"]["faults"] = [tuple(x) for x in case["dev"]["faults"]]
        cache = {}
        run_case(ck, s, drv, case, cache)
        s.note((ent.get("id"), _json.dumps(case.get("fault"), sort_keys=True)))
        hid = case["cfg"]["tr"] == "hid"
        transcript = cache["base"][2]
        size = sum(len(c) if not hid else sum(len(r) for r in c) for c in transcript)
        if case.get("fault") is None and size <= 800 and case["dev"].get("abort") is None:
            for fault, strict in enumerate_faults(transcript, hid, crng):
                run_case(ck, s, drv, dict(case, fault=fault, strict=strict), cache)
                s.note((ent.get("id"), _json.dumps(fault, sort_keys=True)))


def z2_inverse_table():
    """inverse of 'two zero bytes' on the CRC-16/XMODEM register"""
    inv = [0] * 65536
    for s in range(65536):
        inv[binascii.crc_hqx(b"\0\0", s)] = s
    return inv


def crafted_stream(ck, drv):
    """Serial, pyserial-like partial reads: the final generic response is cut short and the CRC field is made to match the shortened payload's CRC.

    The shortened payload cannot be parsed as a response, so the operation must fail - whatever the CRC says."""
    rng = ck.rng
    s = ck.stream("crafted_truncation", "serial link with partial reads: the stream ends inside a frame and the frame's CRC field equals the CRC of the "
                  "shortened frame (what a 16-bit CRC cannot exclude); the operation must still not report success; non-trivial = distinct case")
    for _ in range(ck.budget(60, 600)):
        cfg = {"tr": "serial", "usb": False, "partial": True, "ce": rng.random() < 0.5}
        dev = gen_dev(rng, cfg)
        dev["dummy"] = 0
        n = rng.choice([1, dev["mp"], dev["mp"] + 1, 2 * dev["mp"]])
        n = min(n, dev["mem_size"])
        op = rng.choice([{"op": "read_memory", "addr": 0, "n": n, "mem_id": 0, "fast": False},
                         {"op": "write_memory", "addr": 0, "n": n, "mem_id": 0, "seed": rng.randrange(1 << 30)},
                         {"op": "fill_memory", "addr": 0, "n": n, "pattern": 5}])
        case = {"cfg": cfg, "dev": dev, "ops": [op]}
        _base, _bl, _brd, transcript = run_real(cfg, [], [op], live=PyDev(dev, False))
        # choose a frame, cut its payload to k bytes, rewrite the CRC field to the CRC of the shortened frame as the host computes it
        frames = [(ci, it) for ci, c in enumerate(transcript) for it in walk_serial(c) if it[0] == "frame" and it[2] - it[1] > 7]
        if not frames:
            continue
        ci, (_k, st, en, _t) = rng.choice(frames)
        c = transcript[ci]
        plen = en - st - 6
        k = rng.randrange(1, plen)
        short = c[st + 6:st + 6 + k]
        crc = crc16(c[st:st + 2] + struct.pack("<H", k) + short)
        newc = c[:st + 4] + struct.pack("<H", crc) + short
        t2 = transcript[:ci] + [newc] + [b""] * (len(transcript) - ci - 1)
        real, _left, _reads = run_real(cfg, t2, [op])
        res, stt, tx, rd = real[0]
        s.note((case, ci, k))
        if drv is not None:
            mres, mst, mtx, _, mrd = model_script(drv, cfg, t2, [op])[0]
            s.compare({"case": case, "chunk": ci, "keep": k}, canon_op(res, stt, tx, rd), canon_op(mres, mst, mtx, mrd))
        pydev = PyDev(dev, False)
        for w in tx:
            pydev.feed(w)
        if is_success(res, stt):
            if op["op"] == "read_memory":
                got = bytes.fromhex(res[5:]) if res[5:] != "-" else b""
                s.expect(got == dev_mem(dev)[:n], {"case": case, "chunk": ci, "keep": k},
                         "a frame cut short (colliding CRC) is accepted: read_memory reports success with partial data", res[:60])


# ----------------------------------------------------------------------------------------------- blhost CLI glue
def cli_stream(ck, drv):
    """blhost sub-commands (click) on the stub interface: argument parsing, McuBoot context manager (open = ping on serial), display_output:
    printed status / response words / exit status / output file must mirror the model's operation result; bytes written must be the same."""
    import json as _json
    import re
    import tempfile
    from click.testing import CliRunner
    from spsdk.apps import blhost
    from spsdk.apps.utils.utils import SPSDKAppError
    from spsdk.mboot.protocol.bulk_protocol import MbootBulkProtocol
    from spsdk.mboot.protocol.serial_protocol import MbootSerialProtocol
    global _STUBS
    if _STUBS is None:
        _STUBS = make_stub_classes()
    rng = ck.rng
    s = ck.stream("blhost_cli", "blhost get-property / set-property / read-memory (file) / write-memory (file and {{hex}}) / fill-memory / flash-erase-region / "
                  "flash-erase-all / execute / call / efuse-read-once / efuse-program-once [-v] / receive-sb-file / load-image through click's CliRunner on the stub "
                  "interface (serial incl. the ping of McuBoot.__enter__, and HID), plain and --json output; non-trivial = distinct case")
    runner = CliRunner()
    tmp = tempfile.mkdtemp(prefix="c10cli", dir=os.environ.get("VERIF_SCRATCH"))
    for ci in range(ck.budget(150, 1500)):
        cfg = {"tr": rng.choice(["serial", "hid"]), "usb": False, "partial": False, "ce": False}
        hid = cfg["tr"] == "hid"
        dev = gen_dev(rng, cfg)
        dev["dummy"] = rng.choice([0, 0, 2]) if not hid else 0
        dev["abort"] = None
        if rng.random() < 0.25:
            dev["faults"] = [(rng.randrange(0, 3), rng.random() < 0.5, rng.choice(STATUSES))]
        size, mp = dev["mem_size"], dev["mp"]
        k = rng.choice(["get-property", "get-property", "set-property", "read-memory", "read-memory", "write-memory", "write-memory-hex", "fill-memory",
                        "flash-erase-region", "flash-erase-all", "execute", "call", "efuse-read-once", "efuse-program-once", "receive-sb-file", "load-image"])
        n = gen_len(rng, mp, min(size, 1200))
        a = rng.choice([0, size - n, rng.randrange(0, size - n + 1), size - n + 2])
        seed = rng.randrange(1 << 30)
        data = gen_bytes(seed, n)
        fn = os.path.join(tmp, f"f{ci}.bin")
        use_json = rng.random() < 0.5
        if k == "get-property":
            tag, idx = rng.choice([1, 2, 10, 11, 20, 77]), rng.choice([0, 1])
            args, op, cmd = [str(tag), str(idx)], {"op": "get_property", "tag": tag, "index": idx}, blhost.get_property
        elif k == "set-property":
            tag, v = rng.choice([10, 20, 1, 77]), rng.getrandbits(32)
            args, op, cmd = [str(tag), hex(v)], {"op": "set_property", "tag": tag, "value": v}, blhost.set_property
        elif k == "read-memory":
            args, op, cmd = [hex(a), str(n), fn], {"op": "read_memory", "addr": a, "n": n, "mem_id": 0, "fast": False}, blhost.read_memory
        elif k in ("write-memory", "write-memory-hex"):
            if k == "write-memory":
                open(fn, "wb").write(data)
                src = fn
            else:
                data = data[:64]
                n = len(data)
                src = "{{" + data.hex() + "}}"
                if n == 0:
                    continue
            seed2 = None
            args, cmd = [str(a), src], blhost.write_memory
            op = {"op": "write_memory", "addr": a, "n": n, "mem_id": 0, "seed": seed}
        elif k == "fill-memory":
            pat = rng.getrandbits(32)
            args, op, cmd = [str(a), str(n), hex(pat)], {"op": "fill_memory", "addr": a, "n": n, "pattern": pat}, blhost.fill_memory
        elif k == "flash-erase-region":
            args, op, cmd = [str(a), str(n)], {"op": "flash_erase_region", "addr": a, "n": n, "mem_id": 0}, blhost.flash_erase_region
        elif k == "flash-erase-all":
            args, op, cmd = [], {"op": "flash_erase_all", "mem_id": 0}, blhost.flash_erase_all
        elif k == "execute":
            x, y, z = rng.getrandbits(32), rng.getrandbits(32), rng.getrandbits(32)
            args, op, cmd = [str(x), str(y), str(z)], {"op": "execute", "addr": x, "arg": y, "sp": z}, blhost.execute
        elif k == "call":
            x, y = rng.getrandbits(32), rng.getrandbits(32)
            args, op, cmd = [str(x), str(y)], {"op": "call", "addr": x, "arg": y}, blhost.call
        elif k == "efuse-read-once":
            i = rng.choice([3, 4, 9, 30])
            args, op, cmd = [str(i)], {"op": "efuse_read_once", "index": i}, blhost.efuse_read_once
        elif k == "efuse-program-once":
            i, v, ver, lock = rng.choice([3, 4, 9]), rng.choice([1, 0xFF, 0xFF00, rng.getrandbits(32)]), rng.random() < 0.6, rng.random() < 0.3
            args = [str(i), f"{v:x}"] + (["lock"] if lock else []) + (["-v"] if ver else [])
            op, cmd = {"op": "efuse_program_once", "index": i | (1 << 24 if lock else 0), "value": v, "verify": ver}, blhost.efuse_program_once
        elif k == "receive-sb-file":
            open(fn, "wb").write(data)
            args, op, cmd = [fn], {"op": "receive_sb_file", "n": n, "seed": seed, "check": False}, blhost.receive_sb_file
        else:
            open(fn, "wb").write(data)
            args, op, cmd = [fn], {"op": "load_image", "n": n, "seed": seed}, blhost.load_image
        if "seed" in op:
            op["seed"] = seed
        ops = [{"op": "open"}, op]
        # reference run: the McuBoot API itself in closed loop with the python reference device (that run is held to the oracle in the
        # `sequences` stream); blhost must mirror it.  The Lean model only takes part in the s.compare below.
        api, _al, _ard, transcript = run_real(cfg, [], ops, live=PyDev(dev, hid))
        mres, mst, _atx, _ard2 = api[1]
        opened = api[0][0] == "ok:unit"
        stub = _STUBS[0](transcript, hid, False)
        proto = _proto_class(MbootBulkProtocol if hid else MbootSerialProtocol)(stub)
        res = runner.invoke(cmd, args, obj={"interface": proto, "use_json": use_json, "suppress_progress_bar": True, "silent": False})
        case = {"cfg": cfg, "dev": dev, "cli": k, "args": [x if len(x) < 80 else x[:40] + "..." for x in args], "op": op, "json": use_json}
        s.note(case, cls=f"{k}/{cfg['tr']}/json={int(use_json)}")
        out = res.output or ""
        exc = res.exception
        if not opened:
            s.expect(exc is not None and not isinstance(exc, SystemExit), case, "blhost does not fail although the interface could not be opened", repr(exc)[:80])
            continue
        # status / words as printed
        status = words = None
        if use_json:
            try:
                j = _json.loads(out[out.index("{"):out.rindex("}") + 1])
                status, words = j["status"]["value"], [int(x) if not isinstance(x, bool) else int(x) for x in j["response"]]
            except (ValueError, KeyError, TypeError):
                pass
        else:
            m = re.search(r"Response status = (\d+)", out)
            status = int(m.group(1)) if m else None
            words = [int(x) for x in re.findall(r"Response word \d+ = (\w+) \(", out.replace("True", "1").replace("False", "0"))]
        real = f"status={status} exit={'0' if exc is None else 'app' if isinstance(exc, SPSDKAppError) else type(exc).__name__} tx=" + ",".join(hx(w) for w in stub.tx)
        if mres.startswith("E:"):
            # the API operation raised (e.g. E:other for an unencodable value): only require that blhost fails too
            s.expect(exc is not None, case, "blhost succeeds although the operation raises", out[-120:])
            continue
        want_api = f"status={mst} exit={'0' if mst == 0 else 'app'} tx=" + ",".join(hx(w) for w in (api[0][2] + api[1][2]))
        s.expect(real == want_api, case, "blhost printed status / exit status / bytes written differ from the McuBoot API operation on the same device", real[:200], want_api[:200])
        if drv is not None:
            live, _state = model_live(drv, cfg, dev, ops)
            lres, lst = live[1][0], live[1][1]
            model = f"status={lst} exit={'0' if lst == 0 else 'app'} tx=" + ",".join(hx(w) for w in (live[0][2] + live[1][2]))
            s.compare(case, real, model, "blhost printed status / exit status / bytes written differ from the model's operation")
        # response words and files
        if k == "get-property":
            want = [int(x) for x in mres[5:].split(";")] if mres.startswith("ok:i:") and mres[5:] != "-" else []
            s.expect((words or [])[:len(want)] == want if want else True, case, "blhost get-property does not print the device's property words", words, want)
        elif k == "read-memory":
            got = open(fn, "rb").read() if os.path.exists(fn) else b""
            want = bytes.fromhex(mres[5:]) if mres.startswith("ok:b:") and mres[5:] != "-" else b""
            s.expect(got == want and (words or [None])[0] == len(want), case, "blhost read-memory: file / printed length are not the bytes the operation returned",
                     {"file": len(got), "words": words}, len(want))
            if status == 0:
                s.expect(len(got) == n and got == dev_mem(dev)[a:a + n], case, "blhost read-memory exits with status 0 but the file is not exactly the device's bytes", len(got), n)
        elif k in ("write-memory", "write-memory-hex"):
            s.expect((words == [n]) == (mres == "ok:true") or (mres != "ok:true" and not words), case, "blhost write-memory response word is not the byte count on success only", words, n)
        elif k == "efuse-read-once":
            want = [4, int(mres[5:])] if mres.startswith("ok:n:") else []
            s.expect((words or []) == want, case, "blhost efuse-read-once does not print the fuse word", words, want)
        elif k == "efuse-program-once":
            s.expect((words or [None])[0] == (1 if mres == "ok:true" else 0), case, "blhost efuse-program-once response word does not mirror the result", words, mres)


# ----------------------------------------------------------------------------------------------- property value decoding
def prop_canon(tag, obj):
    from spsdk.mboot import properties as P
    if isinstance(obj, P.VersionValue):
        v = obj.value
        return f"ver:{ord(v.mark) if v.mark is not None else '-'}:{v.major}:{v.minor}:{v.fixation}:{obj.to_int()}"
    if isinstance(obj, P.BoolValue):
        return f"bool:{obj.value}:{'true' if bool(obj) else 'false'}"
    if isinstance(obj, P.ReservedRegionsValue):
        return "regions:" + (",".join(f"{r.start}-{r.end}" for r in obj.regions) or "-")
    if isinstance(obj, P.DeviceUidValue):
        return "uid:" + hx(obj.value)
    if isinstance(obj, P.ExternalMemoryAttributesValue):
        o = lambda x: "-" if x is None else str(x)  # noqa: E731
        return f"ext:{obj.value}:{o(obj.start_address)}:{o(obj.total_size)}:{o(obj.page_size)}:{o(obj.sector_size)}:{o(obj.block_size)}"
    if isinstance(obj, P.FuseLockedStatus):
        return "fuses:" + (",".join(f"{f.index}={int(f.locked)}" for f in obj.get_fuses()) or "-")
    if isinstance(obj, P.IntListValue):
        return "words:" + (";".join(map(str, obj.value)) or "-")
    if isinstance(obj, P.AvailableCommandsValue):
        return f"word:{obj.value}|tags:" + (";".join(map(str, obj.tags)) or "-")
    if isinstance(obj, P.AvailablePeripheralsValue):
        return f"word:{obj.value}|per:" + (";".join(str(t.tag) for t in P.PeripheryTag if t.tag & obj.value) or "-")
    if isinstance(obj, P.IrqNotifierPinValue):
        return f"word:{obj.value}|irq:{obj.pin}:{obj.port}:{'true' if obj.enabled else 'false'}"
    if isinstance(obj, (P.IntValue, P.EnumValue)):
        return f"word:{obj.value}"
    return "?" + type(obj).__name__


def property_stream(ck, drv):
    """parse_property_value for every property tag x raw word lists of every length 0..7 with boundary words."""
    from spsdk.mboot.properties import PropertyTag, Version, parse_property_value
    rng = ck.rng
    s = ck.stream("properties", "parse_property_value(tag, raw_values) for every PropertyTag (and unknown tags) x raw word lists of length 0..7 built from "
                  "{0,1,2^k-1,2^k,flag masks,version words with letter / non-letter / zero mark,random}: decoded attributes (version fields and to_int, "
                  "regions, command tags, peripherals, irq pin/port/enable, external memory fields, UID bytes, fuse lock list, bool truth) compared with "
                  "the model; Version ordering on pairs; non-trivial = distinct (tag, raw)")
    words = [0, 1, 2, 3, 7, 0x1F, 0x20, 0xFF, 0x100, 0xFFFF, 0x10000, 0x4B030100, 0x5A020000, 0x00020100, 0x20010203, 0x5B010203, 0x40010203,
             0x5AA55AA5, 0xC33CC33C, 0x80000105, 0xFFFFFFFF]
    tags = sorted({t.tag for t in PropertyTag} | {0x23, 0x40, 0xFE})
    reqs = []
    for tag in tags:
        for n in range(0, 8):
            for _ in range(ck.budget(3, 12)):
                raw = [rng.choice(words + [rng.getrandbits(32)]) for _ in range(n)]
                if tag == 0x19 and raw:
                    raw[0] = rng.choice([0, 1, 3, 7, 0x1F, 0x15, 0x1E, rng.getrandbits(5)])
                try:
                    real = prop_canon(tag, parse_property_value(tag, list(raw), ext_mem_id=0))
                except Exception as exc:  # noqa: BLE001
                    real = classify_exc(exc)
                s.note((tag, tuple(raw)), cls=real.split(":")[0])
                reqs.append(((tag, raw), f"propval {tag} " + (";".join(map(str, raw)) or "-"), real))
                # oracle: the value is reported as the device sent it
                if real.startswith("ver:") and raw:
                    m = (raw[0] >> 24) & 0xFF
                    if 64 < m < 91 or m == 0:
                        s.expect(real.endswith(f":{raw[0]}"), (tag, raw), "VersionValue.to_int() is not the word the device sent", real)
                if real.startswith("uid:"):
                    b = bytes.fromhex(real[4:]) if real[4:] != "-" else b""
                    s.expect(list(struct.unpack(f"<{len(raw)}I", b)) == raw, (tag, raw), "DeviceUidValue bytes are not the device's words (little endian)", real)
                if real.startswith("regions:"):
                    want = [(raw[i], raw[i + 1]) for i in range(0, len(raw), 2) if raw[i + 1] != 0]
                    s.expect(real == "regions:" + (",".join(f"{a}-{b}" for a, b in want) or "-"), (tag, raw), "reserved regions are not the device's (start, end) pairs", real)
    for _ in range(ck.budget(300, 3000)):
        a, b = rng.choice(words + [rng.getrandbits(32)]), rng.choice(words + [rng.getrandbits(32)])
        real = "true" if Version(a) <= Version(b) else "false"
        s.note(("verle", a, b))
        reqs.append((("verle", a, b), f"verle {a} {b}", real))
        s.expect((real == "true") == ((a & 0xFFFFFF) <= (b & 0xFFFFFF)), ("verle", a, b), "Version ordering is not the ordering of (major, minor, fixation)", real)
    if drv is not None:
        for (inp, _l, real), ans in zip(reqs, drv.batch([q[1] for q in reqs])):
            s.compare(inp, real, ans)


# ----------------------------------------------------------------------------------------------- SDP (thin layer)
SDP_OK = {"write_file": 0x88888888, "write_dcd": 0x128A8A12, "write_csf": 0x128A8A12}
SDP_TAG = {"write_file": 0x0404, "write_dcd": 0x0A0A, "write_csf": 0x0606}


def sdp_op_line(op):
    k = op["op"]
    if k == "read":
        return f"sdp_op read {op['addr']} {op['n']} {op['fmt']}"
    if k == "write":
        return f"sdp_op write {op['addr']} {op['value']} {op['count']} {op['fmt']}"
    if k in SDP_OK:
        return f"sdp_op {k} {op['addr']} {hx(op_data(op))}"
    if k == "jump_and_run":
        return f"sdp_op jump_and_run {op['addr']}"
    if k == "sdps_write_file":
        nc, ps = sdps_rom_info(op["family"])
        return f"sdp_op sdps_write_file {int(nc)} {ps} {hx(op_data(op))}"
    return f"sdp_op {k}"


def sdp_call(sdp, op):
    k = op["op"]
    if k == "read":
        return canon_val(sdp.read(op["addr"], op["n"], op["fmt"]))
    if k == "write":
        return canon_val(sdp.write(op["addr"], op["value"], op["count"], op["fmt"]))
    if k in SDP_OK:
        return canon_val(getattr(sdp, k)(op["addr"], op_data(op)))
    if k == "skip_dcd":
        return canon_val(sdp.skip_dcd())
    if k == "jump_and_run":
        return canon_val(sdp.jump_and_run(op["addr"]))
    if k == "read_status":
        v = sdp.read_status()
        return "ok:none" if v is None else f"ok:n:{v}"
    raise ValueError(k)


def sdp_classify(exc):
    from spsdk.sdp.exceptions import SdpCommandError, SdpConnectionError
    if isinstance(exc, SdpCommandError):
        return f"E:cmd:{exc.error_value}"
    if isinstance(exc, SdpConnectionError):
        return "E:conn"
    if isinstance(exc, RuntimeError) and "verif: read budget" in str(exc):
        return "E:unbounded"
    return "E:other"


_SDPS_ROM = {}


def sdps_rom_info(family):
    """(no_cmd, pack_size) of a family as the real SDPS object reads them from the database"""
    if family not in _SDPS_ROM:
        from spsdk.sdp.protocol.serial_protocol import SDPSerialProtocol
        from spsdk.sdp.sdps import SDPS
        ri = SDPS(_proto_class(SDPSerialProtocol)((_STUBS or make_stub_classes())[0]([], False, False)), family).rom_info
        _SDPS_ROM[family] = (bool(ri.no_cmd), int(ri.hid_pack_size))
    return _SDPS_ROM[family]


def sdp_run_real(ce, transcript, ops, tr="serial", live=None):
    global _STUBS
    import spsdk.sdp.protocol.bulk_protocol as bulk
    from spsdk.sdp.protocol.bulk_protocol import SDPBulkProtocol
    from spsdk.sdp.protocol.serial_protocol import SDPSerialProtocol
    from spsdk.sdp.sdp import SDP
    from spsdk.sdp.sdps import SDPS
    if _STUBS is None:
        _STUBS = make_stub_classes()
    hid = tr == "hid"
    # the report table is module-level state that SDPS.write_file reconfigures: every case starts from the defaults
    bulk.HID_REPORT["CMD"] = (0x01, 1024, False)
    bulk.HID_REPORT["DATA"] = (0x02, 1024, False)
    dev = _STUBS[0](transcript, hid, False)
    dev.live, dev.recorded = live, []
    proto = _proto_class(SDPBulkProtocol if hid else SDPSerialProtocol)(dev)
    sdp = SDP(proto, cmd_exception=bool(ce))
    out = []
    for op in ops:
        n0 = len(dev.tx)
        try:
            if op["op"] == "sdps_write_file":
                res = canon_val(SDPS(proto, op["family"]).write_file(op_data(op)))
            else:
                res = sdp_call(sdp, op)
        except Exception as exc:  # noqa: BLE001
            res = sdp_classify(exc)
        out.append((res, int(sdp.status_code.tag), int(sdp.hab_status), int(sdp.cmd_status), dev.tx[n0:]))
    if live is not None:
        return out, dev.leftover(), dev.recorded
    return out, dev.leftover()


def sdp_parse_answer(ans):
    # defensive: an answer of any other shape is kept verbatim as the "result" so that every comparison with it disagrees
    bad = (f"?{ans!r}", -1, -1, -1, [], [])
    try:
        parts = ans.split(" ")
        if len(parts) != 6:
            return bad
        res, st, hab, cs, tx, rel = parts
        if not (st.startswith("st=") and hab.startswith("hab=") and cs.startswith("cs=") and tx.startswith("tx=") and rel.startswith("rel=")):
            return bad
        txl = [] if tx[3:] == "." else [bytes.fromhex(w) if w != "-" else b"" for w in tx[3:].split(",")]
        rell = [] if rel[4:] == "." else [parse_chunk(c, True) for c in rel[4:].split(",")]  # list of reports / serial: one string
        return res, int(st[3:]), int(hab[4:]), int(cs[3:]), txl, rell
    except (ValueError, AttributeError, TypeError):
        return bad


def sdp_canon(res, st, hab, cs, tx):
    return f"{res} st={st} hab={hab} cs={cs} tx=" + (",".join(hx(w) for w in tx) if tx else ".")


class PyRom:
    """independent re-implementation of the reference ROM's effects, fed with the real host's writes"""

    def __init__(self, rom, hid=False):
        self.hid = hid
        self.buf = b""
        self.mem = bytearray(gen_bytes(rom["mem_seed"], rom["mem_size"]))
        self.forced = {}
        for i, v in rom["forced"]:
            self.forced.setdefault(i, v)
        self.recv = None
        self.ncmd = 0
        self.events = []
        self.hab = struct.pack(">I", 0x12343412 if rom.get("locked") else 0x56787856)
        self.err = rom.get("err", 0xF0F0F0F0)

    @staticmethod
    def reports(out):
        """serial answer hab(4) ++ rest as device->host reports: HAB word in report 3, data / status in 64-byte RET reports (id 4, zero padded)"""
        if not out:
            return []
        rest = out[4:]
        return [b"\x03" + out[:4]] + [b"\x04" + rest[i:i + 64].ljust(64, b"\0") for i in range(0, len(rest), 64)]

    def respond(self, w):
        """one host write in -> what the ROM sends in reaction (serial: bytes, HID: list of reports); also tracks the effects (see feed)"""
        return self.feed(w)

    def feed(self, w):
        if self.hid:
            if not w:
                return []
            rid, payload = w[0], w[1:]
            if self.recv is not None:
                if rid == 2:
                    n = self.recv[2]
                    self.buf += payload[:n - len(self.buf)]
                    if len(self.buf) == n:
                        b, self.buf = self.buf, b""
                        return self.reports(self.feed_serial(b))
            elif rid == 1:
                self.buf = b""
                return self.reports(self.feed_serial(payload[:16]))
            return []
        return self.feed_serial(w)

    def feed_serial(self, w):
        word = lambda v: self.hab + struct.pack(">I", v & 0xFFFFFFFF)  # noqa: E731
        if self.recv is not None:
            tag, a, n, ev = self.recv
            self.recv = None
            if len(w) != n:
                return b""
            ev["got"] = True
            if ev["forced"] is not None:
                return word(ev["forced"])
            if tag == 0x0404:
                if a + n <= len(self.mem):
                    self.mem[a:a + n] = w
                    return word(0x88888888)
                ev["ok"] = False
                return word(0)          # address range refused
            return word(0x128A8A12)
        if len(w) != 16:
            return b""
        tag, a, fmt, cnt, val, _ = struct.unpack(">HIB2IB", w)
        idx = self.ncmd
        self.ncmd += 1
        ev = {"tag": tag, "forced": self.forced.get(idx), "ok": True}
        self.events.append(ev)
        forced = ev["forced"]
        if tag == 0x0202:
            nb = fmt // 8
            if forced is None and fmt in (8, 16, 32) and a + nb <= len(self.mem):
                self.mem[a:a + nb] = val.to_bytes(4, "little")[:nb]
                return word(0x128A8A12)
            ev["ok"] = forced == 0x128A8A12
            return word(forced if forced is not None else 0)
        if tag in (0x0404, 0x0A0A, 0x0606):
            if cnt == 0:
                # nothing to wait for: answer at once
                ev["got"] = True
                if forced is not None:
                    return word(forced)
                if tag == 0x0404 and a > len(self.mem):
                    ev["ok"] = False
                    return word(0)
                return word(0x88888888 if tag == 0x0404 else 0x128A8A12)
            ev["got"] = False
            self.recv = (tag, a, cnt, ev)
            return b""
        if tag == 0x0101:
            ev["ok"] = a + cnt <= len(self.mem)
            return self.hab + (bytes(self.mem[a:a + cnt]) if ev["ok"] else b"")
        if tag == 0x0505:
            return word(forced if forced is not None else self.err)
        if tag == 0x0C0C:
            return word(forced if forced is not None else 0x900DD009)
        return self.hab


def sdp_gen_ops(rng, size, nmax=6):
    ops = []
    for _ in range(rng.randint(1, nmax)):
        k = rng.choice(["read"] * 4 + ["write"] * 3 + ["write_file"] * 3 + ["write_dcd", "write_csf", "skip_dcd", "jump_and_run", "read_status"])
        op = {"op": k}
        if k == "read":
            n = rng.choice([0, 1, 4, 63, 64, 65, 128, 129, rng.randrange(0, min(size, 400) + 1)])
            n = min(n, size)
            a = rng.randrange(0, size - n + 1)
            if rng.random() < 0.06:
                a = size - n + 3
            op.update(addr=a, n=n, fmt=rng.choice([8, 16, 32]))
        elif k == "write":
            fmt = rng.choice([8, 16, 32, 32, 7])
            op.update(addr=rng.choice([0, size - 4, rng.randrange(0, size - 3), size - 1]), value=rng.choice([0, 0x11223344, rng.getrandbits(32), 1 << 32]),
                      count=rng.choice([1, 2, 4, 4, 9]), fmt=fmt)
        elif k in SDP_OK:
            n = rng.choice([0, 1, 64, 65, rng.randrange(0, min(size, 300) + 1)])
            n = min(n, size)
            op.update(addr=rng.choice([0, size - n, rng.randrange(0, size - n + 1), size - n + 2]), n=n, seed=rng.randrange(1 << 30))
        elif k == "jump_and_run":
            op.update(addr=rng.choice([0, rng.getrandbits(32), 1 << 32]))
        ops.append(op)
    return ops


def sdp_streams(ck, drv):
    rng = ck.rng
    s = ck.stream("sdp_sequences", "SDP over SDPSerialProtocol and over SDPBulkProtocol (USB-HID reports): random ROMs (memory 64..600 B, HAB locked/unlocked, forced status "
                  "words) x sequences of 1..6 operations (read / write / write_file / write_dcd / write_csf / skip_dcd / jump_and_run / read_status; read lengths "
                  "{0,1,4,63,64,65,128,129,...}), cmd_exception on/off; non-trivial = distinct case")
    sf = ck.stream("sdp_faults", "short SDP sequences: serial: the device->host stream cut at every byte position, every status word replaced, every byte corrupted; HID: "
                   "every report dropped (and all later ones), cut short, its status word replaced, bytes corrupted (SDP has no checksum: corruption outside status "
                   "words is search-only); non-trivial = distinct (case, fault)")
    ncase = ck.budget(160, 2500)
    nfault_cap = ck.budget(1600, 20000)
    nf = 0
    for ci in range(ncase):
        tr = "hid" if ci % 2 else "serial"
        hid = tr == "hid"
        size = rng.choice([64, 200, 600])
        rom = {"mem_seed": rng.randrange(1 << 30), "mem_size": size, "locked": rng.random() < 0.3, "err": rng.choice([0xF0F0F0F0, 0x33221100]),
               "forced": []}
        ce = rng.random() < 0.5
        ops = sdp_gen_ops(rng, size, 6 if ci % 3 else 2)
        if rng.random() < 0.3:
            fi = rng.randrange(0, len(ops))
            # a forced word is a device *error*: never one of the OK values
            rom["forced"] = [(fi, rng.choice([0, 0x12345678, 0xFFFFFFFF, 0xF0F0F0F0]))]
        case = {"ce": ce, "tr": tr, "rom": rom, "ops": ops}
        forced = ";".join(f"{i}={v}" for i, v in rom["forced"]) or "-"
        head = [f"sdp_cfg {int(ce)} {tr}", f"sdp_rom {hx(gen_bytes(rom['mem_seed'], size))} {int(rom['locked'])} {rom['err']} {forced}"]
        # closed loop WITHOUT the Lean model: the real SDP host against the live python reference ROM -> results + recorded transcript
        # (per host write, what the device releases; serial: bytes, HID: list of reports).  Everything the oracle uses comes from here.
        base_real, base_left, transcript = sdp_run_real(ce, [], ops, tr, live=PyRom(rom, hid))
        writes_per_op = [len(r[4]) for r in base_real]
        lstate = None
        if drv is not None:
            # compare only: the model host in closed loop with the LEAN reference ROM must hold the same conversation
            ans = [str(a) for a in drv.batch(head + ["sdp_live"] + [sdp_op_line(o) for o in ops] + ["sdp_state"])]
            live = [sdp_parse_answer(a) for a in ans[3:3 + len(ops)]]
            lstate = ans[-1] if len(ans) == len(ops) + 4 else "?"
            ltr = [(c if hid else b"".join(c)) for l in live for c in l[5]]
            s.compare({"sdp_case": case, "what": "device conversation"}, [chunk_str(c, hid) for c in transcript], [chunk_str(c, hid) for c in ltr],
                      "what the reference ROM sends: python ROM (closed loop with SDP) vs Lean ROM (closed loop with the model host)")
            for i, (r, m) in enumerate(zip(base_real, live)):
                s.compare({"sdp_case": case, "op_index": i, "what": "closed loop"}, sdp_canon(*r), sdp_canon(*m[:5]),
                          "closed loop: SDP + python reference ROM vs model host + Lean reference ROM")

        def op_of_chunk(cidx):
            acc = 0
            for i, n in enumerate(writes_per_op):
                acc += n
                if cidx < acc:
                    return ops[i]["op"]
            return None

        def one(fault, strict, stream):
            t2 = [list(c) if hid else bytes(c) for c in transcript]
            if fault is not None:
                k, pos = fault["kind"], fault["pos"]
                ci2, off = pos
                if hid:
                    ri = fault.get("report", 0)
                    if k == "truncate":          # this report and everything after it is missing
                        t2[ci2] = t2[ci2][:ri]
                        for j in range(ci2 + 1, len(t2)):
                            t2[j] = []
                    elif k == "short":           # the report is cut short, later ones missing
                        t2[ci2] = t2[ci2][:ri] + [t2[ci2][ri][:off]]
                        for j in range(ci2 + 1, len(t2)):
                            t2[j] = []
                    elif k == "corrupt":
                        r = bytearray(t2[ci2][ri])
                        r[off] ^= fault["xor"]
                        t2[ci2][ri] = bytes(r)
                    elif k == "status":
                        r = t2[ci2][ri]
                        t2[ci2][ri] = r[:1] + struct.pack(">I", fault["value"]) + r[5:]
                elif k == "truncate":
                    t2[ci2] = t2[ci2][:off]
                    for j in range(ci2 + 1, len(t2)):
                        t2[j] = b""
                elif k == "corrupt":
                    c = bytearray(t2[ci2])
                    c[off] ^= fault["xor"]
                    t2[ci2] = bytes(c)
                elif k == "status":
                    t2[ci2] = t2[ci2][:off] + struct.pack(">I", fault["value"]) + t2[ci2][off + 4:]
            if fault is None:
                real, leftover = base_real, base_left
            else:
                real, leftover = sdp_run_real(ce, t2, ops, tr)
            inp = {"sdp_case": case, "fault": fault}
            if drv is not None:
                mans = [str(a) for a in drv.batch([head[0], "sdp_script " + (",".join(chunk_str(c, hid) for c in t2) if t2 else ".")] + [sdp_op_line(o) for o in ops])]
                model = [sdp_parse_answer(a) for a in mans[2:2 + len(ops)]]
                model += [sdp_parse_answer("")] * (len(ops) - len(model))
                for i, (r, m) in enumerate(zip(real, model)):
                    if not stream.compare(dict(inp, op_index=i), sdp_canon(*r), sdp_canon(*m[:5]), "SDP operation result / status / bytes written differ between SDP and the model"):
                        break
            rom_o = PyRom(rom, hid)
            fault_op = None
            if fault is not None:
                acc = 0
                for i, n in enumerate(writes_per_op):
                    acc += n
                    if fault["pos"][0] < acc:
                        fault_op = i
                        break
            for i, (op, r) in enumerate(zip(ops, real)):
                pre = bytes(rom_o.mem)
                ne = len(rom_o.events)
                for w in r[4]:
                    rom_o.feed(w)
                evs = rom_o.events[ne:]
                res = r[0]
                ok = res.startswith("ok:") and res not in ("ok:none", "ok:false")
                hold = fault is None or (strict and (fault_op is None or i <= fault_op))
                viol = []
                k = op["op"]
                if ok and k == "read" and op["n"] > 0:
                    got = bytes.fromhex(res[5:]) if res[5:] != "-" else b""
                    if op["addr"] + op["n"] > len(pre) or got != pre[op["addr"]:op["addr"] + op["n"]]:
                        viol.append("SDP read returns without error but not exactly the device's bytes for the requested range")
                if ok and k == "write_file":
                    d, a = op_data(op), op["addr"]
                    if a + len(d) > len(pre) or bytes(rom_o.mem) != pre[:a] + d + pre[a + len(d):]:
                        viol.append("SDP write_file reports success but the device memory does not hold exactly the written bytes")
                if ok and k == "write" and fault is None:
                    nb, a = op["fmt"] // 8, op["addr"]
                    want = pre[:a] + (op["value"] & 0xFFFFFFFF).to_bytes(4, "little")[:nb] + pre[a + nb:]
                    if op["fmt"] not in (8, 16, 32) or a + nb > len(pre) or bytes(rom_o.mem) != want:
                        viol.append("SDP write reports success but the register/memory does not hold the value")
                if fault is None and evs and not (k == "read" and op["n"] == 0):
                    ev = evs[-1]
                    exp = ev["ok"] and ev.get("got", True) and (ev["forced"] is None or ev["forced"] == {0x0404: 0x88888888}.get(ev["tag"], 0x128A8A12) or
                                                               ev["tag"] in (0x0101, 0x0B0B, 0x0505) or (ev["tag"] == 0x0C0C and ev["forced"] == 0x900DD009))
                    if ev["tag"] == 0x0C0C and ev["forced"] is not None and ev["forced"] != 0x900DD009:
                        exp = False
                    if exp and not ok:
                        viol.append("without any fault an SDP operation the device carried out is not reported as success")
                    if not exp and ok:
                        viol.append("without any fault an SDP operation the device refused is reported as success")
                if res == "E:unbounded":
                    viol.append("the SDP operation did not finish within the bounded number of reads")
                for v in viol:
                    if hold:
                        stream.expect(False, dict(inp, op_index=i), v, res[:60], None)
            if fault is None:
                if leftover:
                    stream.expect(False, inp, "without any fault the SDP host left bytes of the device unread", leftover, 0)
                want = f"mem={hx(rom_o.mem)} ncmd={rom_o.ncmd}"
                got = " ".join(p for p in (lstate or "").split(" ") if p.startswith(("mem=", "ncmd=")))
                if lstate is not None:
                    stream.compare(dict(inp, what="final ROM state"), want, got, "final memory of the reference ROM differs (python reference fed by SDP's writes vs Lean ROM)")

        one(None, True, s)
        s.note(case, cls=f"{tr}/ce={int(ce)}/locked={int(rom['locked'])}")
        status_ops = ("write", "skip_dcd", "read_status", "write_file", "write_dcd", "write_csf")
        if hid:
            nrep = sum(len(c) for c in transcript)
            if nrep <= 12 and nf < nfault_cap:
                for ci2, c in enumerate(transcript):
                    for ri, r in enumerate(c):
                        fl = [({"kind": "truncate", "pos": (ci2, 0), "report": ri}, True, "truncate")]
                        for ln in (0, 1, 3, 4, len(r) - 1):
                            if 0 <= ln < len(r):
                                fl.append(({"kind": "short", "pos": (ci2, ln), "report": ri}, True, "short-report"))
                        if r[:1] == b"\x04" and op_of_chunk(ci2) in status_ops:
                            fl.append(({"kind": "status", "pos": (ci2, 1), "report": ri, "value": rng.choice([0, 0x12345678, 0xFFFFFFFF])}, True, "status-word"))
                        for off in sorted({0, 1, 4, len(r) - 1}):
                            fl.append(({"kind": "corrupt", "pos": (ci2, off), "report": ri, "xor": rng.choice([1, 0x80, 0xFF])}, False, "corrupt(search-only)"))
                        for f, strict, cls in fl:
                            if nf >= nfault_cap:
                                break
                            one(f, strict, sf)
                            sf.note((case, f), cls="hid:" + cls)
                            nf += 1
            continue
        total = sum(len(c) for c in transcript)
        if total <= 160 and nf < nfault_cap:
            for ci2, c in enumerate(transcript):
                for off in range(len(c) + 1):
                    if nf >= nfault_cap:
                        break
                    f = {"kind": "truncate", "pos": (ci2, off)}
                    one(f, True, sf)
                    sf.note((case, f), cls="truncate")
                    nf += 1
                    if off < len(c):
                        f = {"kind": "corrupt", "pos": (ci2, off), "xor": rng.choice([1, 0x80, 0xFF])}
                        one(f, False, sf)
                        sf.note((case, f), cls="corrupt(search-only)")
                        nf += 1
                    if off == 4 and len(c) == 8 and op_of_chunk(ci2) in status_ops:
                        f = {"kind": "status", "pos": (ci2, off), "value": rng.choice([0, 0x12345678, 0xFFFFFFFF])}
                        one(f, True, sf)
                        sf.note((case, f), cls="status-word")
                        nf += 1

    # ---- SDPS: write-only protocol; compare every report written, check that the payload is delivered once and in order
    ss = ck.stream("sdps", "SDPS.write_file for every supported family (ROM parameters no_cmd / pack size from the database) x data lengths {0,1,pack-1,pack,pack+1,"
                   "2*pack+1,...}, over the bulk and the serial protocol class, followed by an SDP write_file on the same protocol module (the report size "
                   "table SDPS reconfigures is module-level state); non-trivial = distinct case")
    from spsdk.sdp.sdps import SDPS
    fams = sorted(SDPS.get_supported_families())
    for ci in range(ck.budget(60, 600)):
        fam = fams[ci % len(fams)]
        nc, ps = sdps_rom_info(fam)
        tr = "hid" if ci % 4 else "serial"
        n = rng.choice([0, 1, ps - 1, ps, ps + 1, 2 * ps + 1, rng.randrange(0, 3 * ps)])
        ops = [{"op": "sdps_write_file", "family": fam, "n": n, "seed": rng.randrange(1 << 30)}]
        if rng.random() < 0.5:
            ops.append({"op": "write_file", "addr": 0, "n": rng.choice([1, 5, 1030]), "seed": rng.randrange(1 << 30)})
        ce = rng.random() < 0.5
        case = {"ce": ce, "tr": tr, "ops": ops}
        real, _left = sdp_run_real(ce, [], ops, tr)
        ss.note(case, cls=f"{tr}/{fam}/no_cmd={int(nc)}/pack={ps}")
        if drv is not None:
            mans = [str(a) for a in drv.batch([f"sdp_cfg {int(ce)} {tr}", "sdp_script ."] + [sdp_op_line(o) for o in ops])]
            model = [sdp_parse_answer(a) for a in mans[2:2 + len(ops)]]
            model += [sdp_parse_answer("")] * (len(ops) - len(model))
            for i, (r, m) in enumerate(zip(real, model)):
                ss.compare({"sdps_case": case, "op_index": i}, sdp_canon(*r), sdp_canon(*m[:5]), "SDPS/SDP result or bytes written differ between implementation and model")
        # oracle: the data reaches the device once, in order, in reports of the family's size
        res, _st, _hab, _cs, tx = real[0]
        data = op_data(ops[0])
        ss.expect(res == "ok:none", {"sdps_case": case}, "SDPS.write_file raises although nothing can fail (nothing is read)", res)
        if tr == "hid":
            frames = list(tx)
            if not nc:
                cbw = frames.pop(0) if frames else b""
                okc = cbw[:1] == b"\x01" and cbw[1:5] == b"BLTC" and struct.unpack_from("<I", cbw, 9)[0] == len(data) and len(cbw) == 1 + ps
                ss.expect(okc, {"sdps_case": case}, "SDPS command block wrapper is not id 1, 'BLTC', length, padded to the pack size", hx(cbw[:40]))
            payload = b"".join(f[1:] for f in frames)
            ss.expect(all(f[:1] == b"\x02" and len(f) == 1 + ps for f in frames) and payload[:len(data)] == data and len(payload) - len(data) < ps,
                      {"sdps_case": case}, "SDPS data reports do not carry exactly the image, in order, in reports of the pack size", len(frames))
        else:
            ss.expect(b"".join(tx[(0 if nc else 1):]) == data, {"sdps_case": case}, "SDPS over the serial protocol does not write exactly the image", len(tx))


def replay(ck, data):
    """Re-run the recorded failing cases (self-contained inputs) against the current tree."""
    ck.lean_obligations(generated=["MbootConsts", "SdpConsts", "MbootProps"])
    drv = ck.driver()
    setup_runtime()
    s = ck.stream("replay", "cases of the replay file")
    for c in data.get("cases", []):
        inp = c.get("input", {})
        case = inp.get("case") if isinstance(inp, dict) else None
        if not case or "cfg" not in case:
            continue
        case["dev"]["props"] = [tuple(x) for x in case["dev"]["props"]]
        case["dev"]["faults"] = [tuple(x) for x in case["dev"]["faults"]]
        run_case(ck, s, drv, case)
        s.note(case)
