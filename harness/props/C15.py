"""C15 - debug authentication: credentials and responses are bound and verifiable
(spsdk/dat/debug_credential.py, dac_packet.py, dar_packet.py, spsdk/utils/crypto/rkht.py).

Obligations   : Properties/C15.lean over Model/Dat.lean + Generated/DatConsts.lean (layouts, size tables, flag bit
                functions, DAC hash-length function, database rows - regenerated from the current source).
Correspondence: real objects vs the native model driver: export / data-to-sign / parse (also of malformed buffers) /
                calculate_hash (executable SHA-2) / class dispatch / DAC parse + validate / DAR common data + signed message.
Oracle        : the property evaluated on the real code, independent of the model: create_from_yaml_config -> sign ->
                export -> parse equality of every field; an independent decoder of the documented layout gives back the
                configured values; the signature verifies with `cryptography` under the RoT key *file* named by rot_id over
                all preceding bytes; the RoT hash equals Rot/RKHT (image tools) and a hashlib re-computation; a response
                embeds credential + beacon (+ UUID), its signature verifies under the DCK over exactly
                DC || beacon || [uuid] || challenge and never over SPSDK's own message for another challenge / credential / UUID.
"""
from __future__ import annotations

import hashlib
import os
import struct
import tempfile
from pathlib import Path

from vcore import Infra, canon, hexs, pyres

VERSIONS = {"1.0": ("rsa", 2048), "1.1": ("rsa", 4096), "2.0": ("ecc", 256), "2.1": ("ecc", 384), "2.2": ("ecc", 521)}
COORD = {256: 32, 384: 48, 521: 66}
HASHBITS = {256: 256, 384: 384, 521: 512}
KEYDIR = Path(os.environ.get("SPSDK_REPO", "/repo")) / "tests" / "_data" / "keys"
U32 = 0xFFFFFFFF
# private scalars whose public key has X short / Y short / both short / two leading zero bytes in a coordinate (see Keys)
SHORT_SCALARS = {256: {"x": 19088788, "y": 19088946, "both": 19115085, "two": 19096582},
                 384: {"x": 19088829, "y": 19089095, "both": 19208130, "two": 19092229},
                 521: {"x": 19088745, "y": 19088749, "both": 19088744, "two": 19088912}}


# ====================================================================================================== keys
class Keys:
    """RoT (srk0..3) and DCK key pairs per kind; PEM files (SPSDK takes paths) + `cryptography` objects (independent)."""

    def __init__(self, scratch: Path):
        from cryptography.hazmat.primitives import serialization as ser
        from cryptography.hazmat.primitives.asymmetric import ec, rsa
        self.ser = ser
        self.kinds = {}
        cache = Path(tempfile.gettempdir()) / "verif-C15-keys"
        cache.mkdir(exist_ok=True)
        self.cache = cache
        curves = {256: ec.SECP256R1(), 384: ec.SECP384R1(), 521: ec.SECP521R1()}
        for kind, gen in (("rsa2048", lambda: rsa.generate_private_key(65537, 2048)), ("rsa4096", lambda: rsa.generate_private_key(65537, 4096)),
                          ("ecc256", lambda: ec.generate_private_key(curves[256])), ("ecc384", lambda: ec.generate_private_key(curves[384])),
                          ("ecc521", lambda: ec.generate_private_key(curves[521]))):
            names = [f"srk{i}" for i in range(4)] + ["dck", "dck2"]
            ent = {}
            for nm in names:
                repo_pem = KEYDIR / kind / f"{nm}_{kind}.pem"
                repo_pub = KEYDIR / kind / f"{nm}_{kind}.pub"
                if repo_pem.exists() and repo_pub.exists():
                    pem, pub = repo_pem, repo_pub
                else:
                    pem, pub = cache / f"{nm}_{kind}.pem", cache / f"{nm}_{kind}.pub"
                    if not (pem.exists() and pub.exists() and self._loadable(pem)):
                        self._write(gen(), pem, pub)
                ent[nm] = (str(pem), str(pub), self._load(pem))
            self.kinds[kind] = ent
        # Boundary class "coordinate with leading zero byte(s)" (about 1 ECC key in 128 has one): deterministic keys derived from small private
        # scalars (found once by search; verified here): srk0 = X short, srk1 = Y short, srk2 = both short, srk3 = two leading zero bytes.
        for bits, scalars in SHORT_SCALARS.items():
            kind = f"ecc{bits}"
            c = COORD[bits]
            ent = {}
            for nm, (what, d) in zip(("srk0", "srk1", "srk2", "srk3"), scalars.items()):
                key = ec.derive_private_key(d, curves[bits])
                pn = key.public_key().public_numbers()
                lim = 1 << (8 * (c - 1))
                ok = {"x": pn.x < lim <= pn.y, "y": pn.y < lim <= pn.x, "both": pn.x < lim and pn.y < lim, "two": min(pn.x, pn.y) < (lim >> 8)}[what]
                if not ok:
                    raise Infra(f"the fixed scalar for a short {what} coordinate on P-{bits} does not give one (cryptography changed?)")
                pem, pub = cache / f"{nm}_{kind}z.pem", cache / f"{nm}_{kind}z.pub"
                if not (pem.exists() and pub.exists() and self._loadable(pem)):
                    self._write(key, pem, pub)
                ent[nm] = (str(pem), str(pub), key)
            ent["dck"], ent["dck2"] = self.kinds[kind]["dck"], self.kinds[kind]["dck2"]
            self.kinds[kind + "z"] = ent
        # an RSA key with public exponent 3 (exponent shorter than 3 bytes)
        pem, pub = cache / "srk0_rsa2048e3.pem", cache / "srk0_rsa2048e3.pub"
        if not (pem.exists() and pub.exists() and self._loadable(pem)):
            self._write(rsa.generate_private_key(3, 2048), pem, pub)
        self.e3 = (str(pem), str(pub), self._load(pem))

    def _write(self, key, pem, pub):
        ser = self.ser
        tmp = pem.with_suffix(".tmp%d" % os.getpid())
        tmp.write_bytes(key.private_bytes(ser.Encoding.PEM, ser.PrivateFormat.PKCS8, ser.NoEncryption()))
        os.replace(tmp, pem)
        tmp = pub.with_suffix(".tmp%d" % os.getpid())
        tmp.write_bytes(key.public_key().public_bytes(ser.Encoding.PEM, ser.PublicFormat.SubjectPublicKeyInfo))
        os.replace(tmp, pub)

    def _load(self, pem):
        return self.ser.load_pem_private_key(Path(pem).read_bytes(), None)

    def _loadable(self, pem):
        try:
            self._load(pem)
            return True
        except Exception:  # noqa: BLE001
            return False

    def kind_of(self, version):
        fam, bits = VERSIONS[version]
        return f"{fam}{bits}"


def pub_raw(priv, exp_len=None):
    """Raw public key material, independent of SPSDK: RSA modulus || exponent, ECC x || y (fixed coordinate width)."""
    pn = priv.public_key().public_numbers()
    if hasattr(pn, "n"):
        nlen = (pn.n.bit_length() + 7) // 8
        elen = exp_len or (pn.e.bit_length() + 7) // 8
        return pn.n.to_bytes(nlen, "big") + pn.e.to_bytes(elen, "big")
    c = COORD[priv.curve.key_size]
    return pn.x.to_bytes(c, "big") + pn.y.to_bytes(c, "big")


def verify_sig(priv, sig: bytes, msg: bytes, pss: bool):
    """Independent signature check with `cryptography` (never through spsdk.crypto). True/False."""
    from cryptography.exceptions import InvalidSignature
    from cryptography.hazmat.primitives import hashes
    from cryptography.hazmat.primitives.asymmetric import ec, padding
    from cryptography.hazmat.primitives.asymmetric.utils import encode_dss_signature
    pub = priv.public_key()
    try:
        if hasattr(pub.public_numbers(), "n"):
            pad = padding.PSS(mgf=padding.MGF1(hashes.SHA256()), salt_length=padding.PSS.AUTO) if pss else padding.PKCS1v15()
            pub.verify(sig, msg, pad, hashes.SHA256())
        else:
            c = COORD[priv.curve.key_size]
            if len(sig) != 2 * c:
                return False
            h = {256: hashes.SHA256(), 384: hashes.SHA384(), 521: hashes.SHA512()}[priv.curve.key_size]
            der = encode_dss_signature(int.from_bytes(sig[:c], "big"), int.from_bytes(sig[c:], "big"))
            pub.verify(der, msg, ec.ECDSA(h))
        return True
    except InvalidSignature:
        return False


# ====================================================================================================== canonical forms
def items_str(items):
    return ",".join(hexs(bytes(i)) for i in items) if items else "-"


def rotmeta_tok(rm):
    n = type(rm).__name__
    if n == "RotMetaRSA":
        return "rsa:" + items_str(rm.rot_items)
    if n.startswith("RotMetaEcc"):
        return f"ecc:{rm.flags.used_root_cert}:{rm.flags.cnt_root_cert}:" + items_str(rm.rot_items)
    if n == "RotMetaEdgeLockEnclave":
        return f"ele:{rm.flags.used_root_cert}:{rm.flags.cnt_root_cert}:" + hexs(rm.srk_table.export())
    raise ValueError(n)


CLS = {"DebugCredentialCertificateRsa": "rsa", "DebugCredentialCertificateEcc": "ecc", "DebugCredentialEdgeLockEnclave": "ele"}


def dc_tokens(dc, sig=None):
    """The 12 tokens of Driver/C15.lean for a real credential object."""
    cls = CLS[type(dc).__name__]
    rot_pub = dc.rot_pub.export() if cls == "ele" else dc.export_rot_pub()
    s = dc.signature if sig is None else sig
    return " ".join([cls, str(dc.version.major), str(dc.version.minor), str(dc.socc), hexs(dc.uuid), rotmeta_tok(dc.rot_meta),
                     hexs(dc.export_dck_pub()), str(dc.cc_socu), str(dc.cc_vu), str(dc.cc_beacon), hexs(rot_pub), hexs(s or b"")])


def dac_tokens(d):
    return " ".join([str(d.version.major), str(d.version.minor), str(d.socc), hexs(d.uuid), str(d.rotid_rkh_revocation),
                     hexs(d.rotid_rkth_hash), str(d.cc_soc_pinned), str(d.cc_soc_default), str(d.cc_vu), hexs(d.challenge)])


# ====================================================================================================== independent decoder
def decode_dc(data: bytes, cls: str, version: str):
    """Decode an exported credential by the documented layout only (no SPSDK code)."""
    fam, bits = VERSIONS[version]
    out = {"major": int.from_bytes(data[0:2], "little"), "minor": int.from_bytes(data[2:4], "little"),
           "socc": int.from_bytes(data[4:8], "little"), "uuid": data[8:24]}
    if cls == "rsa":
        ks, ss = bits // 8 + 4, bits // 8
        o = 24
        out["rot_meta"] = data[o:o + 128]; o += 128
        out["dck"] = data[o:o + ks]; o += ks
        out["cc_socu"], out["cc_vu"], out["cc_beacon"] = struct.unpack_from("<3L", data, o); o += 12
        out["rot_pub"] = data[o:o + ks]; o += ks
        out["sig"] = data[o:o + ss]; o += ss
        out["tbs_len"] = o - ss
        out["total"] = o
        return out
    out["cc_socu"], out["cc_vu"], out["cc_beacon"] = struct.unpack_from("<3L", data, 24)
    o = 36
    flags = int.from_bytes(data[o:o + 4], "little"); o += 4
    out["flags_marker"] = flags >> 31
    out["used"], out["cnt"] = (flags >> 8) & 0xF, (flags >> 4) & 0xF
    out["flags_rest"] = flags & ~((1 << 31) | (0xF << 8) | (0xF << 4))
    if cls == "ecc":
        c = COORD[bits]
        hl = HASHBITS[bits] // 8
        n = out["cnt"] if out["cnt"] > 1 else 0
        out["items"] = [data[o + i * hl:o + (i + 1) * hl] for i in range(n)]; o += n * hl
        out["rot_pub"] = data[o:o + 2 * c]; o += 2 * c
        out["dck"] = data[o:o + 2 * c]; o += 2 * c
        out["sig"] = data[o:o + 2 * c]; o += 2 * c
        out["tbs_len"] = o - 2 * c
    else:  # EdgeLock enclave: flags || SRK table (length in its header) || DCK || signature
        tl = int.from_bytes(data[o + 1:o + 3], "little")
        out["srk"] = data[o:o + tl]; o += tl
        if fam == "rsa":
            dl, sl = bits // 8 + 3, bits // 8
        else:
            dl = sl = 2 * COORD[bits]
        out["dck"] = data[o:o + dl]; o += dl
        out["sig"] = data[o:o + sl]; o += sl
        out["tbs_len"] = o - sl
    out["total"] = o
    return out


def ref_rot_hash(cls, version, raws, rot_meta_bytes):
    """RoT key hash recomputed with hashlib from raw key material (documented construction)."""
    fam, bits = VERSIONS[version]
    if cls == "ele":
        return hashlib.sha256(rot_meta_bytes[4:]).digest()
    if cls == "rsa":
        table = b"".join(hashlib.sha256(r).digest() for r in raws)
        return hashlib.sha256(table + bytes(128 - len(table))).digest()
    h = getattr(hashlib, f"sha{HASHBITS[bits]}")
    if len(raws) == 1:
        return h(raws[0]).digest()
    return h(b"".join(h(r).digest() for r in raws)).digest()


# ====================================================================================================== run
def _tick(ck, name, _t=[None]):
    import time
    now = time.time()
    if _t[0] is not None:
        ck.extra.setdefault("timing_s", {})[_t[0][0]] = round(now - _t[0][1], 1)
    _t[0] = (name, now)


def run(ck):
    try:
        from spsdk.crypto.signature_provider import get_signature_provider
        from spsdk.dat.dac_packet import DebugAuthenticationChallenge as DAC
        from spsdk.dat.dar_packet import DebugAuthenticateResponse as DAR
        from spsdk.dat.dar_packet import _version_mapping
        from spsdk.dat.debug_credential import DebugCredentialCertificate as DC
        from spsdk.dat.debug_credential import DebugCredentialEdgeLockEnclaveV2, ProtocolVersion
        from spsdk.exceptions import SPSDKError
        from spsdk.utils.crypto.rkht import RKHTv1, RKHTv21
        from spsdk.utils.crypto.rot import Rot
        from spsdk.utils.database import DatabaseManager, get_db, get_families
    except (ImportError, SyntaxError) as exc:  # tests/dat does not collect in the baseline: an import failure is infrastructure
        raise Infra(f"spsdk.dat cannot be imported: {type(exc).__name__}: {exc}")

    import logging
    logging.getLogger("spsdk").setLevel(logging.ERROR)
    logging.disable(logging.WARNING)
    _tick(ck, "lean")
    ck.lean_obligations(generated=["DatConsts"])
    _tick(ck, "setup+tables")
    drv = ck.driver()
    ck.assume("public keys are modelled as their exported byte strings; PublicKey.parse/export round trip is C08's subject",
              "RSA / ECDSA primitives are those of `cryptography` (OpenSSL): signatures are produced by SPSDK and verified independently with it; "
              "the Lean theorems treat sign/verify abstractly (CryptoLaws / Break)",
              "the EdgeLock-enclave SRK table is opaque in the model (length walker over the AHAB container headers); its content is C06's subject",
              "DebugCredentialEdgeLockEnclaveV2 (AHAB certificate) and its signed-message response are checked by the oracle only, not modelled",
              "credentials are built from plain key files (signature provider type 'file'); HSM plugins are out of scope",
              "integers in configurations are non-negative; the protocol version passed explicitly agrees with the RoT key type",
              "SHA-2 of the executable Lean instance equals hashlib (validated by the C09 check)")
    rng = ck.rng
    scratch = Path(os.environ.get("VERIF_SCRATCH") or tempfile.mkdtemp(prefix="verif-C15-"))
    keys = Keys(scratch)
    meta = ck.generated_meta.get("DatConsts", {})

    def ask(stream, reqs):
        """reqs: list of (input, request line, real canonical line[, what])."""
        if drv is None or not reqs:
            return
        answers = drv.batch([r[1] for r in reqs])
        for r, ans in zip(reqs, answers):
            stream.compare(r[0], r[2], ans, *(r[3:4] or ["model differs from implementation"]))

    families = sorted(get_families(DatabaseManager.DAT))
    info = {}
    for f in families:
        db = get_db(f)
        try:
            pss = db.get_bool(DatabaseManager.SIGNING, "pss_padding")
        except SPSDKError:
            pss = False
        info[f] = {"socc": db.get_int(DatabaseManager.DAT, "socc"), "ele": db.get_bool(DatabaseManager.DAT, "based_on_ele", False),
                   "cnt_ver": db.get_int(DatabaseManager.DAT, "ele_cnt_version", 1),
                   "sha256": db.get_bool(DatabaseManager.DAT, "dat_is_using_sha256_always", False),
                   "not_part": db.get_bool(DatabaseManager.DAT, "rot_not_part_of_dac", False),
                   "could_inv": db.get_bool(DatabaseManager.DAT, "rot_could_be_invalid", False),
                   "swapped": db.get_bool(DatabaseManager.DAT, "dac_version_is_swapped", False), "pss": pss,
                   "revs": DatabaseManager().db.devices.get(f).revisions.revision_names()}
        try:
            info[f]["rot_type"] = db.get_str(DatabaseManager.CERT_BLOCK, "rot_type")
        except SPSDKError:
            info[f]["rot_type"] = None

    # ------------------------------------------------------------------------------------------ generated tables vs live objects
    s = ck.stream("tables", "every (family, revision incl. latest) with the dat feature: generated database row = live get_db values; "
                  "_get_class for every row x protocol version, ambassador of every SoC class, _version_mapping, DAC hash length for "
                  "every family x version: live code = model over the generated tables; exhaustive")
    reqs = []
    import re as _re
    gen_txt = (Path(__file__).resolve().parent.parent.parent / "lean" / "SpsdkVerif" / "Generated" / "DatConsts.lean").read_text(encoding="utf-8")
    gen_rows = {(m[0], m[1]): m[2:] for m in _re.findall(
        r'⟨"([^"]+)", "([^"]+)", (\d+), (\w+), (\d+), (\w+), (\w+), (\w+), (\w+), (\w+)⟩', gen_txt)}
    live_rows = {}
    for f in families:
        for rev in info[f]["revs"] + ["latest"]:
            db = get_db(f, rev)
            try:
                pss = db.get_bool(DatabaseManager.SIGNING, "pss_padding")
            except SPSDKError:
                pss = False
            b = lambda x: "true" if x else "false"  # noqa: E731
            live_rows[(f, rev)] = (str(db.get_int(DatabaseManager.DAT, "socc")), b(db.get_bool(DatabaseManager.DAT, "based_on_ele", False)),
                                   str(db.get_int(DatabaseManager.DAT, "ele_cnt_version", 1)),
                                   b(db.get_bool(DatabaseManager.DAT, "dat_is_using_sha256_always", False)),
                                   b(db.get_bool(DatabaseManager.DAT, "rot_not_part_of_dac", False)),
                                   b(db.get_bool(DatabaseManager.DAT, "rot_could_be_invalid", False)),
                                   b(db.get_bool(DatabaseManager.DAT, "dac_version_is_swapped", False)), b(pss))
    for k in sorted(set(gen_rows) | set(live_rows)):
        s.note(("row",) + k)
        s.compare(("row",) + k, live_rows.get(k), gen_rows.get(k), "generated database row differs from the live database")
    s.expect(sorted(ProtocolVersion.VERSIONS) == sorted(VERSIONS), ("versions",), "ProtocolVersion.VERSIONS is not the documented set 1.0 1.1 2.0 2.1 2.2",
             ProtocolVersion.VERSIONS, sorted(VERSIONS))
    for (f, rev) in sorted(live_rows):
        for v in VERSIONS:
            r = pyres(lambda: DC._get_class(f, ProtocolVersion(v), rev).__name__)
            real = ("ok:" + {"DebugCredentialEdgeLockEnclaveV2": "eleV2", **CLS}.get(r[1], r[1])) if r[0] == "ok" else r[0]
            s.note(("getclass", f, rev, v))
            ma, mi = v.split(".")
            reqs.append((("getclass", f, rev, v), f"getclass {f} {rev} {ma} {mi}", real))
    soccs = sorted({int(v[0]) for v in live_rows.values()})
    for socc in soccs + [0xDEADBEEF, 2, 3]:
        r = pyres(DC.get_family_ambassador, socc)
        s.note(("ambassador", socc))
        reqs.append((("ambassador", socc), f"ambassador {socc}", "ok:" + r[1] if r[0] == "ok" else "none"))
        s.expect(r[0] in ("ok", "E:spsdk"), ("ambassador", socc), "get_family_ambassador raises a non-SPSDK error", r)
    for v in list(VERSIONS) + ["3.0"]:
        ma, mi = v.split(".")
        cl = _version_mapping.get(v)
        real = "none" if cl is None else "ok:" + ("true" if any(b.__name__ == "DebugAuthenticateResponseECC" for b in cl.__mro__) else "false")
        s.note(("dar_uses_ecc", v))
        reqs.append((("dar_uses_ecc", v), f"dar_uses_ecc {ma} {mi}", real))
        if cl is not None:
            s.expect((real == "ok:true") == (ma == "2"), ("dar_uses_ecc", v), "the response class of an ECC protocol version does not bind the UUID "
                     "(or an RSA one does)", real)
    ask(s, reqs)
    s.exhaustive = True

    # ------------------------------------------------------------------------------------------ credentials
    s_dc = ck.stream("dc", "families: every DAT family at least once per class-relevant version, then random; versions 1.0/1.1 (RSA-2048/4096), "
                     "2.0/2.1/2.2 (P-256/384/521), EdgeLock v1 with every key type; RoT sets of 1..4 keys x every used index; socc by family or "
                     "legacy socc value; uuid/cc_socu/cc_vu/cc_beacon at 0, 1, 2^31, 2^32-1 and random; version passed explicitly or derived; "
                     "non-trivial = distinct configuration")
    s_bad = ck.stream("dc_malformed", "exported credentials truncated at every field boundary (and one byte before), extended, with mutated "
                      "flags word / version / SoC class / zeroed RoT item: real parse vs model parse (class of result and every field)")
    s_dar = ck.stream("dar", "for every credential: hand-built challenge bytes (hash field by family/version, swapped version where the database "
                      "says so) -> DAC.parse fields, validate_against_dc, DebugAuthenticateResponse.create/export; independent verification of the "
                      "response signature; re-verification against SPSDK's message for another challenge / credential / UUID must fail")

    _tick(ck, "dc+dar loop")
    ele_v1 = [f for f in families if info[f]["ele"] and info[f]["cnt_ver"] == 1]
    ele_v1_revs = [(f, rev) for f in families if info[f]["ele"] for rev in info[f]["revs"]
                   if live_rows[(f, rev)][1] == "true" and live_rows[(f, rev)][2] == "1"]
    classic = [f for f in families if not info[f]["ele"]]
    limits = [0, 1, 0x7FFFFFFF, 0x80000000, U32]

    def rnd32():
        return rng.choice(limits) if rng.random() < 0.35 else rng.getrandbits(rng.choice([8, 16, 32]))

    def rnd_uuid():
        r = rng.random()
        if r < 0.12:
            return bytes(16)
        if r < 0.2:
            return b"\xff" * 16
        return bytes(rng.getrandbits(8) for _ in range(16))

    cases = []  # (family, revision|None, version, n, used, by_socc, explicit_version)
    # systematic part: every version x n x used on one classic family each, every classic family once, every EdgeLock v1 row x key type
    for v in VERSIONS:
        for n in (1, 2, 3, 4):
            for used in range(n):
                cases.append((rng.choice(classic), None, v, n, used, False, rng.random() < 0.5))
    for f in classic:
        cases.append((f, None, rng.choice(list(VERSIONS)), rng.randint(1, 4), 0, rng.random() < 0.3, rng.random() < 0.5))
    # RoT keys with a leading zero byte in a coordinate, in every run: every ECC version x a family of the matching image-tool RoT type where there
    # is one (cert block v2.1 / AHAB) x (all four special keys, every used index | one special key at every position among ordinary ones | alone)
    cb21 = [f for f in classic if info[f].get("rot_type") == "cert_block_21"] or classic
    for v in ("2.0", "2.1", "2.2"):
        f = cb21[{"2.0": 0, "2.1": 1, "2.2": 2}[v] % len(cb21)]
        for used in range(4):
            cases.append((f, None, v, 4, used, False, False, (0, 1, 2, 3)))
        for pos in range(4):
            cases.append((f, None, v, 4, (pos + 1) % 4, False, False, (pos,)))
            cases.append((f, None, v, pos + 1, pos, False, True, (pos,)))
        for z in range(4):
            cases.append((f, None, v, 1, 0, False, False, ("solo", z)))
        for (fe, reve) in ele_v1_revs[:2]:
            cases.append((fe, reve, v, 4, 2, False, False, (0, 1, 2, 3)))
    for (f, rev) in ele_v1_revs:
        for v in VERSIONS:
            cases.append((f, rev, v, 4, rng.randrange(4), False, rng.random() < 0.5))
    for f in ele_v1:
        for used in range(4):
            cases.append((f, None, rng.choice(list(VERSIONS)), 4, used, False, False))
    n_rsa4096 = sum(1 for c in cases if c[2] == "1.1")
    extra = ck.budget(120, 5000)
    while extra > 0:
        v = rng.choice(list(VERSIONS))
        if v == "1.1" and n_rsa4096 > ck.budget(24, 400):
            continue  # RSA-4096 private key loading dominates the quick budget
        n_rsa4096 += v == "1.1"
        if rng.random() < 0.2 and ele_v1_revs:
            f, rev = rng.choice(ele_v1_revs)
            cases.append((f, rev if rng.random() < 0.5 else None, v, 4, rng.randrange(4), False, rng.random() < 0.5))
            if cases[-1][1] is None and not (info[f]["ele"] and info[f]["cnt_ver"] == 1):
                cases.pop()
                continue
        else:
            f = rng.choice(classic)
            n = rng.randint(1, 4)
            cases.append((f, rng.choice([None, None] + info[f]["revs"]), v, n, rng.randrange(n), rng.random() < 0.25, rng.random() < 0.5))
        extra -= 1

    amb_of = {}
    for so in soccs:
        a = pyres(DC.get_family_ambassador, so)
        amb_of[so] = a[1] if a[0] == "ok" else None
    sp_cache = {}

    def dck_sp(path, pss):
        k = (path, pss)
        if k not in sp_cache:
            sp_cache[k] = get_signature_provider(local_file_key=path, pss_padding=pss)
        return sp_cache[k]

    reqs_dc, reqs_bad, reqs_dar = [], [], []
    malformed_budget = ck.budget(60, 1200)
    dar_neg_budget = ck.budget(200, 6000)
    seen_cfg = set()
    prev_by_cls = {}
    for ci, case in enumerate(cases):
        fam, rev, ver, n, used, by_socc, explicit = case[:7]
        zpos = case[7] if len(case) > 7 else ()
        kind = keys.kind_of(ver)
        kk = keys.kinds[kind]
        fi = info[fam]
        # RoT keys of this case: ordinary ones, or the short-coordinate ones at the positions the case asks for
        if zpos and zpos[0] == "solo":
            srk = [keys.kinds[kind + "z"][f"srk{zpos[1]}"]]
        else:
            srk = [(keys.kinds[kind + "z"] if i in zpos else kk)[f"srk{i}"] for i in range(4)]
        # legacy configuration (socc instead of family): SPSDK works with the ambassador family of the SoC class
        if by_socc:
            a = amb_of.get(fi["socc"])
            if fi["ele"] or a is None or info[a]["ele"] or rev:
                by_socc = False
        uuid, socu, vu, beacon = rnd_uuid(), rnd32(), rnd32(), rnd32()
        flag_ca = fi["ele"] and rng.random() < 0.3
        cfg = {"uuid": uuid.hex(), "cc_socu": socu if rng.random() < 0.5 else hex(socu), "cc_vu": vu, "cc_beacon": beacon,
               "rot_meta": [srk[i][1] for i in range(n)], "rot_id": used, "rotk": srk[used][0], "dck": kk["dck"][1]}
        if by_socc:
            cfg["socc"] = fi["socc"]
        else:
            cfg["family"] = fam
            if rev:
                cfg["revision"] = rev
        if flag_ca:
            cfg["flag_ca"] = True
        inp = {"family": fam, "revision": rev, "version": ver, "keys": n, "used": used, "by_socc": by_socc, "explicit_version": explicit,
               "short_coordinate_keys_at": list(zpos),
               "uuid": uuid.hex(), "cc_socu": socu, "cc_vu": vu, "cc_beacon": beacon, "flag_ca": bool(flag_ca)}
        key = (fam, rev, ver, n, used, by_socc, uuid, socu, vu, beacon, flag_ca, zpos)
        exp_cls = "ele" if fi["ele"] else VERSIONS[ver][0]
        if rev and fi["ele"]:
            exp_cls = "ele"
        s_dc.note(inp, nontrivial=key not in seen_cfg, cls=f"{exp_cls}/{ver}/n{n}" + ("/short-coordinate" if zpos else ""))
        seen_cfg.add(key)

        def build(c=cfg, e=explicit, v=ver):
            d = DC.create_from_yaml_config(dict(c), version=ProtocolVersion(v) if e else None)
            d.sign()
            return d, d.export()
        r = pyres(build)
        if not s_dc.expect(r[0] == "ok", inp, "create_from_yaml_config / sign / export of a valid configuration raises", r):
            continue
        dc, data = r[1]
        cls = CLS.get(type(dc).__name__)
        if not s_dc.expect(cls == exp_cls and f"{dc.version.major}.{dc.version.minor}" == ver, inp,
                           "wrong credential class / protocol version for the family and RoT key type", (type(dc).__name__, str(dc.version)), (exp_cls, ver)):
            continue
        fam_kind, bits = VERSIONS[ver]
        pss = fi["pss"]
        rot_priv = srk[used][2]
        raws3 = [pub_raw(srk[i][2], 3 if fam_kind == "rsa" else None) for i in range(n)]

        # -- (1) SPSDK parse gives back every field
        pr = pyres(DC.parse, data)
        ok_parse = pr[0] == "ok"
        # DebugCredentialCertificate.parse() has no family/revision argument: it works with the LATEST revision of the ambassador family
        rev_blind = bool(rev) and fi["ele"] and fi["cnt_ver"] != 1 and ver != "2.0"
        if rev_blind:
            s_dc.expect(ok_parse, inp, "DebugCredentialCertificate.parse cannot parse an EdgeLock v1 credential of an older chip revision when the latest "
                        "revision of the family uses EdgeLock v2 credentials (protocol version other than 2.0)", pr[0], finding="C15-dc-parse-ignores-revision")
            if not ok_parse:
                pr = pyres(type(dc).parse, data)
                ok_parse = pr[0] == "ok"
        s_dc.expect(ok_parse, inp, "DebugCredentialCertificate.parse refuses the credential SPSDK has just exported", pr)
        if ok_parse:
            p = pr[1]
            same = pyres(lambda: (type(p) is type(dc), p.version == dc.version, p.socc == dc.socc, p.uuid == dc.uuid, p.rot_meta == dc.rot_meta,
                                  p.dck_pub == dc.dck_pub, p.cc_socu == dc.cc_socu, p.cc_vu == dc.cc_vu, p.cc_beacon == dc.cc_beacon,
                                  p.rot_pub == dc.rot_pub, p.signature == dc.signature, p == dc, p.export() == data))
            s_dc.expect(same[0] == "ok" and all(same[1]), inp, "a parsed credential differs from the created one (type, version, socc, uuid, rot_meta, dck, "
                        "cc_socu, cc_vu, cc_beacon, rot_pub, signature, ==, re-export)", same)
        v2 = pyres(DebugCredentialEdgeLockEnclaveV2.parse, data)
        s_dc.expect(v2[0] == "E:spsdk", inp, "DebugCredentialEdgeLockEnclaveV2.parse does not refuse a classic credential with an SPSDK error "
                    "(the dispatcher would not reach the classic parser)", v2[0])

        # -- (2) independent decoding of the documented layout gives back the configured values
        dec = decode_dc(data, cls, ver)
        want_socc = fi["socc"] if not rev else int(live_rows[(fam, rev)][0])
        exp_dck = pub_raw(kk["dck"][2], 4 if cls == "rsa" else None)
        exp_rot = pub_raw(rot_priv, 4 if cls == "rsa" else None)
        chk = {"major.minor": (f"{dec['major']}.{dec['minor']}", ver), "socc": (dec["socc"], want_socc), "uuid": (dec["uuid"], uuid),
               "cc_socu": (dec["cc_socu"], socu), "cc_vu": (dec["cc_vu"], vu), "cc_beacon": (dec["cc_beacon"], beacon),
               "dck": (dec["dck"], exp_dck), "length": (dec["total"], len(data))}
        if cls == "rsa":
            tbl = b"".join(hashlib.sha256(x).digest() for x in raws3)
            chk["rot_meta"] = (dec["rot_meta"], tbl + bytes(128 - len(tbl)))
            chk["rot_pub"] = (dec["rot_pub"], exp_rot)
        elif cls == "ecc":
            h = getattr(hashlib, f"sha{HASHBITS[bits]}")
            chk["flags"] = ((dec["flags_marker"], dec["used"], dec["cnt"], dec["flags_rest"]), (1, used, n, 0))
            chk["crtk table"] = (dec["items"], [h(x).digest() for x in raws3] if n > 1 else [])
            chk["rot_pub"] = (dec["rot_pub"], exp_rot)
        else:
            chk["flags"] = ((dec["flags_marker"], dec["used"], dec["cnt"], dec["flags_rest"]), (1, used, n, 0))
            chk["srk table present"] = (all(pub_raw(srk[i][2])[:32] in dec["srk"] for i in range(4)), True)
        badf = {k: v for k, v in chk.items() if v[0] != v[1]}
        s_dc.expect(not badf, inp, "exported credential does not carry the configured value in the documented field", badf)

        # -- (3) signature verifies under the RoT key file named by rot_id over ALL preceding bytes (and only with them)
        tbs, sig = data[:dec["tbs_len"]], dec["sig"]
        s_dc.expect(dec["tbs_len"] + len(sig) == len(data) and len(sig) > 0, inp, "signature is not the last field of the credential", (dec["tbs_len"], len(sig), len(data)))
        v_ok = verify_sig(rot_priv, sig, tbs, pss)
        s_dc.expect(v_ok, inp, "credential signature does not verify (cryptography) under the named RoT key over all preceding bytes", {"pss": pss})
        if v_ok:
            # every preceding field is covered: flipping one byte inside each field breaks the verification
            bounds = [0, 2, 4, 8, 24, 28, 32, 36, len(tbs) - 1] if cls != "rsa" else [0, 2, 4, 8, 24, 152, 152 + len(dec["dck"]),
                                                                                  156 + len(dec["dck"]), 160 + len(dec["dck"]), 164 + len(dec["dck"]), len(tbs) - 1]
            for b in bounds:
                mut = bytearray(tbs)
                mut[b] ^= 0x01
                s_dc.expect(not verify_sig(rot_priv, sig, bytes(mut), pss), inp, f"signature still verifies after changing byte {b} of the signed range", b)
            for oth in range(n):
                if oth != used:
                    s_dc.expect(not verify_sig(srk[oth][2], sig, tbs, pss), inp, "signature verifies under a RoT key other than the named one", oth)
        tr = pyres(dc._get_data_to_sign)
        s_dc.expect(tr == ("ok", tbs), inp, "_get_data_to_sign() is not the exported credential without its trailing signature", tr[0])

        # -- (4) RoT hash = image tools = hashlib
        hr = pyres(dc.calculate_hash)
        ref = ref_rot_hash(cls, ver, raws3, dc.rot_meta.export())
        s_dc.expect(hr == ("ok", ref), inp, "calculate_hash() differs from the documented RoT key hash recomputed with hashlib", hr, ref)
        pubs = [srk[i][1] for i in range(n)]
        if cls == "rsa":
            tool = pyres(lambda: RKHTv1.from_keys(pubs).rkth())
            s_dc.expect(tool == ("ok", ref), inp, "RoT hash differs from RKHTv1 (cert block v1 image tools)", tool, ref)
        elif cls == "ecc" and bits in (256, 384):
            tool = pyres(lambda: RKHTv21.from_keys(pubs).rkth())
            s_dc.expect(tool == ("ok", ref), inp, "RoT hash differs from RKHTv21 (cert block v2.1 image tools)", tool, ref)
        want_type = {"rsa": "cert_block_1", "ecc": "cert_block_21", "ele": "srk_table_ahab"}[cls]
        if fi["rot_type"] == want_type and not (cls == "ecc" and bits == 521) and not flag_ca:
            tool = pyres(lambda: Rot(fam, rev or "latest", pubs).calculate_hash())
            s_dc.expect(tool == ("ok", ref), inp, "RoT hash differs from spsdk.utils.crypto.rot.Rot (nxpcrypto rot calc-hash) for the same keys", tool, ref)

        # -- correspondence
        toks = dc_tokens(dc)
        reqs_dc.append((inp, "export " + toks, "ok:" + data.hex(), "model export differs"))
        reqs_dc.append((inp, "tbs " + toks, canon(tr), "model data-to-sign differs"))
        reqs_dc.append((inp, "tbs " + dc_tokens(dc, b""), canon(tr), "model data-to-sign depends on the signature"))
        pc = pyres(type(dc).parse, data)
        reqs_dc.append((inp, f"parse {cls} " + data.hex(), ("ok:" + dc_tokens(pc[1])) if pc[0] == "ok" else pc[0], "model class parse differs"))
        pa = pyres(DC.parse, data)
        reqs_dc.append((inp, "parse auto " + data.hex(), ("ok:" + dc_tokens(pa[1])) if pa[0] == "ok" else pa[0], "model dispatching parse differs"))
        reqs_dc.append((inp, "hash " + toks, canon(hr), "model calculate_hash differs"))
        if cls == "rsa":
            reqs_dc.append((inp, "rsa_meta " + items_str(raws3), "ok:" + rotmeta_tok(dc.rot_meta), "model RotMetaRSA.load_from_config differs"))
        elif cls == "ecc":
            reqs_dc.append((inp, f"ecc_meta {used} " + items_str(raws3), "ok:" + rotmeta_tok(dc.rot_meta), "model RotMetaEcc.load_from_config differs"))

        # -- malformed variants of this credential
        if malformed_budget > 0 and (ci % 3 == 0 or not ck.quick):
            malformed_budget -= 1
            muts = []
            cuts = sorted({0, 1, 3, 4, 7, 8, 23, 24, 35, 36, 39, 40, 43, 44, dec["tbs_len"] - 1, dec["tbs_len"], len(data) - 1,
                           len(data) - len(sig) - len(dec["dck"]), len(data) - len(sig) - len(dec["dck"]) - 1})
            if cls == "rsa":
                cuts = sorted(set(cuts) | {151, 152, 152 + len(dec["dck"]), 164 + len(dec["dck"])})
            for c in cuts:
                if 0 <= c < len(data):
                    muts.append(("trunc", c, data[:c]))
            for k in (1, 5):
                muts.append(("extend", k, data + bytes(rng.getrandbits(8) for _ in range(k))))
            if cls in ("ecc", "ele"):
                fl = int.from_bytes(data[36:40], "little")
                for nm, nf in (("nomarker", fl & 0x7FFFFFFF), ("cnt5", (fl & ~0xF0) | 0x50), ("used=cnt", (fl & ~0xF00) | (n << 8)),
                               ("cnt0", fl & ~0xF0), ("lowbits", fl | 0xF), ("highbits", fl | 0x7FFFF000)):
                    muts.append(("flags-" + nm, nf, data[:36] + struct.pack("<L", nf) + data[40:]))
                if n > 1:
                    nu = (used + 1) % n
                    muts.append(("flags-used", nu, data[:36] + struct.pack("<L", (fl & ~0xF00) | (nu << 8)) + data[40:]))
            if cls == "rsa" and n > 1:
                z = rng.randrange(n)
                muts.append(("zero-item", z, data[:24 + 32 * z] + bytes(32) + data[24 + 32 * (z + 1):]))
            for ma, mi in ((0, 0), (1, 2), (2, 3), (3, 0), (0xFFFF, 0xFFFF), (dc.version.minor, dc.version.major)):
                muts.append(("version", (ma, mi), struct.pack("<2H", ma, mi) + data[4:]))
            for so in (0xDEADBEEF, info[rng.choice(classic)]["socc"]):
                muts.append(("socc", so, data[:4] + struct.pack("<L", so) + data[8:]))
            for off in (8, 24, 28, 32):
                muts.append(("field", off, data[:off] + bytes([data[off] ^ 0x5A]) + data[off + 1:]))
            for kind_m, arg, buf in muts:
                minp = {"of": inp, "mutation": kind_m, "arg": arg, "len": len(buf)}
                rr = pyres(DC.parse, buf)
                real = ("ok:" + dc_tokens(rr[1])) if rr[0] == "ok" and type(rr[1]).__name__ in CLS else rr[0]
                s_bad.note(minp, cls=f"{kind_m}:{rr[0]}")
                if kind_m == "extend" and not rev_blind:
                    s_bad.expect(rr[0] == "ok" and rr[1] == dc, minp, "trailing bytes after a credential change what is parsed", rr[0])
                if kind_m == "trunc":
                    s_bad.expect(rr[0] != "ok", minp, "a truncated credential is accepted", rr[0])
                reqs_bad.append((minp, "parse auto " + hexs(buf), real, kind_m))

        # -- challenge / response
        ch = bytes(rng.getrandbits(8) for _ in range(32)) if rng.random() > 0.1 else rng.choice([bytes(32), b"\xff" * 32])
        auth_beacon = rnd32()
        dac_uuid = uuid if rng.random() < 0.7 else rnd_uuid()
        if cls == "ele":
            hl = 32
        elif fi["sha256"] or fam_kind == "rsa":
            hl = 32
        else:
            hl = HASHBITS[bits] // 8
        real_hash = hr[1] if hr[0] == "ok" else bytes(hl)
        hmode = rng.choice(["match", "match", "mismatch", "zero"])
        dhash = {"match": (real_hash + bytes(hl))[:hl], "mismatch": bytes((x ^ 0xA5) for x in (real_hash + bytes(hl))[:hl]), "zero": bytes(hl)}[hmode]
        rev_f, pinned, dflt, dvu = rnd32(), rnd32(), rnd32(), rnd32()
        dsocc = dc.socc if rng.random() < 0.85 else rng.choice(soccs)
        dver = (dc.version.major, dc.version.minor) if rng.random() < 0.85 else rng.choice([(1, 0), (2, 0), (2, 1)])
        amb = pyres(DC.get_family_ambassador, dsocc)
        amb_i = info.get(amb[1]) if amb[0] == "ok" else None
        if amb_i is None:
            continue
        # the hash width and version order of the challenge follow the ambassador family of the SoC class found in the challenge
        if amb_i["ele"]:
            hl2 = 32
        elif dver[0] == 2 and not amb_i["sha256"]:
            hl2 = {0: 32, 1: 48, 2: 64}[dver[1]]
        else:
            hl2 = 32
        dhash = (dhash + bytes(64))[:hl2]
        wire_ver = (dver[1], dver[0]) if amb_i["swapped"] else dver
        dac_bytes = struct.pack("<2HL16sL", wire_ver[0], wire_ver[1], dsocc, dac_uuid, rev_f) + dhash + struct.pack("<3L", pinned, dflt, dvu) + ch
        dinp = {"of": inp, "dac": {"version": dver, "socc": dsocc, "uuid": dac_uuid.hex(), "hash": hmode, "challenge": ch.hex()}, "auth_beacon": auth_beacon}
        dr = pyres(DAC.parse, dac_bytes)
        s_dar.note(dinp, cls=f"{cls}/{ver}/{hmode}")
        if not s_dar.expect(dr[0] == "ok", dinp, "DebugAuthenticationChallenge.parse refuses a well-formed challenge", dr):
            continue
        dac = dr[1]
        got = (dac.version.major, dac.version.minor, dac.socc, dac.uuid, dac.rotid_rkh_revocation, dac.rotid_rkth_hash, dac.cc_soc_pinned,
               dac.cc_soc_default, dac.cc_vu, dac.challenge)
        want = (dver[0], dver[1], dsocc, dac_uuid, rev_f, dhash, pinned, dflt, dvu, ch)
        s_dar.expect(got == want, dinp, "DebugAuthenticationChallenge.parse returns other field values than the challenge carries", got, want)
        reqs_dar.append((dinp, "dac_parse " + dac_bytes.hex(), "ok:" + dac_tokens(dac), "model DAC parse differs"))
        if not amb_i["swapped"]:
            er = pyres(dac.export)
            s_dar.expect(er == ("ok", dac_bytes), dinp, "DAC export(parse(x)) != x", er[0])
            reqs_dar.append((dinp, "dac_export " + dac_tokens(dac), canon(er), "model DAC export differs"))
        vr = pyres(dac.validate_against_dc, fam, dc)
        ele_f = fi["ele"]
        exp_ok = ((dver == (dc.version.major, dc.version.minor)) or ele_f) and dsocc == dc.socc and (dac_uuid == uuid or uuid == bytes(16)) and \
            (hr[0] == "ok" and (dhash == real_hash[:len(dhash)] and len(real_hash) >= len(dhash) or fi["not_part"] or fi["could_inv"]))
        exp_idx_err = hr[0] == "ok" and len(real_hash) < len(dhash) and dhash[:len(real_hash)] == real_hash
        if not exp_idx_err:
            s_dar.expect((vr[0] == "ok") == bool(exp_ok) and vr[0] in ("ok", "E:spsdk"), dinp,
                         "validate_against_dc accepts a challenge for another version / SoC class / UUID / RoT hash, or refuses a matching one", vr, exp_ok)
        reqs_dar.append((dinp, f"dac_validate {fam} " + dac_tokens(dac) + " " + toks, "ok:" if vr[0] == "ok" else vr[0], "model validate_against_dc differs"))

        # response
        def mk_dar(d_c=dc, d_ac=dac, ab=auth_beacon, public=True):
            if not rev and public:
                # the public entry point (nxpdebugmbox dat auth): picks the response class and the padding itself
                return DAR.create(family=fam, version=None, dc=d_c, auth_beacon=ab, dac=d_ac, dck=kk["dck"][0])
            klass = DAR._get_class(family=fam, protocol_version=d_c.version, revision=rev or "latest")
            return klass(family=fam, debug_credential=d_c, auth_beacon=ab, dac=d_ac, sign_provider=dck_sp(kk["dck"][0], pss), revision=rev or "latest")
        rr = pyres(lambda: (lambda d: (d, d.export(), d._get_data_for_signature(), d._get_common_data()))(mk_dar()))
        if not s_dar.expect(rr[0] == "ok", dinp, "building / exporting the authentication response raises", rr):
            continue
        dar, dar_bytes, msg_real, common_real = rr[1]
        if not rev and (ci % 4 == 0 or not ck.quick):
            # the configuration-file entry point (`nxpdebugmbox dat auth -c`): credential read back from a file
            dc_file = scratch / f"dc_{ci}.bin"
            dc_file.write_bytes(data)
            lcfg = {"family": fam, "certificate": str(dc_file), "dck_private_key": kk["dck"][0], "beacon": auth_beacon}
            lr = pyres(lambda: (lambda d: (type(d).__name__, d._get_common_data(), d._get_data_for_signature(), d.export()))(DAR.load_from_config(lcfg, dac)))
            s_dar.note({"of": dinp, "via": "load_from_config"}, cls="load_from_config")
            if s_dar.expect(lr[0] == "ok", dinp, "DebugAuthenticateResponse.load_from_config raises for the credential / challenge that create() accepts", lr):
                s_dar.expect(lr[1][0] == type(dar).__name__ and lr[1][1] == common_real and lr[1][2] == msg_real, dinp,
                             "load_from_config builds another response (class / common data / signed message) than create()", lr[1][0])
                s_dar.expect(verify_sig(kk["dck"][2], lr[1][3][len(common_real):], msg_real, pss), dinp,
                             "signature of the response built by load_from_config does not verify under the DCK", None)
            dc_file.unlink()
        with_uuid = dc.version.major == 2
        exp_common = data + struct.pack("<L", auth_beacon) + (dac_uuid if with_uuid else b"")
        exp_msg = exp_common + ch
        s_dar.expect(dar_bytes[:len(exp_common)] == exp_common, dinp, "response does not start with credential || beacon (LE32) || [UUID]", None)
        s_dar.expect(msg_real == exp_msg, dinp, "signed message is not credential || beacon || [UUID] || challenge", None)
        dsig = dar_bytes[len(exp_common):]
        dck_priv = kk["dck"][2]
        exp_siglen = (bits // 8) if fam_kind == "rsa" else 2 * COORD[bits]
        s_dar.expect(len(dsig) == exp_siglen, dinp, "response signature has the wrong length (something else follows the common data)", len(dsig), exp_siglen)
        dv = verify_sig(dck_priv, dsig, exp_msg, pss)
        s_dar.expect(dv, dinp, "response signature does not verify (cryptography) under the credential's DCK over DC || beacon || [UUID] || challenge", {"pss": pss})
        s_dar.expect(not verify_sig(keys.kinds[kind]["dck2"][2], dsig, exp_msg, pss), dinp, "response signature verifies under an unrelated key", None)
        e_flag = "1" if with_uuid else "0"
        reqs_dar.append((dinp, f"dar_common {e_flag} {auth_beacon} {hexs(dac_uuid)} {hexs(ch)} " + toks, "ok:" + common_real.hex(), "model DAR common data differs"))
        reqs_dar.append((dinp, f"dar_msg {e_flag} {auth_beacon} {hexs(dac_uuid)} {hexs(ch)} " + toks, "ok:" + msg_real.hex(), "model DAR signed message differs"))
        # negative: the same signature against SPSDK's own message for another challenge / beacon / credential / UUID
        if dv and dar_neg_budget > 0:
            dar_neg_budget -= 1
            ch2 = bytes(ch[:-1]) + bytes([ch[-1] ^ 1]) if rng.random() < 0.5 else bytes(rng.getrandbits(8) for _ in range(32))
            uuid2 = bytes([dac_uuid[0] ^ 0x80]) + dac_uuid[1:]
            alts = [("challenge", dac_bytes[:-32] + ch2, None, auth_beacon), ("beacon", dac_bytes, None, auth_beacon ^ 1)]
            if with_uuid:
                alts.append(("uuid", dac_bytes[:8] + uuid2 + dac_bytes[24:], None, auth_beacon))
            other = prev_by_cls.get((cls, ver))
            if other is not None and other[1] != data:
                alts.append(("credential", dac_bytes, other[0], auth_beacon))
            for what, db2, dc2, ab2 in alts:
                # (the altered responses are built with a cached signature provider: create() re-reads the private key file every time)
                r2 = pyres(lambda: mk_dar(dc2 or dc, DAC.parse(db2), ab2, public=False)._get_data_for_signature())
                ninp = {"of": dinp, "changed": what}
                s_dar.note(ninp, cls="neg-" + what)
                if s_dar.expect(r2[0] == "ok", ninp, "building the response for the altered input raises", r2):
                    s_dar.expect(r2[1] != msg_real, ninp, f"the signed message does not depend on the {what}", None)
                    s_dar.expect(not verify_sig(dck_priv, dsig, r2[1], pss), ninp, f"a response verifies against a different {what}", None)
        prev_by_cls[(cls, ver)] = (dc, data)

    _tick(ck, "model batches")
    ask(s_dc, reqs_dc)
    # malformed: a model `ok` against an SPSDK refusal is tolerated only where the mutation displaces key bytes (key validity is abstract)
    if drv is not None and reqs_bad:
        answers = drv.batch([r[1] for r in reqs_bad])
        for (minp, _line, real, kind_m), ans in zip(reqs_bad, answers):
            displaced = kind_m in ("version", "socc") or kind_m.startswith("flags-")
            if displaced and real.startswith("E:") and ans.startswith("ok:"):
                s_bad.hist["tolerated:key-validity-abstract"] = s_bad.hist.get("tolerated:key-validity-abstract", 0) + 1
                continue
            s_bad.compare(minp, real, ans, "model parse of a malformed credential differs (" + kind_m + ")")
    ask(s_dar, reqs_dar)

    # ------------------------------------------------------------------------------------------ direct DAC sweep (every family x version)
    s = ck.stream("dac", "hand-built challenges for every DAT family x protocol version (+ unknown versions / SoC class, truncations at the field "
                  "boundaries): parse accept/reject class and fields, real vs model; exhaustive over family x version")
    reqs = []
    for f in families:
        fi = info[f]
        for (ma, mi) in [(1, 0), (1, 1), (2, 0), (2, 1), (2, 2), (3, 0), (2, 3), (0, 0)]:
            amb = pyres(DC.get_family_ambassador, fi["socc"])
            ai = info[amb[1]]
            hl = 32 if ai["ele"] or ai["sha256"] or ma != 2 else {0: 32, 1: 48, 2: 64}.get(mi, 32)
            wire = (mi, ma) if ai["swapped"] else (ma, mi)
            body = struct.pack("<2HL16sL", wire[0], wire[1], fi["socc"], bytes(range(16)), 0x11223344) + bytes(range(hl)) + struct.pack("<3L", 1, 2, 3) + bytes(range(32, 64))
            for cut in (len(body), len(body) - 1, 28 + hl, 28, 27, 0) if (ma, mi) == (2, 1) or f == families[0] else (len(body),):
                buf = body[:cut]
                r = pyres(DAC.parse, buf)
                real = "ok:" + dac_tokens(r[1]) if r[0] == "ok" else r[0]
                di = ("dac", f, ma, mi, cut)
                s.note(di, cls=r[0])
                good = f"{ma}.{mi}" in VERSIONS and cut == len(body)
                s.expect((r[0] == "ok") == good, di, "DAC.parse accepts a truncated challenge / unknown version or refuses a well-formed one", r[0], good)
                if r[0] == "ok":
                    s.expect(r[1].challenge == bytes(range(32, 64)) and r[1].rotid_rkth_hash == bytes(range(hl)) and
                             (r[1].version.major, r[1].version.minor) == (ma, mi), di, "DAC.parse mis-slices the challenge", None)
                reqs.append((di, "dac_parse " + hexs(buf), real))
    r = pyres(DAC.parse, struct.pack("<2HL16sL", 2, 0, 0xDEADBEEF, bytes(16), 0) + bytes(76))
    s.note(("dac", "unknown-socc"))
    s.expect(r[0] == "E:spsdk", ("dac", "unknown-socc"), "DAC.parse of an unknown SoC class is not an SPSDK error", r[0])
    reqs.append((("dac", "unknown-socc"), "dac_parse " + (struct.pack("<2HL16sL", 2, 0, 0xDEADBEEF, bytes(16), 0) + bytes(76)).hex(), r[0]))
    ask(s, reqs)
    s.exhaustive = True

    # ------------------------------------------------------------------------------------------ RSA public exponent 3 (informational)
    _tick(ck, "special+inconsistent")
    run_special(ck, keys, info, classic, DC, ProtocolVersion, RKHTv1)
    run_inconsistent(ck, keys, info, classic, ele_v1, DC, ProtocolVersion, drv)
    _tick(ck, "cli")
    run_cli(ck, keys, info, families, live_rows, DC, scratch)
    _tick(ck, "ele_v2")
    # ------------------------------------------------------------------------------------------ EdgeLock enclave v2 (oracle only)
    run_elev2(ck, keys, info, families, live_rows, DC, DebugCredentialEdgeLockEnclaveV2, drv, scratch)
    _tick(ck, "end")


def run_special(ck, keys, info, classic, DC, ProtocolVersion, RKHTv1):
    s = ck.stream("rsa_e3", "one RSA-2048 RoT key with public exponent 3 (exponent shorter than the 3 bytes the credential hashes): round trip, "
                  "signature; the RoT hash is compared with RKHTv1 and reported as a known finding when it differs")
    fam = "lpc55s69" if "lpc55s69" in classic else classic[0]
    kk = keys.kinds["rsa2048"]
    cfg = {"family": fam, "uuid": "00" * 16, "cc_socu": 1, "cc_vu": 2, "cc_beacon": 3, "rot_meta": [keys.e3[1]], "rot_id": 0, "rotk": keys.e3[0], "dck": kk["dck"][1]}
    inp = {"family": fam, "version": "1.0", "rot_key": "RSA-2048, e=3"}
    s.note(inp)

    def build():
        d = DC.create_from_yaml_config(dict(cfg))
        d.sign()
        return d, d.export()
    r = pyres(build)
    if not s.expect(r[0] == "ok", inp, "credential with an e=3 RoT key cannot be created", r):
        return
    dc, data = r[1]
    p = pyres(DC.parse, data)
    s.expect(p[0] == "ok" and p[1] == dc, inp, "credential with an e=3 RoT key does not parse back", p[0])
    dec = decode_dc(data, "rsa", "1.0")
    s.expect(verify_sig(keys.e3[2], dec["sig"], data[:dec["tbs_len"]], False), inp, "signature under the e=3 RoT key does not verify", None)
    h = pyres(dc.calculate_hash)
    tool = pyres(lambda: RKHTv1.from_keys([keys.e3[1]]).rkth())
    s.expect(h == tool, inp, "RoT hash of a credential whose RoT key has a public exponent shorter than 3 bytes differs from RKHTv1 "
             "(credential hashes modulus || 3-byte exponent, image tools hash modulus || minimal exponent)", h, tool,
             finding="C15-rsa-short-exponent-rotkh")


def run_inconsistent(ck, keys, info, classic, ele_v1, DC, ProtocolVersion, drv):
    """Configurations whose pieces contradict each other must be refused at creation (SPSDK error), consistent ones accepted."""
    s = ck.stream("dc_inconsistent", "configurations with a DCK of another type / size than the RoT key, a UUID that is not 16 bytes long, an explicit "
                  "protocol version contradicting the RoT key (RSA / ECC classes): create_from_yaml_config must refuse them with an SPSDK error; "
                  "consistent controls (incl. an EdgeLock credential with an explicit other version) must be created and round-trip; accept / refuse "
                  "decision also compared with the model (createCheck over the generated refusal tests)")
    fam_c = "lpc55s36" if "lpc55s36" in classic else classic[0]
    fam_r = "lpc55s69" if "lpc55s69" in classic else classic[0]
    fam_e = ele_v1[0] if ele_v1 else None
    K = keys.kinds
    todo = []

    def cfg(fam, rot, dck, n, used, **kw):
        c = {"family": fam, "uuid": "e004090e6bdd2155bbce9e0665805be3", "cc_socu": 1, "cc_vu": 2, "cc_beacon": 3,
             "rot_meta": [K[rot][f"srk{i}"][1] for i in range(n)], "rot_id": used, "rotk": K[rot][f"srk{used}"][0], "dck": K[dck]["dck"][1]}
        c.update(kw)
        return c
    # (kind, description, config, explicit version, must be refused, rot kind, dck kind)
    for rot, dck in (("ecc256", "ecc384"), ("ecc384", "ecc256"), ("ecc256", "ecc521"), ("ecc521", "ecc384"), ("ecc256", "rsa2048")):
        todo.append(("dck", {"rot": rot, "dck": dck, "family": fam_c}, cfg(fam_c, rot, dck, 2, 1), None, True, rot, dck))
    for rot, dck in (("rsa2048", "rsa4096"), ("rsa4096", "rsa2048"), ("rsa2048", "ecc256")):
        todo.append(("dck", {"rot": rot, "dck": dck, "family": fam_r}, cfg(fam_r, rot, dck, 1, 0), None, True, rot, dck))
    if fam_e:
        todo.append(("dck", {"rot": "ecc256", "dck": "ecc384", "family": fam_e}, cfg(fam_e, "ecc256", "ecc384", 4, 2), None, True, "ecc256", "ecc384"))
        todo.append(("control", {"rot": "ecc256", "version": "2.1", "family": fam_e}, cfg(fam_e, "ecc256", "ecc256", 4, 1), "2.1", False, "ecc256", "ecc256"))
    for u in ("", "0011", "11" * 15, "22" * 17, "33" * 20):
        todo.append(("uuid", {"uuid": u, "family": fam_c}, cfg(fam_c, "ecc256", "ecc256", 1, 0, uuid=u), None, True, "ecc256", "ecc256"))
        todo.append(("uuid", {"uuid": u, "family": fam_r}, cfg(fam_r, "rsa2048", "rsa2048", 2, 0, uuid=u), None, True, "rsa2048", "rsa2048"))
    for rot, ver, fam in (("ecc256", "2.1", fam_c), ("ecc384", "2.0", fam_c), ("ecc384", "2.2", fam_c), ("rsa2048", "1.1", fam_r), ("rsa4096", "1.0", fam_r),
                          ("ecc256", "1.0", fam_c)):
        todo.append(("version", {"rot": rot, "version": ver, "family": fam}, cfg(fam, rot, rot, 1, 0), ver, True, rot, rot))
    for rot, ver, fam in (("ecc256", "2.0", fam_c), ("ecc384", None, fam_c), ("ecc521", "2.2", fam_c), ("rsa2048", "1.0", fam_r), ("rsa4096", None, fam_r)):
        todo.append(("control", {"rot": rot, "version": ver, "family": fam}, cfg(fam, rot, rot, 2, 1), ver, False, rot, rot))
    vkey = {("rsa", 2048): "1.0", ("rsa", 4096): "1.1", ("ecc", 256): "2.0", ("ecc", 384): "2.1", ("ecc", 521): "2.2"}
    reqs = []
    for kind, desc, c, ver, refuse, rot, dck in todo:
        inp = {"inconsistency": kind, **desc}

        def build(c=c, ver=ver):
            d = DC.create_from_yaml_config(dict(c), version=ProtocolVersion(ver) if ver else None)
            d.sign()
            return d, d.export()
        r = pyres(build)
        s.note(inp, cls=f"{kind}:{r[0]}")
        if refuse:
            s.expect(r[0] == "E:spsdk", inp, "create_from_yaml_config does not refuse (with an SPSDK error) a self-contradictory configuration: wrong UUID "
                     "length / DCK of another type or size than the RoT key / protocol version contradicting the RoT key", r[0])
        else:
            ok = r[0] == "ok" and pyres(lambda: DC.parse(r[1][1]) == r[1][0]) == ("ok", True)
            s.expect(ok, inp, "a consistent configuration is refused or does not round-trip", r[0])
        # model: class and version as the real code determines them (explicit version, else from the RoT key)
        rk, rb, dk, db = rot[:3], int(rot[3:]), dck[:3], int(dck[3:])
        v = ver or vkey[(rk, rb)]
        fi = info[desc["family"]]
        cls = "ele" if fi["ele"] else ("rsa" if v.startswith("1.") else "ecc")
        ulen = len(bytes.fromhex(c["uuid"]))
        reqs.append((inp, f"create_check {cls} {v[0]} {v[2]} {ulen} {rk} {rb} {dk} {db}", "ok:" if r[0] == "ok" else r[0], "model accept / refuse decision of creation differs"))
    if drv is not None and reqs:
        for (inp, _l, real, what), ans in zip(reqs, drv.batch([r[1] for r in reqs])):
            s.compare(inp, real, ans, what)


def run_cli(ck, keys, info, families, live_rows, DC, scratch):
    """`nxpdebugmbox dat dc get-template / export` through click's CliRunner for every DAT family."""
    import importlib
    import traceback
    s = ck.stream("cli", "every DAT family: `nxpdebugmbox -f FAMILY dat dc get-template` -> YAML with the documented keys -> filled in with key files -> "
                  "`nxpdebugmbox dat dc export -c cfg -o file` -> the file equals the API path up to the signature, parses back, carries the configured "
                  "values, its signature verifies independently, the echoed RKTH is the RoT hash; key type / number of keys rotate over the families")
    try:
        ver = importlib.import_module("spsdk.__version__")
        if tuple(getattr(ver, "version_tuple", (0,)))[:2] < (2, 3):
            # third-party debug-probe plugins installed in this environment refuse to load for a development version number
            ver.version_tuple, ver.version = (2, 6, 0), "2.6.0"
        import yaml
        from click.testing import CliRunner

        from spsdk.apps import nxpdebugmbox
    except Exception as exc:  # noqa: BLE001
        tb = traceback.format_exc()
        in_repo = any(str(KEYDIR.parent.parent.parent / "spsdk") in ln for ln in tb.splitlines() if ln.strip().startswith("File")) and \
            "site-packages" not in tb.strip().splitlines()[-3]
        s.note(("import",))
        s.expect(not in_repo, ("import", "spsdk.apps.nxpdebugmbox"), "the nxpdebugmbox application cannot be imported (error raised inside /repo)", repr(exc)[:300])
        ck.extra["cli_skipped"] = repr(exc)[:300]
        return
    runner = CliRunner()
    kinds_classic = ["ecc256", "rsa2048", "ecc384", "ecc521"]
    rng = ck.rng
    for fi_, fam in enumerate(families):
        fi = info[fam]
        v2 = fi["ele"] and fi["cnt_ver"] == 2
        tpath, cpath, opath = scratch / "tmpl.yaml", scratch / "cfg.yaml", scratch / "out.dc"
        for p in (tpath, cpath, opath):
            if p.exists():
                p.unlink()
        inp = {"family": fam}
        s.note(("template", fam), cls="template")
        r = pyres(lambda: runner.invoke(nxpdebugmbox.main, ["-f", fam, "dat", "dc", "get-template", "-o", str(tpath), "--force"]))
        ok = r[0] == "ok" and r[1].exit_code == 0 and tpath.exists()
        if not s.expect(ok, ("template", fam), "`dat dc get-template` fails", (r[0], getattr(r[1], "exit_code", None), repr(getattr(r[1], "exception", None))[:200]) if r[0] == "ok" else r):
            continue
        tr = pyres(lambda: yaml.safe_load(tpath.read_text()))
        need = {"family", "cc_socu", "uuid"} | ({"public_key_0"} if v2 else {"cc_vu", "cc_beacon", "rot_meta", "rot_id", "dck"})
        if not s.expect(tr[0] == "ok" and isinstance(tr[1], dict) and need <= set(tr[1]) and tr[1].get("family") == fam, ("template", fam),
                        "the generated template is not a YAML mapping with the documented keys for this family",
                        sorted(tr[1]) if tr[0] == "ok" and isinstance(tr[1], dict) else tr[0], sorted(need)):
            continue
        cfg = dict(tr[1])
        cfg.pop("sign_provider", None)
        cfg.pop("signature_provider_0", None)
        cfg.pop("signature_provider_1", None)
        cfg.pop("public_key_1", None)
        cfg.pop("signing_key_1", None)
        socu, uuid = rng.getrandbits(32), bytes(rng.getrandbits(8) for _ in range(16))
        if v2:
            kind = ["ecc256", "ecc384", "ecc521"][fi_ % 3]
            kk = keys.kinds[kind]
            cfg.update({"cc_socu": hex(socu), "uuid": "0x" + uuid.hex(), "public_key_0": kk["dck"][1], "signing_key_0": kk["srk0"][0]})
            n = used = 0
        else:
            kind = (["ecc256", "rsa2048", "ecc384", "ecc521"][fi_ % 4]) if not fi["ele"] else ["ecc256", "ecc384", "rsa2048", "ecc521"][fi_ % 4]
            kk = keys.kinds[kind]
            n = 4 if fi["ele"] else 1 + fi_ % 4
            used = (fi_ // 4) % n
            vu, beacon = rng.getrandbits(32), rng.getrandbits(32)
            cfg.update({"cc_socu": socu, "cc_vu": vu, "cc_beacon": beacon, "uuid": uuid.hex(), "rot_meta": [kk[f"srk{i}"][1] for i in range(n)],
                        "rot_id": used, "rotk": kk[f"srk{used}"][0], "dck": kk["dck"][1]})
        cpath.write_text(yaml.safe_dump(cfg))
        inp = {"family": fam, "keys": kind, "n": n, "used": used, "cc_socu": socu, "uuid": uuid.hex()}
        s.note(inp, cls=("v2/" if v2 else "ele/" if fi["ele"] else "classic/") + kind)
        r = pyres(lambda: runner.invoke(nxpdebugmbox.main, ["dat", "dc", "export", "-c", str(cpath), "-o", str(opath), "--force"]))
        ok = r[0] == "ok" and r[1].exit_code == 0 and opath.exists()
        obs = (r[0], getattr(r[1], "exit_code", None), repr(getattr(r[1], "exception", None))[:300]) if r[0] == "ok" else r
        if v2 and kind == "ecc256":
            # `_get_class_from_cfg` derives protocol version 2.0 from a P-256 key and `_get_class` then returns the EdgeLock v1 class ("dirty hack")
            if not s.expect(ok, inp, "`dat dc export` refuses the EdgeLock v2 template filled in with P-256 keys (validated against the EdgeLock v1 schema)", obs,
                            finding="C15-cli-elev2-p256-dispatch"):
                continue
        elif not s.expect(ok, inp, "`dat dc export` fails for the filled-in template", obs):
            continue
        data = opath.read_bytes()
        out_txt = r[1].output

        def api(c=cfg):
            klass = DC._get_class_from_cfg(config=dict(c), family=fam, search_paths=None)
            d = klass.create_from_yaml_config(config=dict(c))
            d.sign()
            return d, d.export()
        ar = pyres(api)
        if not s.expect(ar[0] == "ok", inp, "the API path raises for the configuration the command line accepts", ar):
            continue
        dc, adata = ar[1]
        pr = pyres(DC.parse, data)
        s.expect(pr[0] == "ok" and pr[1].export() == data and type(pr[1]) is type(dc), inp, "the file written by `dat dc export` does not parse back", pr[0])
        pss = fi["pss"]
        if v2:
            so = int.from_bytes(data[4:6], "little")
            c = COORD[int(kind[3:])]
            s.expect(data[:so] == adata[:so] and len(data) == len(adata), inp, "command line and API produce different certificates (before the signature)", None)
            s.expect(struct.pack("<LLL", fi["socc"], socu, 0) == data[8:20] and data[24:40] == uuid, inp, "certificate does not carry socc || cc_socu || 0 / the UUID", data[8:40].hex())
            s.expect(verify_sig(kk["srk0"][2], data[so + 8:so + 8 + 2 * c], data[:so], False), inp, "certificate signature does not verify independently", None)
        else:
            cls = CLS[type(dc).__name__]
            ver = f"{dc.version.major}.{dc.version.minor}"
            dec = decode_dc(data, cls, ver)
            s.expect(data[:dec["tbs_len"]] == adata[:dec["tbs_len"]] and len(data) == len(adata), inp,
                     "command line and API produce different credentials (before the signature)", None)
            s.expect((dec["socc"], dec["uuid"], dec["cc_socu"], dec["cc_vu"], dec["cc_beacon"]) == (fi["socc"], uuid, socu, vu, beacon), inp,
                     "the credential file does not carry the configured values", None)
            s.expect(verify_sig(kk[f"srk{used}"][2], dec["sig"], data[:dec["tbs_len"]], pss), inp, "signature of the credential file does not verify independently under the named RoT key", None)
            raws3 = [pub_raw(kk[f"srk{i}"][2], 3 if kind.startswith("rsa") else None) for i in range(n)]
            ref = ref_rot_hash(cls, ver, raws3, dc.rot_meta.export())
            s.expect(("RKTH: " + ref.hex()) in out_txt, inp, "the RKTH echoed by `dat dc export` is not the RoT key hash of the configured keys", out_txt[-200:], ref.hex())


def cert_tokens(c):
    """The 8 tokens of Driver/C15.lean for a real AhabCertificate with one key set."""
    k0 = c.public_key_0.export() + c.public_key_0.srk_data.export()
    return " ".join([str(c.length), str(c.signature_offset), str(c._permissions), hexs(c.permission_data), str(c.fuse_version),
                     hexs(c._uuid or b""), hexs(k0), hexs(c.signature_0.signature_data or b"")])


def run_elev2(ck, keys, info, families, live_rows, DC, V2, drv=None, scratch=None):
    s = ck.stream("ele_v2", "EdgeLock-enclave v2 (AHAB certificate) credentials for every family/revision with ele_cnt_version 2 x P-256/384/521 SRK + DCK x "
                  "cc_socu / fuse_version / uuid at limits and random: create -> sign -> export -> parse equality, permission data = socc || cc_socu || 0, "
                  "certificate signature verified independently over all bytes before the signature container and covering every head field; model: "
                  "create, export, signed data, parse (also truncated / mutated buffers), wrapper constructor; response (AHAB signed message) built by "
                  "load_from_config: embeds credential, challenge, beacon, UUID; container signature verified independently under the DCK; never over "
                  "SPSDK's message for another challenge")
    rows = [(f, rev) for (f, rev), v in sorted(live_rows.items()) if v[1] == "true" and v[2] == "2" and rev != "latest"]
    rng = ck.rng
    reqs = []
    try:
        from spsdk.dat.dac_packet import DebugAuthenticationChallenge as DAC
        from spsdk.dat.dar_packet import DebugAuthenticateResponse as DAR
    except ImportError:
        DAC = DAR = None
    reps = ck.budget(3, 60)
    for (f, rev) in rows:
        for bits in (256, 384, 521):
            for rep in range(reps):
                kk = keys.kinds[f"ecc{bits}"]
                socu = [0, U32, 0xFFF][rep] if rep < 3 else rng.choice([1, 0x80000000, rng.getrandbits(32), rng.getrandbits(16)])
                fuse = [0, 255, 1][rep] if rep < 3 else rng.randrange(256)
                uuid = [bytes(16), b"\xff" * 16][rep] if rep < 2 else bytes(rng.getrandbits(8) for _ in range(16))
                cfg = {"family": f, "revision": rev, "cc_socu": hex(socu), "fuse_version": fuse, "public_key_0": kk["dck"][1], "signing_key_0": kk["srk0"][0]}
                if uuid != bytes(16) or rep >= 3:
                    cfg["uuid"] = "0x" + uuid.hex()   # an absent / all-zero UUID is "no UUID" for the certificate
                inp = {"family": f, "revision": rev, "bits": bits, "cc_socu": socu, "fuse_version": fuse, "uuid": uuid.hex()}
                s.note(inp, cls=f"p{bits}")

                def build(c=cfg):
                    d = V2.create_from_yaml_config(dict(c))
                    pre = (d.certificate._permissions, bytes(d.certificate.permission_data), d.certificate.fuse_version, d.certificate._uuid)
                    d.sign()
                    # sign() must not touch what was created; the key block can only be exported once update_fields() has run
                    same = pre == (d.certificate._permissions, bytes(d.certificate.permission_data), d.certificate.fuse_version, d.certificate._uuid)
                    return d, d.export(), cert_tokens_unsigned(d.certificate) if same else "changed-by-sign"
                r = pyres(build)
                if not s.expect(r[0] == "ok", inp, "creating / signing / exporting an EdgeLock v2 credential raises", r):
                    continue
                dc, data, pre = r[1]
                p = pyres(DC.parse, data)
                if "uuid" not in cfg and p[0] == "ok" and type(p[1]) is V2:
                    # "no UUID" is None on the created object and 16 zero bytes on the parsed one: the same wildcard, compared after normalisation
                    dc.certificate._uuid = dc.certificate._uuid or bytes(16)
                    dc.uuid = dc.uuid or bytes(16)
                s.expect(p[0] == "ok" and type(p[1]) is V2 and p[1] == dc and p[1].export() == data and p[1].uuid == dc.uuid, inp,
                         "EdgeLock v2 credential does not parse back to an equal object", p[0])
                want_socc = int(live_rows[(f, rev)][0])
                s.expect((dc.socc, dc.socu, dc.beacon) == (want_socc, socu, 0), inp, "permission data is not socc || cc_socu || 0", (dc.socc, dc.socu, dc.beacon))
                c = COORD[bits]
                so = int.from_bytes(data[4:6], "little")
                head_ok = (data[0], int.from_bytes(data[1:3], "little"), data[3], data[6] ^ data[7], data[7], data[8:20], data[20], data[21:24], data[24:40]) == \
                    (2, len(data), 0xAF, 0xFF, 0x02, struct.pack("<LLL", want_socc, socu, 0), fuse, bytes(3), uuid)
                s.expect(head_ok, inp, "certificate head does not carry version / length / tag / debug permission / socc || cc_socu || 0 / fuse version / UUID "
                         "in the documented positions", data[:40].hex())
                exp_key = pub_raw(kk["dck"][2])
                s.expect(exp_key in data[40:so], inp, "the DCK public key is not inside the signed part of the certificate", None)
                sig = data[so + 8:so + 8 + 2 * c]
                s.expect(so + 8 + 2 * c == len(data) and data[so:so + 8] == bytes([0]) + struct.pack("<H", 8 + 2 * c) + bytes([0xD8, 0, 0, 0, 0]) and
                         verify_sig(kk["srk0"][2], sig, data[:so], False), inp,
                         "certificate signature does not verify under signing_key_0 over all bytes before the signature container", so)
                for b in (1, 4, 7, 8, 12, 16, 20, 24, 39, 40, so - 1):
                    mut = bytearray(data[:so])
                    mut[b] ^= 1
                    s.expect(not verify_sig(kk["srk0"][2], sig, bytes(mut), False), inp, f"certificate signature still verifies after changing byte {b}", b)
                # -- model
                toks = cert_tokens(dc.certificate)
                reqs.append((inp, f"v2_create {want_socc} {socu} {fuse} {hexs(uuid if 'uuid' in cfg else b'')} " + toks.split(" ")[6], "ok:" + pre, "model create differs"))
                reqs.append((inp, "v2_export " + toks, "ok:" + data.hex(), "model certificate export differs"))
                reqs.append((inp, "v2_signed " + toks, canon(pyres(dc.certificate.get_signature_data)), "model signed data differs"))
                reqs.append((inp, "v2_parse " + data.hex(), "ok:" + cert_tokens(p[1].certificate) if p[0] == "ok" else p[0], "model parse differs"))
                if rep < 2 or not ck.quick:
                    for kind_m, buf in [("trunc", data[:k]) for k in (0, 3, 39, 40, 41, so - 1, so, so + 7, len(data) - 1)] + \
                            [("extend", data + b"\x00\x01"), ("tag", data[:3] + b"\xae" + data[4:]), ("version", b"\x01" + data[1:]),
                             ("inv-perm", data[:6] + bytes([data[6] ^ 1]) + data[7:]), ("perm", data[:6] + bytes([0xFE, 0x01]) + data[8:]),
                             ("sigtag", data[:so + 3] + b"\xd7" + data[so + 4:]), ("length+1", data[:1] + struct.pack("<H", len(data) + 1) + data[3:]),
                             ("length-1", data[:1] + struct.pack("<H", len(data) - 1) + data[3:]), ("socc", data[:8] + bytes([data[8] ^ 0x10]) + data[9:])]:
                        pm = pyres(DC.parse, buf)
                        real = ("ok:" + cert_tokens(pm[1].certificate)) if pm[0] == "ok" and type(pm[1]) is V2 else (pm[0] if pm[0] != "ok" else "ok:" + type(pm[1]).__name__)
                        minp = {"of": inp, "mutation": kind_m, "len": len(buf)}
                        s.note(minp, cls=f"{kind_m}:{pm[0]}")
                        if kind_m == "trunc":
                            s.expect(pm[0] != "ok", minp, "a truncated EdgeLock v2 credential is accepted", pm[0])
                        # a refused v2 buffer falls through to the classic dispatcher, whose answer (unknown SoC class ...) is an error as well
                        reqs.append((minp, "v2_parse " + hexs(buf), real if real.startswith("ok:") else "E", "model parse of a malformed certificate differs", True))
                # -- response (AHAB signed message)
                if DAR is not None and scratch is not None and (rep == 2 or not ck.quick):
                    run_elev2_response(s, inp, f, rev, bits, keys, dc, data, uuid, scratch, rng, DAC, DAR, info)
    if drv is not None and reqs:
        answers = drv.batch([r[1] for r in reqs])
        for r, ans in zip(reqs, answers):
            if len(r) > 4:
                ans = ans if ans.startswith("ok:") else "E"
            s.compare(r[0], r[2], ans, r[3])


def cert_tokens_unsigned(c):
    k0 = c.public_key_0.export() + c.public_key_0.srk_data.export()
    return " ".join(["0", "0", str(c._permissions), hexs(c.permission_data), str(c.fuse_version), hexs(c._uuid or b""), hexs(k0), "-"])


def run_elev2_response(s, inp, fam, rev, bits, keys, dc, data, uuid, scratch, rng, DAC, DAR, info):
    """EdgeLock v2 response = AHAB signed message (container v2) carrying the credential as certificate, signed by the DCK."""
    kk = keys.kinds[f"ecc{bits}"]
    c = COORD[bits]
    ch = bytes(rng.getrandbits(8) for _ in range(32))
    beacon = rng.choice([0, 1, 0xFFFF, rng.getrandbits(16)])
    fi = info[fam]
    wire = (0, 2) if fi["swapped"] else (2, 0)
    dac_bytes = struct.pack("<2HL16sL", wire[0], wire[1], dc.socc, uuid, 0) + bytes(32) + struct.pack("<3L", 1, 2, 3) + ch
    dc_file = scratch / "dcv2.bin"
    dc_file.write_bytes(data)
    dinp = {"of": inp, "challenge": ch.hex(), "beacon": beacon}

    def cfg():
        return {"family": fam, "revision": rev, "certificate": str(dc_file), "beacon": beacon, "srk_set": "oem", "used_srk_id": 0, "srk_revoke_mask": 0,
                "signing_key": kk["dck"][0], "output": str(scratch / "unused.bin"),
                "srk_table": {"flag_ca": False, "srk_array": [kk[f"srk{i}"][1] for i in range(4)]}}

    def build(db=dac_bytes):
        dac = DAC.parse(db)
        dac.validate_against_dc(fam, dc)
        d = DAR.load_from_config(cfg(), dac)
        return type(d).__name__, d.export()
    r = pyres(build)
    s.note(dinp, cls="response")
    if not s.expect(r[0] == "ok" and r[1][0] == "DebugAuthenticateResponseEdgelockEnclaveV2", dinp, "building the EdgeLock v2 response (signed message) raises", r):
        return
    out = r[1][1]
    # container header: version, length, tag 0x89, flags(4), sw(2), fuse(1), images(1), signature block offset(2)
    sbo = int.from_bytes(out[12:14], "little")
    sb = out[sbo:]
    cert_off, _srk_off, sig_off = (int.from_bytes(sb[4 + 2 * i:6 + 2 * i], "little") for i in range(3))
    ok_struct = out[3] == 0x89 and sb[3] == 0x90 and sb[cert_off:cert_off + len(data)] == data
    s.expect(ok_struct, dinp, "the signed message does not embed the credential as its certificate", None)
    msg = out[16:sbo]
    # the message stores the first 64 bits of the UUID as two little-endian words
    uuid_words = uuid[3::-1] + uuid[7:3:-1]
    s.expect(ch + struct.pack("<H", beacon) in msg and (uuid_words in msg or uuid[:8] in msg), dinp,
             "the message does not carry challenge || beacon (LE16) and the UUID", msg.hex())
    # AHAB: the container signature covers header || message || signature block head || SRK table array; the certificate (= the credential,
    # itself signed by the SRK) follows the signature and supplies the verification key
    signed = out[:sbo + sig_off]
    sigc = sb[sig_off:]
    sig = sigc[8:8 + 2 * c]
    v = sigc[3] == 0xD8 and verify_sig(kk["dck"][2], sig, signed, False)
    s.expect(v, dinp, "the container signature does not verify (cryptography) under the credential's DCK over header || message || signature block head || SRK table", None)
    if v:
        s.expect(not verify_sig(keys.kinds[f"ecc{bits}"]["dck2"][2], sig, signed, False), dinp, "container signature verifies under an unrelated key", None)
        ch2 = ch[:-1] + bytes([ch[-1] ^ 1])
        r2 = pyres(build, dac_bytes[:-32] + ch2)
        ninp = {"of": dinp, "changed": "challenge"}
        s.note(ninp, cls="neg-challenge")
        if s.expect(r2[0] == "ok", ninp, "building the response for another challenge raises", r2):
            out2 = r2[1][1]
            signed2 = out2[:sbo + sig_off]
            s.expect(signed2 != signed and ch2 in signed2, ninp, "the signed part of the message does not depend on the challenge", None)
            s.expect(not verify_sig(kk["dck"][2], sig, signed2, False), ninp, "an EdgeLock v2 response verifies against a different challenge", None)
        for off, what in ((16 + msg.find(ch), "challenge"), (16 + msg.find(ch) + 32, "beacon"), (4, "container flags"), (sbo + 6, "signature block offsets")):
            mut = bytearray(signed)
            mut[off] ^= 1
            s.expect(not verify_sig(kk["dck"][2], sig, bytes(mut), False), dinp, f"container signature does not cover the {what}", None)
        s.expect(cert_off >= sig_off + 8 + 2 * c, dinp, "unexpected signature block layout (certificate before the signature)", (cert_off, sig_off))


def replay(ck, data):
    """All C15 inputs are regenerated deterministically from the seed recorded in the replay file's name / VERIF_SEED."""
    run(ck)
