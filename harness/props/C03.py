"""C03 - the root-of-trust value and the certificate blocks are a pure function of the root keys.

Obligations   : Properties/C03.lean - every tool path = Spec.rotkh (documented construction) under KeysOK, round trips of
                CertBlockV1 / CertBlockV21 / RootKeyRecord / IskCertificate, flag fields, signed range of the ISK certificate;
                Generated/RotTypes.lean (constants, tables, database rot_type rows re-extracted from the CURRENT source).
Correspondence: real tool path vs modelled path (drv_c03, SHA-2 in Lean) on generated key sets, incl. refused inputs;
                real certificate-block export / parse vs the Lean codecs.
Oracle        : every path of the REAL code = the documented construction (independent hashlib reference `spec_py`, which
                is itself compared with the compiled Lean `Spec.rotkh`), all paths agree, independence from supply form /
                used index / signer / ISK, export->parse->export identity on the real classes, ISK signature verified with
                `cryptography` over exactly  root key record || ISK header || ISK public key || user data.
"""
from __future__ import annotations

import datetime
import hashlib
import itertools
import json
import os
import struct
from pathlib import Path

from vcore import Infra, canon, hexs, pyres

# ------------------------------------------------------------------------------------------------ key material
CURVES = {256: ("secp256r1", 32, "sha256"), 384: ("secp384r1", 48, "sha384"), 521: ("secp521r1", 66, "sha512")}
PW = "verif-pass"
TESTS = Path(os.environ.get("SPSDK_REPO", "/repo")) / "tests"
RSA4096_FILES = [TESTS / f"nxpimage/data/hab/export/keys/SRK{i}_sha256_4096_65537_v3_usr_key.pem" for i in (1, 2, 3, 4)]
RSA3072_FILES = [TESTS / "image/mbi/data/keys_and_certs/private_rsa3072.pem"]


class K:
    """One root key: `cryptography` private key + its public numbers; supply forms are built lazily and cached."""

    _ids = itertools.count()

    def __init__(self, priv):
        from cryptography.hazmat.primitives.asymmetric import rsa
        self.priv = priv
        self.pub = priv.public_key()
        self.id = next(K._ids)
        nums = self.pub.public_numbers()
        if isinstance(priv, rsa.RSAPrivateKey):
            self.kind, self.bits, self.a, self.b = "rsa", self.pub.key_size, nums.n, nums.e
        else:
            self.kind, self.bits, self.a, self.b = "ecc", self.pub.curve.key_size, nums.x, nums.y
        self._forms = {}
        self._certs = {}

    # ---- description used in replay files: public numbers + the (test-only) private part, so that a replay can rebuild the key
    def desc(self):
        d = {"kind": self.kind, "bits": self.bits, "a": str(self.a), "b": str(self.b)}
        pn = self.priv.private_numbers()
        if self.kind == "rsa":
            d.update(p=str(pn.p), q=str(pn.q))
        else:
            d.update(d=str(pn.private_value))
        return d

    @staticmethod
    def from_desc(d):
        from cryptography.hazmat.primitives.asymmetric import ec, rsa
        if d["kind"] == "rsa":
            p, q, e, n = int(d["p"]), int(d["q"]), int(d["b"]), int(d["a"])
            dd = pow(e, -1, (p - 1) * (q - 1))
            nums = rsa.RSAPrivateNumbers(p, q, dd, rsa.rsa_crt_dmp1(dd, p), rsa.rsa_crt_dmq1(dd, q), rsa.rsa_crt_iqmp(p, q), rsa.RSAPublicNumbers(e, n))
            return K(nums.private_key())
        curve = {256: ec.SECP256R1(), 384: ec.SECP384R1(), 521: ec.SECP521R1()}[int(d["bits"])]
        return K(ec.derive_private_key(int(d["d"]), curve))

    def tok(self, ca=False):
        return (f"r:{self.a}:{self.b}:{int(ca)}" if self.kind == "rsa" else f"e:{self.bits}:{self.a}:{self.b}:{int(ca)}")

    @property
    def cs(self):
        return CURVES[self.bits][1]

    def lead_zero(self):
        if self.kind == "rsa":
            return False
        lim = 256 ** (self.cs - 1)
        return self.a < lim or self.b < lim

    # ---- certificates (built with `cryptography` only)
    def cert(self, ca_kind="none", issuer=None):
        """self-signed (or issued by `issuer`) X.509 v3 certificate.  ca_kind: none | both | bc_only | ku_only"""
        key = (ca_kind, issuer.id if issuer else None)
        if key not in self._certs:
            from cryptography import x509
            from cryptography.hazmat.primitives import hashes
            from cryptography.x509.oid import NameOID
            me = x509.Name([x509.NameAttribute(NameOID.COMMON_NAME, f"verif-c03-{self.id}")])
            iss = issuer or self
            iss_name = x509.Name([x509.NameAttribute(NameOID.COMMON_NAME, f"verif-c03-{iss.id}")])
            b = (x509.CertificateBuilder().subject_name(me).issuer_name(iss_name).public_key(self.pub)
                 .serial_number(1000 + self.id).not_valid_before(datetime.datetime(2020, 1, 1))
                 .not_valid_after(datetime.datetime(2120, 1, 1)))
            bc = ca_kind in ("both", "bc_only")
            ku = ca_kind in ("both", "ku_only")
            b = b.add_extension(x509.BasicConstraints(ca=bc, path_length=None), critical=True)
            if ca_kind != "none" or True:
                b = b.add_extension(x509.KeyUsage(digital_signature=True, content_commitment=False, key_encipherment=False,
                                                  data_encipherment=False, key_agreement=False, key_cert_sign=ku,
                                                  crl_sign=False, encipher_only=False, decipher_only=False), critical=True)
            alg = hashes.SHA256() if iss.kind == "rsa" else {256: hashes.SHA256(), 384: hashes.SHA384(), 521: hashes.SHA512()}[iss.bits]
            self._certs[key] = b.sign(iss.priv, alg)
        return self._certs[key]

    # ---- supply forms
    def raw_nxp(self):
        if self.kind == "rsa":
            # SPSDK's raw RSA form is modulus + 3 or 4 exponent bytes; an exponent above 32 bits has no raw form (DER is used instead)
            if self.b >= 2 ** 32:
                from cryptography.hazmat.primitives import serialization as ser
                return self.pub.public_bytes(ser.Encoding.DER, ser.PublicFormat.SubjectPublicKeyInfo)
            return self.a.to_bytes(self.bits // 8, "big") + self.b.to_bytes(3 if self.b < 2 ** 24 else 4, "big")
        return self.a.to_bytes(self.cs, "big") + self.b.to_bytes(self.cs, "big")

    def form(self, name, scratch):
        """-> (value to hand to SPSDK, basic-constraints CA?, key-usage keyCertSign?, is certificate?)"""
        if name in self._forms:
            return self._forms[name]
        from cryptography.hazmat.primitives import serialization as ser
        E, PF, PR = ser.Encoding, ser.PublicFormat, ser.PrivateFormat
        ca = ku = is_cert = False
        base = name[5:] if name.startswith("path:") else name
        if base == "pub_pem":
            v = self.pub.public_bytes(E.PEM, PF.SubjectPublicKeyInfo)
        elif base == "pub_der":
            v = self.pub.public_bytes(E.DER, PF.SubjectPublicKeyInfo)
        elif base == "nxp":
            v = self.raw_nxp()
        elif base.startswith("cert_"):
            _, enc, ca_kind = base.split("_", 2)           # cert_der_none, cert_pem_both, cert_der_bc_only ...
            crt = self.cert(ca_kind)
            v = crt.public_bytes(E.PEM if enc == "pem" else E.DER)
            ca, ku, is_cert = ca_kind in ("both", "bc_only"), ca_kind in ("both", "ku_only"), True
        elif base == "priv_pem":
            v = self.priv.private_bytes(E.PEM, PR.PKCS8, ser.NoEncryption())
        elif base == "priv_der":
            v = self.priv.private_bytes(E.DER, PR.PKCS8, ser.NoEncryption())
        elif base == "priv_pem_pw":
            v = self.priv.private_bytes(E.PEM, PR.PKCS8, ser.BestAvailableEncryption(PW.encode()))
        elif base == "obj_pub":
            from spsdk.crypto.keys import PublicKey
            v = PublicKey.create(self.pub)
        elif base == "obj_priv":
            from spsdk.crypto.keys import PrivateKey
            v = PrivateKey.create(self.priv)
        elif base.startswith("obj_cert_"):
            from spsdk.crypto.certificate import Certificate
            ca_kind = base[len("obj_cert_"):]
            v = Certificate(self.cert(ca_kind))
            ca, ku, is_cert = ca_kind in ("both", "bc_only"), ca_kind in ("both", "ku_only"), True
        else:
            raise ValueError(name)
        if name.startswith("path:"):
            p = Path(scratch) / f"k{self.id}_{base}.bin"
            if not p.exists():
                p.write_bytes(v)
            v = str(p)
        self._forms[name] = (v, ca, ku, is_cert)
        return self._forms[name]

    def file(self, base, scratch):
        return self.form("path:" + base, scratch)[0]


BYTE_FORMS = ["pub_pem", "pub_der", "nxp", "cert_der_none", "cert_pem_none", "priv_pem", "priv_der"]
NOCA_FORMS = BYTE_FORMS + ["obj_pub", "obj_priv", "obj_cert_none", "path:pub_pem", "path:cert_der_none", "path:priv_pem", "path:nxp",
                           "path:pub_der"]
CA_FORMS = ["cert_der_both", "cert_pem_both", "obj_cert_both", "path:cert_der_both", "cert_der_bc_only", "cert_der_ku_only",
            "obj_cert_bc_only", "path:cert_pem_both"]
CERT_FORMS = ["cert_der_none", "cert_pem_none", "obj_cert_none", "path:cert_der_none", "cert_der_both", "obj_cert_both",
              "cert_der_bc_only", "cert_der_ku_only", "path:cert_pem_both"]


def ecc_key(rng, bits, want_lead_zero=False, want_two=False, which=None):
    """deterministic EC key from the run's PRNG; rejection sampling for leading-zero coordinates
    (`which` = "x" / "y": that coordinate must be the short one)"""
    from cryptography.hazmat.primitives.asymmetric import ec
    curve = {256: ec.SECP256R1(), 384: ec.SECP384R1(), 521: ec.SECP521R1()}[bits]
    order_bits = bits
    cs = CURVES[bits][1]
    while True:
        d = rng.getrandbits(order_bits - 1) | 1
        try:
            priv = ec.derive_private_key(d, curve)
        except ValueError:
            continue
        if not want_lead_zero:
            return K(priv)
        n = priv.public_key().public_numbers()
        lim = 256 ** (cs - (2 if want_two else 1))
        if (which in (None, "x") and n.x < lim) or (which in (None, "y") and n.y < lim):
            return K(priv)


_SMALL_PRIMES = [p for p in range(3, 2000) if all(p % q for q in range(2, int(p ** 0.5) + 1))]


def _prime(rng, bits, e):
    """deterministic (seeded) probable prime with its two top bits set and gcd(e, p - 1) = 1"""
    import math
    while True:
        p = rng.getrandbits(bits) | (3 << (bits - 2)) | 1
        if any(p % q == 0 for q in _SMALL_PRIMES) or math.gcd(e, p - 1) != 1:
            continue
        if all(pow(a, p - 1, p) == 1 for a in (2, 3, 5, 7, 11, 13)):
            return p


def rsa_key_with_e(rng, e, bits=2048):
    """RSA key with an arbitrary odd public exponent (cryptography's generator only offers 3 and 65537)"""
    from cryptography.hazmat.primitives.asymmetric import rsa
    while True:
        p, q = _prime(rng, bits // 2, e), _prime(rng, bits // 2, e)
        if p != q and (p * q).bit_length() == bits:
            break
    d = pow(e, -1, (p - 1) * (q - 1))
    nums = rsa.RSAPrivateNumbers(p, q, d, rsa.rsa_crt_dmp1(d, p), rsa.rsa_crt_dmq1(d, q), rsa.rsa_crt_iqmp(p, q), rsa.RSAPublicNumbers(e, p * q))
    return K(nums.private_key())


RSA_EXPONENTS = [3, 257, 65539, (1 << 24) + 1, (1 << 32) - 1]     # 1, 2, 3, 4, 4 bytes; 65537 is the rest of the pool
RSA_EXPONENT_TOO_BIG = (1 << 32) + 1                               # does not fit the 4-byte exponent field of an AHAB SRK record


def load_priv(path, password=None):
    from cryptography.hazmat.primitives import serialization as ser
    return K(ser.load_pem_private_key(Path(path).read_bytes(), password=password))


# ------------------------------------------------------------------------------------------------ documented construction
def H(name, data):
    return hashlib.new(name, data).digest()


def be_min(v):
    return v.to_bytes((v.bit_length() + 7) // 8, "big")


def key_hash(k):
    if k.kind == "rsa":
        return H("sha256", be_min(k.a) + be_min(k.b))
    return H(CURVES[k.bits][2], k.a.to_bytes(k.cs, "big") + k.b.to_bytes(k.cs, "big"))


def spec_py(rot_type, keys, cas=None):
    """The documented construction of the RoT value, written independently of SPSDK and of the Lean Spec (hashlib)."""
    cas = cas or [False] * len(keys)
    if rot_type == "cert_block_1":
        table = b"".join(key_hash(k) for k in keys) + bytes(32) * (4 - len(keys))
        return H("sha256", table)
    if rot_type == "cert_block_21":
        if not keys:
            return b""
        if len(keys) == 1:
            return key_hash(keys[0])
        alg = "sha256" if keys[0].kind == "rsa" else CURVES[keys[0].bits][2]
        return H(alg, b"".join(key_hash(k) for k in keys))

    def ahab_fields(k):
        if k.kind == "rsa":
            nb = (k.a.bit_length() + 7) // 8
            return 0x22, 0, {256: 5, 384: 6, 512: 7}[nb], nb, 4, k.a.to_bytes(nb, "big") + k.b.to_bytes(4, "big"), "sha256"
        code = {256: 1, 384: 2, 521: 3}[k.bits]
        return (0x27, {256: 0, 384: 1, 521: 2}[k.bits], code, k.cs, k.cs,
                k.a.to_bytes(k.cs, "big") + k.b.to_bytes(k.cs, "big"), CURVES[k.bits][2])

    if rot_type in ("srk_table_ahab", "srk_table_ahab_v2"):
        v2 = rot_type.endswith("v2")
        recs = b""
        for i, (k, ca) in enumerate(zip(keys, cas)):
            sign, htag, code, l1, l2, params, halg = ahab_fields(k)
            if v2:
                srk_data = bytes([0x00]) + struct.pack("<H", 8 + len(params)) + bytes([0x5D, i, 0, 0, 0]) + params
                params = H(halg, srk_data).ljust(64, b"\0")
            recs += (bytes([0xE1]) + struct.pack("<H", 12 + len(params)) + bytes([sign, htag, code, 0, 0x80 if ca else 0])
                     + struct.pack("<HH", l1, l2) + params)
        table = bytes([0xD7]) + struct.pack("<H", 4 + len(recs)) + bytes([0x43 if v2 else 0x42]) + recs
        return H("sha512" if v2 else "sha256", table)
    if rot_type == "srk_table_hab":
        hashes = b""
        for k, ca in zip(keys, cas):
            flag = 0x80 if ca else 0
            if k.kind == "rsa":
                m, e = be_min(k.a), be_min(k.b)
                item = (bytes([0xE1]) + struct.pack(">H", 12 + len(m) + len(e)) + bytes([0x21, 0, 0, 0, flag])
                        + struct.pack(">HH", len(m), len(e)) + m + e)
            else:
                item = (bytes([0xE1]) + struct.pack(">H", 12 + 2 * k.cs) + bytes([0x27, 0, 0, 0, flag, {256: 0x4B, 384: 0x4D, 521: 0x4E}[k.bits], 0])
                        + struct.pack(">H", k.bits) + k.a.to_bytes(k.cs, "big") + k.b.to_bytes(k.cs, "big"))
            hashes += H("sha256", item)
        return H("sha256", hashes)
    raise ValueError(rot_type)


def keys_ok(rot_type, keys):
    """the documented domain (mirror of Spec.keysOK; the driver's `keysok` op is compared with it)"""
    def kok(k):
        if k.kind == "rsa":
            return k.bits in (2048, 3072, 4096) and k.a.bit_length() == k.bits and 0 < k.b < 2 ** 32
        return k.a < 256 ** k.cs and k.b < 256 ** k.cs
    if not all(kok(k) for k in keys):
        return False
    n = len(keys)
    if rot_type == "cert_block_1":
        return 1 <= n <= 4 and all(k.kind == "rsa" for k in keys)
    if rot_type == "cert_block_21":
        return 1 <= n <= 4 and (all(k.kind == "ecc" and k.bits == 256 for k in keys) or all(k.kind == "ecc" and k.bits == 384 for k in keys))
    if rot_type in ("srk_table_ahab", "srk_table_ahab_v2"):
        return n == 4 and all((k.kind, k.bits) == (keys[0].kind, keys[0].bits) for k in keys)
    if rot_type == "srk_table_hab":
        return 1 <= n <= 4
    return False


# ------------------------------------------------------------------------------------------------ helpers
def cres(fn, *a, **kw):
    """canonical result of a real call returning bytes"""
    return canon(pyres(fn, *a, **kw), lambda v: v)


def ktoks(keys, cas=None):
    cas = cas or [False] * len(keys)
    return ",".join(k.tok(c) for k, c in zip(keys, cas)) or "-"


def kdesc(keys, forms=None, **kw):
    d = {"keys": [k.desc() for k in keys]}
    if forms is not None:
        d["forms"] = list(forms)
    d.update(kw)
    return d


class Ask:
    """collects driver requests; answers are available after flush().  Answers only ever feed `s.compare` (never an oracle, a
    finding predicate or control flow); an answer a callback cannot interpret is a disagreement, not an exception."""

    def __init__(self, drv, ck=None):
        self.drv, self.ck, self.lines, self.cbs = drv, ck, [], []

    def __call__(self, line, cb):
        if self.drv is None:
            return
        self.lines.append(line)
        self.cbs.append(cb)

    def flush(self):
        if self.drv is None or not self.lines:
            return
        lines, cbs = self.lines, self.cbs
        self.lines, self.cbs = [], []
        for line, cb, ans in zip(lines, cbs, self.drv.batch(lines)):
            try:
                cb(ans)
            except Exception as exc:  # noqa: BLE001
                if self.ck is None:
                    raise
                self.ck.disagreement("driver_answers", {"request": line[:400]}, "<an answer of the expected shape>", str(ans)[:200],
                                     f"driver answer cannot be interpreted ({type(exc).__name__})")


def hx(b):
    return "ok:" + (bytes(b).hex() if len(b) else "-")


def sdump(fn, obj):
    r = pyres(fn, obj)
    return r[1] if r[0] == "ok" else "dump-failed:" + r[0]


def safe(fn, default="<raised>"):
    """value of a cheap attribute / method of a real object; exceptions become a sentinel (never escape the harness)"""
    r = pyres(fn)
    return r[1] if r[0] == "ok" else default


def norm_ok(s):
    """driver prints empty byte strings as '-', canon() as ''"""
    return "ok:-" if s == "ok:" else s


# ------------------------------------------------------------------------------------------------ run
def run(ck, replay_sets=None):
    import logging
    logging.disable(logging.CRITICAL)
    from spsdk.utils.database import DatabaseManager, get_db, get_families

    # driver ops that evaluate only Spec/Rotkh.lean (+ Crypto/): Spec.rotkhCa, Spec.keysOK, Spec.keyHash and the documented table layouts
    # (Spec.ahabTable / ahabTableV2 / habTable / rkhTableV1 / ctrkTable).  Every other op evaluates Model/* or Generated/* (`rotrows`).
    # No oracle of this check uses a driver answer: expectations come from spec_py / key_hash (hashlib) and the real code.
    ck.spec_ops = {"spec", "keysok", "keyhash", "table"}
    ck.lean_obligations(generated=["RotTypes"])
    drv = ck.driver()
    rng = ck.rng
    scratch = os.environ.get("VERIF_SCRATCH") or "/tmp/C03-scratch"
    Path(scratch).mkdir(parents=True, exist_ok=True)
    ask = Ask(drv, ck)
    ck.assume("PEM / DER / PKCS#8 / X.509 decoding, EC point validation and RSA / ECDSA signing are `cryptography`'s (exercised with every supply form, not modelled)",
              "SHA-2 of the Lean driver is the executable reference validated by the C09 check; theorems quantify over an arbitrary hash with fixed digest lengths",
              "the CA attribute that AHAB (BasicConstraints.ca) and HAB (KeyUsage.keyCertSign) copy into their SRK records is treated as part of the key record "
              "(an input of Spec.rotkhCa): it is the only thing a supply form may contribute besides the public numbers, and only for those two RoT types",
              "RSA moduli of standard sizes always have the top bit set (p, q have their two top bits set), so a leading zero byte in the modulus cannot occur; "
              "the theorems nevertheless cover every modulus (rsa_export_eq_hash_input); leading zero coordinates of EC keys are forced by rejection sampling",
              "certificates inside CertBlockV1 are opaque length-delimited byte strings in the model (certOk / semOk parameters)",
              "fresh RSA keys come from OpenSSL's RNG (not from VERIF_SEED): the set of evaluated cases is deterministic, the key values are not; EC keys are derived from VERIF_SEED")

    # ---------------------------------------------------------------- generated table vs live database (trusted-base cross-check)
    # the families per RoT type that steer the streams come from the LIVE database alone; the generated table (a part of the model)
    # is only compared with it, row by row
    live_fams = sorted(get_families(DatabaseManager.CERT_BLOCK))
    by_type = {}
    s_db = ck.stream("rot_table", "every (family, revision) of get_families(cert_block): rot_type, isk_data_limit, isk_data_alignment and the "
                     "'latest' revision of the live database = the row of Generated.RotTypes (exhaustive)")
    s_db.exhaustive = True
    live_rows = {}
    for fam in live_fams:
        revs = pyres(lambda: list(get_db(fam).device.revisions.revision_names()))
        s_db.expect(revs[0] == "ok", {"family": fam}, "the database of a family that supports certificate blocks cannot be loaded", revs[0])
        for rev in (revs[1] if revs[0] == "ok" else []):
            res = pyres(lambda: (get_db(fam, rev).get_str(DatabaseManager.CERT_BLOCK, "rot_type"),
                                 get_db(fam, rev).get_int(DatabaseManager.CERT_BLOCK, "isk_data_limit"),
                                 get_db(fam, rev).get_int(DatabaseManager.CERT_BLOCK, "isk_data_alignment"),
                                 get_db(fam, "latest").name == rev))
            s_db.note((fam, rev), cls=res[1][0] if res[0] == "ok" else res[0])
            if res[0] != "ok":
                live_rows[(fam, rev)] = res[0]
                continue
            rt, lim, al, latest = res[1]
            live_rows[(fam, rev)] = f"{fam}/{rev}/{'true' if latest else 'false'}/{rt}/{lim}/{al}"
            by_type.setdefault(rt, []).append((fam, rev))
    if drv is not None:
        ans = drv.ask("rotrows")
        gen_rows = {}
        for r in str(ans).split(";"):
            parts = r.split("/")
            if len(parts) == 6:
                gen_rows[(parts[0], parts[1])] = r
        if not gen_rows:
            s_db.compare({"request": "rotrows"}, f"<{len(live_rows)} rows family/revision/latest/rot_type/limit/alignment>", str(ans)[:200],
                         "the driver does not print the generated RotTypes table")
        else:
            for key, live in live_rows.items():
                s_db.compare({"family": key[0], "revision": key[1]}, live, gen_rows.get(key, "<no such row>"),
                             "generated RotTypes row differs from the live database")
            for key in sorted(set(gen_rows) - set(live_rows)):
                s_db.compare({"family": key[0], "revision": key[1]}, "<no such family / revision>", gen_rows[key],
                             "generated RotTypes has a row the live database does not have")
        ck.extra["db_rows_cross_checked"] = len(gen_rows)
    for rt in ("cert_block_1", "cert_block_21", "srk_table_ahab", "srk_table_ahab_v2", "srk_table_hab"):
        if not by_type.get(rt):
            raise Infra(f"no family with rot_type {rt} in the database")
    ck.extra["families_per_rot_type"] = {k: len(v) for k, v in by_type.items()}

    # ---------------------------------------------------------------- key pool
    from cryptography.hazmat.primitives.asymmetric import rsa as crsa
    pool = {("rsa", 2048): [K(crsa.generate_private_key(65537, 2048)) for _ in range(ck.budget(5, 10))],
            ("rsa", 4096): [load_priv(p) for p in RSA4096_FILES if p.exists()],
            ("rsa", 3072): [load_priv(p) for p in RSA3072_FILES if p.exists()]}
    if not ck.quick:
        pool[("rsa", 3072)] += [K(crsa.generate_private_key(65537, 3072)) for _ in range(3)]
        pool[("rsa", 4096)] += [K(crsa.generate_private_key(65537, 4096)) for _ in range(1)]
    n_lz = ck.budget(20, 60)
    for bits in (256, 384, 521):
        pool[("ecc", bits)] = [ecc_key(rng, bits) for _ in range(ck.budget(6, 12))]
        pool[("ecc_lz", bits)] = ([ecc_key(rng, bits, True, which="x") for _ in range(n_lz // 2)]
                                  + [ecc_key(rng, bits, True, which="y") for _ in range(n_lz - n_lz // 2)])
    pool[("ecc_lz2", 521)] = [ecc_key(rng, 521, True, True) for _ in range(ck.budget(3, 10))]
    if not ck.quick:
        pool[("ecc_lz2", 256)] = [ecc_key(rng, 256, True, True) for _ in range(2)]        # two leading zero bytes (2^-15 per key)
    # RSA keys with other public exponents (1, 2, 3 and 4 bytes, incl. the 32-bit boundary) - outside the property's quantifier
    # (e = 65537) but inside the theorems' domain 0 < e < 2^32; plus one exponent that does not fit 32 bits
    pool[("rsa_e", 2048)] = [rsa_key_with_e(rng, e) for e in RSA_EXPONENTS for _ in range(ck.budget(1, 2))]
    pool[("rsa_e_same", 2048)] = [rsa_key_with_e(rng, (1 << 32) - 1) for _ in range(3)] + [k for k in pool[("rsa_e", 2048)] if k.b == (1 << 32) - 1][:1]
    pool[("rsa_e_big", 2048)] = [rsa_key_with_e(rng, RSA_EXPONENT_TOO_BIG)]
    ck.extra["key_pool"] = {f"{a}{b}": len(v) for (a, b), v in pool.items()}

    if replay_sets:
        # a replay file: first the key sets of its cases (rebuilt from the recorded numbers), through every path
        sets = []
        for ds in replay_sets:
            ks = pyres(lambda: tuple(K.from_desc(d) for d in ds))
            if ks[0] == "ok" and ks[1]:
                sets.append(ks[1])
        stream_paths(ck, ask, pool, scratch, by_type, only_sets=sets, name="replayed_key_sets")
    s_lz = stream_keyhash(ck, ask, pool, scratch)
    stream_paths(ck, ask, pool, scratch, by_type)
    stream_opseq(ck, ask, pool, scratch, by_type)
    stream_negative(ck, ask, pool, scratch, by_type)
    stream_codec(ck, ask, pool, scratch)
    stream_isk(ck, ask, pool, scratch)
    stream_config_cli(ck, ask, pool, scratch, by_type)
    stream_vx(ck, ask, pool, scratch, by_type)
    stream_hab_items(ck, ask, pool, scratch, by_type)
    stream_canonical(ck, ask, pool, scratch)
    stream_cli(ck, pool, scratch, by_type)
    ask.flush()
    logging.disable(logging.NOTSET)
    return s_lz


# ------------------------------------------------------------------------------------------------ stream: per key, per supply form
def stream_keyhash(ck, ask, pool, scratch):
    """every key of the pool x every supply form: same public key, same per-key hash = documented hash"""
    from spsdk.crypto.utils import extract_public_key, extract_public_key_from_data
    from spsdk.utils.crypto.rkht import RKHT, RKHTv21
    s = ck.stream("key_forms", "every pool key (RSA-2048 fresh, RSA-3072/4096, P-256/384/521 incl. >= 20 per curve with a leading-zero "
                  "coordinate) x every supply form (PEM, DER, raw NXP, self-signed certificate PEM/DER/CA, private key PEM/DER/encrypted, file path, "
                  "object): RKHT.convert_key gives the same public numbers; RKHT._calc_key_hash = documented per-key hash (hashlib) = Lean keyHash; "
                  "non-trivial = distinct (key, form)")
    forms = NOCA_FORMS + CA_FORMS + ["priv_pem_pw", "path:priv_pem_pw"]
    for (kind, bits), keys in pool.items():
        for k in keys:
            exp = key_hash(k)
            lz = k.lead_zero()
            fl = forms if (k.id % 3 == 0 or lz and k.id % 2 == 0) else [ck.rng.choice(forms) for _ in range(3)]
            for f in fl:
                v = k.form(f, scratch)[0]
                pw = PW if "pw" in f else None
                inp = kdesc([k], [f])
                s.note((k.id, f), cls=f"{k.kind}{k.bits}{'-lz' if lz else ''}")
                res = pyres(RKHT.convert_key, v, pw)
                ok = res[0] == "ok" and safe(lambda: (res[1].n, res[1].e) if k.kind == "rsa" else (res[1].x, res[1].y)) == (k.a, k.b)
                s.expect(ok, inp, "a supply form does not yield the key's public numbers", res[0] if res[0] != "ok" else "other numbers")
                if not ok:
                    continue
                if k.kind == "ecc" and k.bits == 521:
                    h = pyres(RKHT._calc_key_hash, res[1])
                    s.expect(h[0] == "E:spsdk", inp, "P-521 is not refused cleanly by the certificate-block key hash", h[0])
                    continue
                h = cres(RKHT._calc_key_hash, res[1])
                s.expect(h == hx(exp), inp, "per-key hash differs from the documented SHA(raw key material)", h, hx(exp))
            ask(f"keyhash {k.tok()}", lambda a, k=k, exp=exp: s.compare(kdesc([k]), hx(exp), a, "Lean Spec.keyHash differs from the hashlib reference"))
            if k.kind == "ecc":
                # exported key keeps the fixed coordinate width
                from spsdk.crypto.keys import PublicKey
                e = cres(lambda: PublicKey.create(k.pub).export())
                s.expect(e == hx(k.raw_nxp()), kdesc([k]), "PublicKeyEcc.export() is not X||Y at the fixed coordinate width", e)
                ask(f"export {k.tok()}", lambda a, k=k, e=e: s.compare(kdesc([k]), e, a, "model exportKey differs"))
    return s


# ------------------------------------------------------------------------------------------------ stream: HAB SRK table items (phase 3)
def stream_hab_items(ck, ask, pool, scratch, by_type):
    """HAB SRK table entries: every EC key of the pool (P-256 / P-384 / P-521, leading-zero coordinates included) and RSA keys"""
    import hashlib
    import random
    from spsdk.crypto.certificate import Certificate
    from spsdk.image.secret import SrkItem, SrkItemEcc, SrkTable
    from spsdk.utils.crypto.rot import Rot
    rng = random.Random(f"C03/hab_srk_items/{ck.seed}")
    s = ck.stream("hab_srk_items", "HAB SRK table entries for every EC pool key (P-256 / P-384 / P-521 incl. leading-zero X / Y) x CA flag: "
                  "SrkItem.from_certificate(cert).export() = the documented item E1 | BE16(12 + 2 x coordinate size) | 27 | 00 00 00 flag | curve id | 00 | "
                  "BE16(key size in BITS: 521 = 0x0209 for P-521) | X | Y (built here with struct, independent of the model); SrkItemEcc.parse / SrkItem.parse of "
                  "item + junk gives (bits, X, Y, flag) and re-exports the same bytes; a one-item SrkTable survives export -> parse with the same fuses = "
                  "hashlib reference = Rot(srk_table_hab); mixed-curve tables of 2..4 items (always one P-521) survive export -> parse; "
                  "the model (Rkht.habEccExport / habEccParse from the generated field description) is compared on the same items, on SrkItemEcc objects with "
                  "odd key sizes (0, 255, 257, 300, 512, 520, 528, 536, 768 ...) and on items with one mutated header byte / truncated")
    curve_id = {256: 0x4B, 384: 0x4D, 521: 0x4E}
    fam, rev = sorted(by_type["srk_table_hab"])[0]

    def doc_item(k, flag):
        return (bytes([0xE1]) + struct.pack(">H", 12 + 2 * k.cs) + bytes([0x27, 0, 0, 0, flag, curve_id[k.bits], 0]) + struct.pack(">H", k.bits)
                + k.a.to_bytes(k.cs, "big") + k.b.to_bytes(k.cs, "big"))

    def obs(it):
        return f"{it.key_size} {it.x_coordinate} {it.y_coordinate} {it.flag}"

    ecc = [k for (kind, bits), ks in pool.items() if kind.startswith("ecc") for k in ks]
    items521 = []
    for k in ecc:
        lz = k.lead_zero()
        for ca_kind in (("none", "ku_only") if (lz or k.id % 2 == 0 or k.bits == 521) else (rng.choice(["none", "ku_only", "both", "bc_only"]),)):
            flag = 0x80 if ca_kind in ("ku_only", "both") else 0
            inp = kdesc([k], ca=bool(flag), cert=ca_kind)
            s.note((k.id, ca_kind), cls=f"ecc{k.bits}{'-lz' if lz else ''}-flag{flag:02x}")
            r = pyres(lambda: SrkItem.from_certificate(Certificate(k.cert(ca_kind))))
            s.expect(r[0] == "ok" and isinstance(r[1], SrkItemEcc), inp, "SrkItem.from_certificate does not yield an EC SRK item", r[0])
            if r[0] != "ok":
                continue
            item = r[1]
            data = cres(item.export)
            exp = doc_item(k, flag)
            s.expect(data == hx(exp), inp, "HAB EC SRK item differs from the documented layout (key size field in BITS, fixed-width coordinates)", data, hx(exp))
            ask(f"habecc_export {k.bits} {k.a} {k.b} {flag}", lambda a, data=data, inp=inp: s.compare(inp, data, a, "model habEccExport differs from SrkItemEcc.export"))
            if not data.startswith("ok:"):
                continue
            raw = bytes.fromhex(data[3:])
            junk = bytes(rng.getrandbits(8) for _ in range(rng.choice([0, 1, 7, 40])))
            for nm, P in (("SrkItemEcc.parse", SrkItemEcc.parse), ("SrkItem.parse", SrkItem.parse)):
                pr = pyres(P, raw + junk)
                got = canon(pr, obs)
                s.expect(got == f"ok:{k.bits} {k.a} {k.b} {flag}", dict(inp, junk=junk.hex()), f"{nm}(export) does not give key size (bits), X, Y, flag back", got)
                if pr[0] == "ok":
                    s.expect(cres(pr[1].export) == data, inp, f"{nm}(export).export() differs from the exported item", cres(pr[1].export), data)
                    s.expect(safe(lambda: pr[1].size) == len(raw), inp, "size of the parsed item differs from the exported length", safe(lambda: pr[1].size), len(raw))
            ask(f"habecc_parse {(raw + junk).hex()}", lambda a, k=k, flag=flag, inp=inp: s.compare(inp, f"ok:{k.bits} {k.a} {k.b} {flag}", a, "model habEccParse differs on an exported item"))

            def table1():
                tb = SrkTable()
                tb.append(item)
                tb2 = SrkTable.parse(tb.export() + junk)
                return tb.export_fuses(), tb2.export_fuses(), tb2.export() == tb.export(), len(tb2)
            tr = pyres(table1)
            ref = spec_py("srk_table_hab", [k], [bool(flag)])
            s.expect(tr[0] == "ok" and tr[1][0] == ref and tr[1][1] == ref and tr[1][2] and tr[1][3] == 1, inp,
                     "one-item HAB SRK table: fuses differ from SHA-256(SHA-256(item)) or the table does not survive export -> parse", tr if tr[0] != "ok" else (tr[1][0].hex(), tr[1][1].hex(), tr[1][2], tr[1][3]), ref.hex())
            if k.bits == 521 and (k.id % 4 == 0 or lz):
                rr = cres(lambda: Rot(fam, rev, [k.form("cert_der_ku_only" if flag else "cert_der_none", scratch)[0]]).calculate_hash())
                s.expect(rr == hx(ref), dict(inp, family=fam, revision=rev), "Rot(srk_table_hab) on a P-521 key differs from the documented value", rr, hx(ref))
            if k.bits == 521:
                items521.append((k, flag, item))
            # one mutated header byte / truncated item: real parse vs model parse (canonical result or exception class)
            for _ in range(2):
                mut = bytearray(raw)
                if rng.random() < 0.25:
                    mut = mut[:rng.choice([0, 3, 4, 8, 11, 12, 13, len(raw) - 1, 12 + k.cs])]
                else:
                    j = rng.randrange(0, 12)
                    mut[j] = rng.choice([0, 1, 0x4B, 0x4D, 0x4E, 0x80, 0xE1, 0xFF, mut[j] ^ (1 << rng.randrange(8))])
                real = canon(pyres(SrkItemEcc.parse, bytes(mut)), obs)
                ask(f"habecc_parse {bytes(mut).hex() or '-'}", lambda a, real=real, mut=bytes(mut): s.compare({"item": mut.hex()}, real, a, "model habEccParse differs on a mutated / truncated item"))
    # ---- tables of 2..4 items that always contain a P-521 key (mixed curves, RSA)
    others = [k for k in ecc if k.bits != 521] + pool[("rsa", 2048)][:3]
    for _ in range(ck.budget(12, 60)):
        if not items521:
            break
        k5, f5, it5 = rng.choice(items521)
        ks = [(k5, f5)] + [(k, rng.choice([0, 0x80])) for k in rng.sample(others, rng.randrange(1, 4))]
        rng.shuffle(ks)
        inp = kdesc([k for k, _ in ks], ca=[bool(f) for _, f in ks])
        s.note(tuple((k.id, f) for k, f in ks), cls=f"table{len(ks)}")

        def table():
            tb = SrkTable()
            for k, f in ks:
                tb.append(SrkItem.from_certificate(Certificate(k.cert("ku_only" if f else "none"))))
            tb2 = SrkTable.parse(tb.export())
            return tb.export_fuses(), tb2.export_fuses(), tb2.export() == tb.export(), len(tb2)
        tr = pyres(table)
        ref = spec_py("srk_table_hab", [k for k, _ in ks], [bool(f) for _, f in ks])
        s.expect(tr[0] == "ok" and tr[1][0] == ref and tr[1][1] == ref and tr[1][2] and tr[1][3] == len(ks), inp,
                 "HAB SRK table with a P-521 item: fuses differ from the documented value or the table does not survive export -> parse",
                 tr if tr[0] != "ok" else (tr[1][0].hex(), tr[1][1].hex(), tr[1][2], tr[1][3]), ref.hex())
        ask(f"path hab {ktoks([k for k, _ in ks], [bool(f) for _, f in ks])}", lambda a, ref=ref, inp=inp: s.compare(inp, hx(ref), a, "model pathHab differs from the hashlib reference"))
    # ---- SrkItemEcc objects with arbitrary key sizes: the curve-id lookup get_ecc_curve(key_size // 8), coordinate size, refusals
    for ksz in [0, 1, 8, 255, 256, 257, 263, 264, 300, 383, 384, 385, 391, 392, 511, 512, 519, 520, 521, 522, 527, 528, 529, 535, 536, 767, 768, 775, 776, 1024, 65535]:
        for flag in (0, 0x80, 1):
            cs_ = (ksz + 7) // 8
            x = rng.getrandbits(8 * cs_) if cs_ and cs_ < 200 else 0
            y = rng.getrandbits(8 * cs_ - 3) if cs_ and cs_ < 200 else 0
            if flag == 1 and ksz % 5:
                x = 256 ** cs_                        # does not fit
            real = cres(lambda: SrkItemEcc(ksz, x, y, flag).export())
            s.note(("obj", ksz, flag), cls="odd-key-size")
            ask(f"habecc_export {ksz} {x} {y} {flag}", lambda a, real=real, ksz=ksz, x=x, y=y, flag=flag: s.compare({"key_size": ksz, "x": str(x), "y": str(y), "flag": flag}, real, a, "model habEccExport differs on an SrkItemEcc object with an arbitrary key size"))
    return s


# ------------------------------------------------------------------------------------------------ stream: acceptance of arbitrary bytes (phase 3)
def stream_canonical(ck, ask, pool, scratch):
    """what an ACCEPTING parse says about its input: re-export = canonical form of the input (theorems certblock_v1_parse_canonical,
    isk_lite_parse_canonical and their refuting examples)"""
    import random
    from spsdk.crypto.signature_provider import PlainFileSP
    from spsdk.utils.crypto.cert_blocks import CertBlockV1, CertBlockVx, IskCertificateLite
    rng = random.Random(f"C03/parse_canonical/{ck.seed}")
    s = ck.stream("parse_canonical", "certificate block v1 and lite ISK certificate: exported objects with mutated header words (version, flags, build number, "
                  "image length, cert_table_length, certificate count 0), non-zero padding, trailing bytes, other magic / version / constraints / signature "
                  "bytes, truncation.  Whenever the REAL parser accepts the bytes: count = 0 -> export refuses; otherwise export = header with the "
                  "recomputed table length | entries read | RKH table | zero padding to 16 (= the first 32 + cert_table_length + 128 input bytes + padding "
                  "when the length field was consistent), and parsing that canonical form gives the same block; lite: export = magic | version | input[4:136]. "
                  "The model's parse and export are compared on the same bytes")
    r2 = pool[("rsa", 2048)]

    def dump1(p):
        return (f"{p.header.version.split('.')[0]} {p.header.version.split('.')[1]} {p.header.flags} {p.header.build_number} {p.header.image_length} "
                f"{p.alignment} {','.join(c.export().hex() for c in p.certificates) or '-'} {','.join(h.hex() for h in p.rkh) or '-'}")

    u32 = lambda b, o: struct.unpack_from("<I", b, o)[0]
    for _ in range(ck.budget(10, 120)):
        keys = rng.sample(r2, min(rng.choice([1, 2, 3, 4]), len(r2)))
        used = rng.randrange(len(keys))
        cbr = pyres(real_cb1, keys, used, scratch, rng.random() < 0.4)
        ex = pyres(cbr[1].export) if cbr[0] == "ok" else cbr
        if ex[0] != "ok":
            s.expect(False, kdesc(keys, used=used), "CertBlockV1 cannot be built / exported", ex)
            continue
        data = ex[1]
        L0 = u32(data, 28)
        n0 = 32 + L0 + 128
        hdr_rand = data[:4] + struct.pack("<HHIIII", rng.choice([1, 2, 65535]), rng.choice([0, 1, 65535]), 32, rng.getrandbits(32), rng.getrandbits(32),
                                          rng.choice([0, 1, rng.getrandbits(32)])) + data[24:]
        junk = bytes(rng.getrandbits(8) | 1 for _ in range(rng.randrange(1, 40)))
        muts = [("fields", hdr_rand), ("trail", data + junk), ("padding", data[:n0] + junk),
                ("ctl-plus", data[:28] + struct.pack("<I", L0 + 16) + data[32:] + bytes(16)),
                ("ctl-minus", data[:28] + struct.pack("<I", max(L0 - rng.randrange(1, 9), 0)) + data[32:]),
                ("count0", data[:24] + struct.pack("<II", 0, 0) + data[32 + L0:n0] + (junk if rng.random() < 0.5 else b"")),
                ("count0-ctl", data[:24] + struct.pack("<II", 0, L0) + data[32 + L0:n0] + bytes(L0))]
        for name, d in muts:
            pr = pyres(CertBlockV1.parse, d)
            s.note(("v1", tuple(k.id for k in keys), used, name), cls=f"v1-{name}-{'accepted' if pr[0] == 'ok' else 'refused'}")
            real = ("ok:" + sdump(dump1, pr[1])) if pr[0] == "ok" else pr[0]
            inp = {"mutation": name, "data": d}
            ask(f"cb1_parse {hexs(d)}", lambda a, real=real, inp=inp: s.compare(inp, real, a, "CertBlockV1.parse differs from the model on arbitrary bytes"))
            if pr[0] != "ok":
                continue
            cnt, ctl = u32(d, 24), u32(d, 28)
            off = 32
            for _i in range(cnt):
                off += 4 + u32(d, off)
            L = off - 32
            ex2 = pyres(pr[1].export)
            if cnt == 0:
                s.expect(ex2[0] == "E:spsdk", inp, "a parsed certificate block v1 without certificates is exported (documented: parse accepts, export refuses)", ex2[0])
                continue
            n = 32 + L + 128
            canon_b = d[:28] + struct.pack("<I", L) + d[32:n] + bytes(-n % 16)
            s.expect(ex2 == ("ok", canon_b), inp, "re-export of an accepted certificate block v1 is not the canonical form of the parsed bytes "
                     "(header with the table length of the entries read | entries | RKH table | zero padding)", canon(ex2), canon_b.hex())
            if ctl == L:
                s.expect(canon_b[:n] == d[:n], inp, "canonical form differs from the input although the length field was consistent")
            pr2 = pyres(CertBlockV1.parse, canon_b + junk)
            s.expect(pr2[0] == "ok" and sdump(dump1, pr2[1]) == sdump(dump1, pr[1]), inp, "parsing the canonical form does not give the same block", pr2[0])
            if real.startswith("ok:"):
                f = real[3:].split(" ")
                ask(f"cb1_export 1 {f[0]} {f[1]} {f[2]} {f[3]} {f[4]} {f[5]} {f[6]} {f[7]}",
                    lambda a, inp=inp, canon_b=canon_b: s.compare(inp, hx(canon_b), a, "model: export of the parsed block is not the canonical form"))
    ask.flush()
    # ---- certificate block v2.1 without ISK certificate: the size word is not looked at by the parser and recomputed by the export
    from spsdk.utils.crypto.cert_blocks import CertBlockV21
    for _ in range(ck.budget(8, 60)):
        bits = rng.choice([256, 384])
        keys = rng.sample(pool[("ecc", bits)] + pool[("ecc_lz", bits)][:6], rng.choice([1, 2, 3, 4]))
        used = rng.randrange(len(keys))
        ex = pyres(lambda: real_cb21(keys, ["obj_pub"] * len(keys), used, scratch).export())
        if ex[0] != "ok":
            s.expect(False, kdesc(keys, used=used), "CertBlockV21 (CA) cannot be built / exported", ex)
            continue
        data = ex[1]
        junk = bytes(rng.getrandbits(8) for _ in range(rng.randrange(0, 12)))
        for name, d in (("intact", data + junk), ("size-word", data[:8] + struct.pack("<I", rng.choice([0, 12, len(data) + 1, 2 ** 32 - 1])) + data[12:] + junk),
                        ("version", data[:4] + struct.pack("<HH", rng.getrandbits(16), rng.getrandbits(16)) + data[8:])):
            pr = pyres(CertBlockV21.parse, d)
            s.note(("v21", tuple(k.id for k in keys), used, name), cls=f"v21ca-{name}-{'accepted' if pr[0] == 'ok' else 'refused'}")
            inp = {"mutation": name, "data": d}
            s.expect(pr[0] == "ok", inp, "a CA certificate block v2.1 with another size / version word is refused", pr[0])
            if pr[0] != "ok":
                continue
            want = d[:8] + struct.pack("<I", len(data)) + d[12:len(data)]
            ex2 = pyres(pr[1].export)
            s.expect(ex2 == ("ok", want), inp, "re-export of an accepted CA certificate block v2.1 is not magic | version | recomputed size | record bytes", canon(ex2), want.hex())
            s.expect(safe(lambda: pr[1].isk_certificate) is None, inp, "a block whose root key record has the CA flag is parsed with an ISK certificate")
            ask(f"cb21_parse {hexs(d)}", lambda a, inp=inp, d=d: s.compare(inp, True, isinstance(a, str) and a.startswith("ok:") and a.rstrip().endswith("none"), "model: CA block not parsed without ISK certificate"))
    # ---- certificate block v2.1 WITH ISK certificate: size word and non-canonical ISK flags word are accepted, the export is canonical
    for _ in range(ck.budget(8, 60)):
        bits = rng.choice([256, 384])
        keys = rng.sample(pool[("ecc", bits)] + pool[("ecc_lz", bits)][:6], rng.choice([1, 2, 3, 4]))
        used = rng.randrange(len(keys))
        isk = rng.choice(pool[("ecc", rng.choice([256, 384]))])
        ud = rng.choice([None, bytes(rng.getrandbits(8) for _ in range(4 * rng.randrange(1, 12)))])
        ex = pyres(lambda: real_cb21(keys, ["obj_pub"] * len(keys), used, scratch, isk, ud).export())
        if ex[0] != "ok":
            s.expect(False, kdesc(keys, used=used, isk=isk.desc()), "CertBlockV21 (ISK) cannot be built / exported", ex)
            continue
        data = ex[1]
        hl_ = 32 if bits == 256 else 48
        o = 12 + 4 + (hl_ * len(keys) if len(keys) > 1 else 0) + 2 * hl_          # start of the ISK certificate
        junk = bytes(rng.getrandbits(8) for _ in range(rng.randrange(0, 12)))
        for name, d in (("intact", data + junk), ("size-word", data[:8] + struct.pack("<I", rng.choice([0, 12, len(data) + 1, 2 ** 32 - 1])) + data[12:] + junk),
                        ("isk-flags-extra-bit", data[:o + 8] + struct.pack("<I", struct.unpack_from("<I", data, o + 8)[0] | (1 << rng.choice([8, 12, 20, 30]))) + data[o + 12:])):
            pr = pyres(CertBlockV21.parse, d)
            s.note(("v21isk", tuple(k.id for k in keys), used, isk.id, name), cls=f"v21isk-{name}-{'accepted' if pr[0] == 'ok' else 'refused'}")
            inp = {"mutation": name, "data": d}
            s.expect(pr[0] == "ok", inp, "a certificate block v2.1 with ISK certificate and another size word / extra ISK flag bit is refused", pr[0])
            if pr[0] != "ok":
                continue
            ex2 = pyres(pr[1].export)
            s.expect(ex2 == ("ok", data), inp, "re-export of an accepted certificate block v2.1 (ISK) is not its canonical form (recomputed size word, recomputed ISK flags)", canon(ex2), data.hex())
            real = canon(ex2)
            ask(f"cb21_parse {hexs(d)}", lambda a, inp=inp: s.compare(inp, True, isinstance(a, str) and a.startswith("ok:") and not a.rstrip().endswith("none"), "model: block not parsed with its ISK certificate"))
    ask.flush()
    # ---- lite ISK certificate
    p256 = pool[("ecc", 256)] + pool[("ecc_lz", 256)][:6]
    for ci in range(ck.budget(10, 80)):
        isk, signer = rng.choice(p256), rng.choice(pool[("ecc", 256)])
        cbr = pyres(lambda: CertBlockVx(isk_cert=isk.raw_nxp(), signature_provider=PlainFileSP(signer.file("priv_pem", scratch)), self_signed=bool(ci % 2)).export())
        if cbr[0] != "ok":
            s.expect(False, kdesc([signer], isk=isk.desc()), "CertBlockVx cannot be built / exported", cbr)
            continue
        data = cbr[1]
        junk = bytes(rng.getrandbits(8) for _ in range(rng.randrange(0, 20)))
        muts = [("intact", data + junk), ("magic", struct.pack("<HH", rng.getrandbits(16), rng.getrandbits(16)) + data[4:] + junk),
                ("constraints", data[:4] + struct.pack("<I", rng.getrandbits(32)) + data[8:]),
                ("signature", data[:72] + bytes(rng.getrandbits(8) for _ in range(64)) + junk),
                ("zeros-head", bytes(8) + data[8:]), ("trunc", data[:rng.choice([0, 3, 7, 8, 71, 72, 100, 135])])]
        for name, d in muts:
            pr = pyres(IskCertificateLite.parse, d)
            s.note(("lite", isk.id, signer.id, name), cls=f"lite-{name}-{'accepted' if pr[0] == 'ok' else 'refused'}")
            inp = {"mutation": name, "data": d}
            real = canon(pr, lambda i: f"{i.constraints} {hexs(i.isk_public_key_data)} {hexs(i.signature)}")
            # the model takes "the key bytes are a P-256 point" as a parameter (pointOk); evaluate it here with `cryptography` on input[8:72]
            pk = d[8:72]
            def _pt():
                from cryptography.hazmat.primitives.asymmetric import ec
                ec.EllipticCurvePublicNumbers(int.from_bytes(pk[:32], "big"), int.from_bytes(pk[32:], "big"), ec.SECP256R1()).public_key()
                return True
            point_ok = len(pk) == 64 and pyres(_pt)[0] == "ok"
            if point_ok:
                ask(f"lite_parse {hexs(d)}", lambda a, real=real, inp=inp: s.compare(inp, real, a, "IskCertificateLite.parse differs from the model on arbitrary bytes"))
            else:
                s.expect(pr[0] != "ok", inp, "a lite ISK certificate whose key bytes are not a P-256 point is accepted", real)
            if pr[0] != "ok":
                continue
            ex2 = pyres(pr[1].export)
            if len(d) >= 136:
                want = struct.pack("<HH", 0x4D43, 1) + d[4:136]
                s.expect(ex2 == ("ok", want), inp, "re-export of an accepted lite ISK certificate is not magic | version | input[4:136]", canon(ex2), want.hex())
            else:
                s.expect(ex2[0] != "ok", inp, "a lite ISK certificate parsed from fewer than 136 bytes is exported", canon(ex2))
    return s


# ------------------------------------------------------------------------------------------------ stream: set_rkh call sequences
def stream_opseq(ck, ask, pool, scratch, by_type):
    """RKHTv1.set_rkh / CertBlockV1.set_root_key_hash in arbitrary call orders: the table is the function slot -> last hash written"""
    from spsdk.crypto.certificate import Certificate
    from spsdk.crypto.keys import PublicKey
    from spsdk.utils.crypto.cert_blocks import CertBlockV1
    from spsdk.utils.crypto.rkht import RKHTv1
    from spsdk.utils.crypto.rot import Rot
    import random
    rng = random.Random(f"C03/rkh_call_sequences/{ck.seed}")      # own generator: a replay reaches the same call sequences
    s = ck.stream("rkh_call_sequences", "random sequences of RKHTv1.set_rkh / CertBlockV1.set_root_key_hash calls over slots 0..3 (permutations, "
                  "descending, signing slot first, gaps, repeats, overwrites; on an empty, a from_keys-built and a parsed table): final table = "
                  "slot -> last hash written (zeros for never-written slots below the highest), rkth = SHA-256 of the 4-slot table = "
                  "RKHTv1.from_keys = Rot = hashlib reference for the same ordered key list, independent of the call order; "
                  "model: Rkht.setSeq (theorems set_rkh_last_write_wins / set_rkh_order_independent / set_root_key_hash_any_order)")
    rsa = [k for k in pool[("rsa", 2048)] + pool.get(("rsa_e", 2048), []) if k.b < 2 ** 24][:8] + pool[("rsa", 4096)][:1]
    Z = bytes(32)
    fam1 = by_type["cert_block_1"]

    def apply_ref(table, ops):
        t = list(table)
        for i, h in ops:
            t.extend([Z] * (i + 1 - len(t)))
            t[i] = h
        return t

    def rkth_ref(table):
        return H("sha256", b"".join(x if x else Z for x in table) + Z * (4 - len(table)))

    def order_for(n, used, kind):
        idx = list(range(n))
        if kind == "ascending":
            return idx
        if kind == "descending":
            return idx[::-1]
        if kind == "signing_first":
            return [used] + [i for i in idx if i != used]
        if kind == "signing_last":
            return [i for i in idx if i != used] + [used]
        rng.shuffle(idx)
        return idx

    # ---- (A) the table class alone
    for ci in range(ck.budget(120, 500)):
        n0 = rng.choice([0, 0, 1, 2, 3, 4])
        init_kind = rng.choice(["list", "from_keys", "parse"]) if n0 else "list"
        keys0 = rng.sample(rsa, n0)
        hashes0 = [key_hash(k) for k in keys0]
        nops = rng.choice([1, 2, 3, 4, 4, 5, 6, 8])
        pattern = rng.choice(["random", "random", "permutation", "descending", "rewrite_same"])
        if pattern == "permutation":
            slots = rng.sample(range(4), 4)[:max(nops, 2)]
        elif pattern == "descending":
            top = rng.randrange(1, 4)
            slots = list(range(top, -1, -1))
        elif pattern == "rewrite_same" and n0:
            slots = [rng.randrange(n0) for _ in range(nops)]
        else:
            slots = [rng.randrange(4) for _ in range(nops)]
        ops = []
        for sl in slots:
            if pattern == "rewrite_same" and n0:
                hv = hashes0[sl]
            else:
                hv = key_hash(rng.choice(rsa)) if rng.random() < 0.7 else bytes(rng.getrandbits(8) for _ in range(32))
            ops.append((sl, hv))
        inp = {"table": init_kind, "keys": [k.desc() for k in keys0], "calls": [[i, h.hex()] for i, h in ops], "pattern": pattern}
        s.note((ci, init_kind, n0, tuple(slots), pattern), cls=f"{init_kind}/{pattern}")

        def build():
            if init_kind == "from_keys":
                return RKHTv1.from_keys([PublicKey.create(k.pub) for k in keys0])
            if init_kind == "parse":
                return RKHTv1.parse(RKHTv1(list(hashes0)).export())
            return RKHTv1(list(hashes0))
        tb = pyres(build)
        if tb[0] != "ok":
            s.expect(False, inp, "an RKHTv1 cannot be built from valid key hashes", tb[0])
            continue
        tab = tb[1]
        before = safe(lambda: [bytes(x) for x in tab.rkh_list], None)
        if before is None:
            s.expect(False, inp, "RKHTv1.rkh_list is not readable")
            continue
        exp_before = hashes0 + ([Z] * (4 - n0) if init_kind == "parse" else [])
        s.expect(before == exp_before, inp, "the table does not hold the key hashes it was built from", [x.hex()[:8] for x in before])
        res = "ok"
        for i, hv in ops:
            r = pyres(tab.set_rkh, i, hv)
            if r[0] != "ok":
                res = r[0]
                break
        expect = apply_ref(before, ops)
        if res != "ok":
            s.expect(False, inp, "set_rkh refuses a 32-byte hash for a slot 0..3", res)
            ask(f"setseq {','.join(x.hex() for x in before) or '-'} {','.join(f'{i}:{h.hex()}' for i, h in ops)}",
                lambda a, res=res, inp=inp: s.compare(inp, res, a, "model setSeq differs (refusal)"))
            continue
        after = safe(lambda: [bytes(x) for x in tab.rkh_list], None)
        rk = cres(tab.rkth)
        s.expect(after == expect, inp, "after a sequence of set_rkh calls the table is not 'slot -> last hash written' (a write to one slot "
                 "changed or dropped other slots)", [x.hex()[:8] for x in (after or [])], [x.hex()[:8] for x in expect])
        s.expect(rk == hx(rkth_ref(expect)), inp, "rkth after a sequence of set_rkh calls is not SHA-256 of the 4-slot table of last writes", rk, hx(rkth_ref(expect)))
        dump = ("ok:" + (",".join(x.hex() for x in after) or "-") + " " + norm_ok(rk)) if after is not None else "unreadable"
        ask(f"setseq {','.join(x.hex() for x in before) or '-'} {','.join(f'{i}:{h.hex()}' for i, h in ops)}",
            lambda a, dump=dump, inp=inp: s.compare(inp, dump, a, "model setSeq differs from the real table after the call sequence"))

    # ---- (B) the certificate block: root certificate of the signing key + set_root_key_hash in every kind of order
    kinds = ["ascending", "descending", "signing_first", "signing_last", "random", "random"]
    for ci in range(ck.budget(60, 240)):
        n = rng.choice([1, 2, 3, 4, 4, 4])
        keys = rng.sample(rsa, n)
        used = rng.randrange(n)
        kind = kinds[ci % len(kinds)]
        order = order_for(n, used, kind)
        extra = []
        if rng.random() < 0.4 and n > 1:                      # an overwrite on the way: a wrong hash first, the right one later
            j = rng.randrange(n)
            order = [j] + order
            extra = [0]
        as_bytes = rng.random() < 0.3
        inp = kdesc(keys, used=used, call_order=order, first_call_is_overwritten=bool(extra), hash_as_bytes=as_bytes)
        s.note((ci, n, used, tuple(order), as_bytes), cls=f"certblock/{kind}")
        exp_tab = [key_hash(k) for k in keys]
        exp_rkth = spec_py("cert_block_1", keys)

        def build_cb():
            cb = CertBlockV1(build_number=1)
            certs = [Certificate(k.cert("none")) for k in keys]
            cb.add_certificate(certs[used])
            for pos, i in enumerate(order):
                if pos in extra:
                    cb.set_root_key_hash(i, bytes([0xA5]) * 32)
                elif as_bytes:
                    cb.set_root_key_hash(i, exp_tab[i])
                else:
                    cb.set_root_key_hash(i, certs[i])
            return cb, certs
        cbr = pyres(build_cb)
        if cbr[0] != "ok":
            s.expect(False, inp, "CertBlockV1 cannot be built by set_root_key_hash calls in this order", cbr[0])
            continue
        cb, certs = cbr[1]
        tab = safe(lambda: [bytes(x) for x in cb.rkh], None)
        s.expect(tab == exp_tab, inp, "CertBlockV1 root key hash table depends on the order of the set_root_key_hash calls",
                 [x.hex()[:8] for x in (tab or [])], [x.hex()[:8] for x in exp_tab])
        r1 = cres(lambda: cb.rkth)
        s.expect(r1 == hx(exp_rkth), inp, "CertBlockV1.rkth depends on the order of the set_root_key_hash calls / on which key signs", r1, hx(exp_rkth))
        r2 = cres(lambda: RKHTv1.from_keys([PublicKey.create(k.pub) for k in keys]).rkth())
        s.expect(r1 == r2, inp, "CertBlockV1.rkth differs from RKHTv1.from_keys for the same ordered key list", r1, r2)
        if ci % 4 == 0:
            fam, rev = fam1[ci % len(fam1)]
            r3 = cres(lambda: Rot(fam, rev, certs).calculate_hash())
            s.expect(r1 == r3, dict(inp, family=fam), "CertBlockV1.rkth differs from Rot.calculate_hash for the same ordered key list", r1, r3)
        s.expect(safe(lambda: cb.rkh_index) == used, inp, "rkh_index does not point at the signing root key", safe(lambda: cb.rkh_index), used)
        ex = pyres(cb.export)
        s.expect(ex[0] == "ok", inp, "CertBlockV1.export fails for a block built by set_root_key_hash calls in this order", ex[0])
        ask(f"setseq - {','.join(f'{i}:' + ((bytes([0xA5]) * 32) if pos in extra else exp_tab[i]).hex() for pos, i in enumerate(order))}",
            lambda a, tab=tab, r1=r1, inp=inp: s.compare(inp, "ok:" + ",".join(x.hex() for x in (tab or [])) + " " + r1, a,
                                                         "model setSeq differs from the certificate block's table / rkth"))
        if ex[0] != "ok":
            continue
        pr = pyres(CertBlockV1.parse, ex[1])
        if pr[0] != "ok":
            s.expect(False, inp, "CertBlockV1.parse(export()) fails", pr[0])
            continue
        p = pr[1]
        s.expect(cres(lambda: p.rkth) == hx(exp_rkth), inp, "RKTH changes over export -> parse", cres(lambda: p.rkth))
        # on the parsed block: re-writing a slot with the same hash changes nothing; writing another hash touches just that slot
        j = rng.randrange(n)
        before = safe(lambda: [bytes(x) for x in p.rkh], None)
        w = pyres(p.set_root_key_hash, j, exp_tab[j])
        after = safe(lambda: [bytes(x) for x in p.rkh], None)
        inp_j = dict(inp, parsed_then_rewrite_slot=j)
        s.expect(w[0] == "ok" and before is not None and after == before and cres(lambda: p.rkth) == hx(exp_rkth) and pyres(p.export) == ex, inp_j,
                 "re-writing one slot of a parsed block with the same hash changes the table / RKTH / export", w[0])
        j2 = rng.choice([i for i in range(4) if i != used])
        other = bytes(rng.getrandbits(8) for _ in range(32))
        w2 = pyres(p.set_root_key_hash, j2, other)
        after2 = safe(lambda: [bytes(x) for x in p.rkh], None)
        exp2 = apply_ref(after or [], [(j2, other)])
        s.expect(w2[0] == "ok" and after2 == exp2 and cres(lambda: p.rkth) == hx(rkth_ref(exp2)), dict(inp, parsed_then_write_slot=j2, value=other.hex()),
                 "writing one slot of a parsed block changes other slots", [x.hex()[:8] for x in (after2 or [])], [x.hex()[:8] for x in exp2])
        if len(ask.lines) > 300:
            ask.flush()
    ask.flush()


# ------------------------------------------------------------------------------------------------ real tool paths
def real_cb1(keys, used, scratch, chain=False):
    """CertBlockV1 as from_config builds it: certificate (chain) of the used root + set_root_key_hash for every root"""
    from spsdk.crypto.certificate import Certificate
    from spsdk.utils.crypto.cert_blocks import CertBlockV1
    cb = CertBlockV1(build_number=3)
    chain = chain and len(keys) > 1
    if chain:
        root = keys[used].cert("both")
        leaf_key = keys[(used + 1) % len(keys)]
        cb.add_certificate(Certificate(root))
        cb.add_certificate(Certificate(leaf_key.cert("none", issuer=keys[used])))
        certs = [Certificate(k.cert("both" if i == used else "none")) for i, k in enumerate(keys)]
    else:
        certs = [Certificate(k.cert("none")) for k in keys]
        cb.add_certificate(certs[used])
    for i, c in enumerate(certs):
        cb.set_root_key_hash(i, c)
    return cb


def real_cb21(keys, forms, used, scratch, isk=None, user_data=None, family=None, constraints=0):
    from spsdk.crypto.signature_provider import PlainFileSP
    from spsdk.utils.crypto.cert_blocks import CertBlockV21
    roots = [k.form(f, scratch)[0] for k, f in zip(keys, forms)]
    kw = {}
    if isk is not None:
        kw = dict(signature_provider=PlainFileSP(keys[used].file("priv_pem", scratch)), isk_cert=isk.raw_nxp() if isk.id % 2 else isk.form("pub_pem", scratch)[0],
                  user_data=user_data, family=family, constraints=constraints)
    cb = CertBlockV21(root_certs=roots, ca_flag=isk is None, used_root_cert=used, **kw)
    cb.calculate()
    return cb


def real_dat(keys, used, scratch, family):
    from spsdk.dat.debug_credential import DebugCredentialCertificate
    cfg = {"family": family, "revision": "latest", "rot_meta": [k.file("pub_pem", scratch) for k in keys], "rot_id": used,
           "rotk": keys[used].file("priv_pem", scratch), "dck": keys[0].file("pub_pem", scratch), "uuid": "00" * 16, "cc_socu": 0x3FF,
           "cc_vu": 0, "cc_beacon": 0}
    return DebugCredentialCertificate.create_from_yaml_config(cfg).calculate_hash()


def stream_paths(ck, ask, pool, scratch, by_type, only_sets=None, name="rot_paths"):
    from spsdk.crypto.keys import PublicKey
    from spsdk.dat.debug_credential import RotMetaEcc, RotMetaRSA
    from spsdk.image.ahab.ahab_srk import SRKRecord, SRKRecordV2, SRKTable, SRKTableV2
    from spsdk.image.secret import SrkItem, SrkTable
    from spsdk.crypto.certificate import Certificate
    from spsdk.pfr.pfr import CMPA
    from spsdk.utils.crypto.cert_blocks import CertBlockV1, CertBlockV21
    from spsdk.utils.crypto.rkht import RKHT, RKHTv1, RKHTv21
    from spsdk.utils.crypto.rot import Rot
    from spsdk.utils.database import DatabaseManager, get_families
    rng = ck.rng
    s = ck.stream(name, "key sets of 1..4 keys (RSA-2048/3072/4096, P-256/384/521; all orders for <= 3 keys, sampled orders for 4; every used "
                  "index; each key in a random supply form) through every tool path: RKHTv1/v21.from_keys, CertBlockV1 (single certificate and chain), "
                  "CertBlockV21 (+ binary export->parse), Rot.calculate_hash for families of every rot_type, CMPA.export(keys=) ROTKH register, "
                  "DebugCredentialCertificate.calculate_hash / RotMeta*, AHAB SRKTable / SRKTableV2, HAB SrkTable.  Each output is compared with the "
                  "documented construction (hashlib reference = compiled Lean Spec.rotkh), with the modelled path, and with the other paths; "
                  "non-trivial = distinct (key set order, forms, used index, path)")
    pfr_fams = {}
    for fam in get_families(DatabaseManager.PFR):
        r = pyres(lambda: CMPA(fam).registers.find_reg("ROTKH"))
        if r[0] == "ok":
            rt = [t for t, fs in by_type.items() if any(f == fam for f, _ in fs)]
            if rt:
                pfr_fams.setdefault(rt[0], []).append(fam)
    ck.extra["pfr_families_with_rotkh"] = {k: len(v) for k, v in pfr_fams.items()}
    dat_rsa_fams = [f for f in ("lpc55s69", "lpc55s16", "lpc55s06", "mimxrt595s", "mimxrt685s") if any(f == x for x, _ in by_type["cert_block_1"])]
    dat_ecc_fams = [f for f in ("lpc55s36", "mcxn947", "kw45b41z8", "rw612", "mcxn236") if any(f == x for x, _ in by_type["cert_block_21"])]

    def check(inp, path, real, rot_type, keys, cas, model_line, in_domain=True, width=None):
        """one path evaluation: oracle vs spec, correspondence vs model"""
        s.note((tuple(k.id for k in keys), path, inp.get("forms") and tuple(inp["forms"]), inp.get("used")),
               cls=f"{path}:{keys[0].kind}{keys[0].bits}x{len(keys)}")
        if in_domain:
            exp = spec_py(rot_type, keys, cas)
            if width:
                exp = exp.ljust(width // 8, b"\0")
            s.expect(real == hx(exp), dict(inp, path=path), f"{path}: RoT value differs from the documented construction", real, hx(exp))
        if model_line:
            ask(model_line, lambda a, real=real, inp=inp, path=path: s.compare(dict(inp, path=path), norm_ok(real), a, f"{path}: model path differs"))

    def key_sets():
        """key tuples: per pool and size one base selection (several in the thorough tier) in ALL orders for <= 3 keys and sampled
        orders for 4; every leading-zero key in at least one set (first position or not); mixed RSA sizes (cb1 / HAB domain)"""
        out = []
        for (kind, bits) in (("rsa", 2048), ("rsa", 4096), ("rsa", 3072), ("ecc", 256), ("ecc", 384), ("ecc", 521)):
            ks = pool.get((kind, bits), [])
            for _ in range(ck.budget(1, 10)):
                for n in (1, 2, 3, 4):
                    if len(ks) < n:
                        continue
                    perms = list(itertools.permutations(rng.sample(ks, n)))
                    if n == 4:
                        perms = rng.sample(perms, ck.budget(2, 6))
                    out += perms
        for bits in (256, 384, 521):
            for k in pool[("ecc_lz", bits)] + (pool[("ecc_lz2", 521)] if bits == 521 else []):
                n = rng.choice([1, 2, 3, 4, 4])
                ks = [k] + rng.sample(pool[("ecc", bits)], n - 1)
                rng.shuffle(ks)
                out.append(tuple(ks))
        for bits in (256,):
            for k in pool.get(("ecc_lz2", bits), []):
                out.append((k,) + tuple(rng.sample(pool[("ecc", bits)], rng.choice([0, 1, 3]))))
        mixed = [rng.choice(pool[("rsa", 2048)]), rng.choice(pool[("rsa", 4096)] or pool[("rsa", 2048)])] + ([rng.choice(pool[("rsa", 3072)])] if pool[("rsa", 3072)] else [])
        out += list(itertools.permutations(mixed))
        # other public exponents: each alone, mixed with 65537 keys, four equal boundary exponents (AHAB domain)
        for k in pool[("rsa_e", 2048)]:
            out.append((k,))
            ks = [k] + rng.sample(pool[("rsa", 2048)], rng.choice([1, 2, 3]))
            rng.shuffle(ks)
            out.append(tuple(ks))
        out.append(tuple(pool[("rsa_e_same", 2048)]))
        out.append(tuple(rng.sample(pool[("rsa_e", 2048)], 4)))
        return out

    sets = only_sets if only_sets is not None else key_sets()
    ck.extra["key_sets" if only_sets is None else "replayed_key_sets"] = len(sets)
    for keys in sets:
        keys = list(keys)
        n = len(keys)
        kind = keys[0].kind
        bits = keys[0].bits
        uniform = all((k.kind, k.bits) == (kind, bits) for k in keys)
        forms = [rng.choice(NOCA_FORMS) for _ in keys]
        vals = [k.form(f, scratch)[0] for k, f in zip(keys, forms)]
        no_ca = [False] * n
        toks = ktoks(keys)
        agree = {}
        if kind == "rsa":
            inp = kdesc(keys, forms)
            r = cres(lambda: RKHTv1.from_keys(vals).rkth())
            check(inp, "RKHTv1.from_keys", r, "cert_block_1", keys, no_ca, f"path rkht1 {toks}")
            agree["rkht"] = r
            for used in range(n):
                inp_u = kdesc(keys, used=used)
                chain = rng.random() < 0.3
                cbr = pyres(real_cb1, keys, used, scratch, chain)
                if cbr[0] != "ok":
                    s.expect(False, inp_u, "CertBlockV1 cannot be built from valid certificates", cbr)
                    continue
                cb = cbr[1]
                r1 = cres(lambda: cb.rkth)
                check(inp_u, "CertBlockV1.rkth" + ("(chain)" if chain else ""), r1, "cert_block_1", keys, no_ca, f"path cb1 {toks} {used}")
                s.expect(r1 == r, inp_u, "CertBlockV1.rkth differs from RKHTv1.from_keys (depends on the used index / chain?)", r1, r)
                s.expect(safe(lambda: cb.rkh_index) == used, inp_u, "rkh_index does not point at the used root certificate", safe(lambda: cb.rkh_index), used)
                fz = pyres(lambda: cb.rkth_fuses)
                expf = [int.from_bytes(spec_py("cert_block_1", keys)[i:i + 4], "little") for i in range(0, 32, 4)]
                s.expect(fz == ("ok", expf), inp_u, "rkth_fuses are not the little-endian words of the RKTH", fz)
                ask(f"fuses {spec_py('cert_block_1', keys).hex()}",
                    lambda a, fz=fz, inp_u=inp_u: s.compare(inp_u, "ok:" + ",".join(map(str, fz[1])) if fz[0] == "ok" else fz[0], a, "model rkthFuses differs"))
                # export -> parse -> export identity, rkth preserved, image_length preserved
                il = rng.choice([1, 0x1234, 0xFFFFFFFF, rng.getrandbits(32) or 1])
                pyres(setattr, cb, "image_length", il)
                ex = pyres(cb.export)
                if ex[0] != "ok":
                    s.expect(False, inp_u, "CertBlockV1.export fails for a valid block", ex)
                    continue
                pr = pyres(CertBlockV1.parse, ex[1])
                okp = pr[0] == "ok"
                s.expect(okp, inp_u, "CertBlockV1.parse(export()) fails", pr)
                if okp:
                    p = pr[1]
                    s.expect(safe(lambda: p.image_length) == il, dict(inp_u, image_length=il),
                             "CertBlockV1.parse does not restore image_length", safe(lambda: p.image_length), il)
                    s.expect(cres(lambda: p.rkth) == r1, inp_u, "RKTH changes over export -> parse", cres(lambda: p.rkth), r1)
                    e2 = pyres(p.export)
                    s.expect(e2 == ex, dict(inp_u, image_length=il), "CertBlockV1: export(parse(export(x))) differs from export(x)",
                             e2[1].hex()[:80] if e2[0] == "ok" else e2, ex[1].hex()[:80])
                    s.expect(safe(lambda: (p.rkh_index, len(p.certificates))) == (used, len(cb.certificates)), inp_u, "parsed block lost the certificate chain / used index")
            # Rot dispatch, one family per rot type able to take RSA
            fam, rev = rng.choice(by_type["cert_block_1"])
            rr = cres(lambda: Rot(fam, rev, vals).calculate_hash())
            check(dict(inp, family=fam, revision=rev), "Rot(cert_block_1)", rr, "cert_block_1", keys, no_ca, f"path rot cert_block_1 {toks}")
            agree["rot"] = rr
            if pfr_fams.get("cert_block_1"):
                fam = rng.choice(pfr_fams["cert_block_1"])
                pf = pyres(lambda: _pfr_rotkh(CMPA, fam, [PublicKey.create(k.pub) for k in keys]))
                if pf[0] == "ok":
                    w, val = pf[1]
                    check(dict(inp, family=fam), "CMPA.export(keys)", hx(val), "cert_block_1", keys, no_ca, f"path pfr cert_block_1 {w} {toks}", width=w)
                    agree["pfr"] = hx(val[:32])
                else:
                    s.expect(False, dict(inp, family=fam), "CMPA.export(keys=...) fails", pf)
            # debug credential
            files = {"rot_meta": [k.file(rng.choice(["pub_pem", "cert_der_none", "priv_pem"]), scratch) for k in keys]}
            rd = cres(lambda: RotMetaRSA.load_from_config(files).calculate_hash())
            # RotMetaRSA pads the exponent to 3 bytes: it is the cert-block-v1 value exactly for 3-byte exponents (theorem hypothesis)
            e3 = all((k.b.bit_length() + 7) // 8 == 3 for k in keys)
            check(inp, "RotMetaRSA", rd, "cert_block_1", keys, no_ca, f"path datrsa {toks}", in_domain=e3)
            if e3:
                agree["dat"] = rd
            if uniform and bits in (2048, 4096) and dat_rsa_fams and e3:
                used = rng.randrange(n)
                fam = rng.choice(dat_rsa_fams)
                rdc = cres(real_dat, keys, used, scratch, fam)
                check(kdesc(keys, used=used, family=fam), "DebugCredentialCertificate.calculate_hash", rdc, "cert_block_1", keys, no_ca, None)
                agree["dc"] = rdc
        else:
            v21_ok = uniform and bits in (256, 384)
            inp = kdesc(keys, forms)
            r = cres(lambda: RKHTv21.from_keys(vals).rkth())
            check(inp, "RKHTv21.from_keys", r, "cert_block_21", keys, no_ca, f"path rkht21 {toks}", in_domain=v21_ok)
            agree["rkht"] = r
            if v21_ok:
                for used in range(n):
                    ca = rng.random() < 0.5
                    isk = None if ca else rng.choice(pool[("ecc", rng.choice([256, 384]))])
                    ud = None if isk is None else rng.choice([None, bytes(rng.getrandbits(8) for _ in range(rng.choice([4, 16, 96])))])
                    f21 = [rng.choice(["pub_pem", "pub_der", "nxp", "cert_der_none", "cert_der_both", "priv_pem", "obj_pub"]) for _ in keys]
                    inp_u = kdesc(keys, f21, used=used, isk=None if isk is None else isk.desc(), user_data=None if ud is None else ud.hex())
                    cbr = pyres(real_cb21, keys, f21, used, scratch, isk, ud)
                    if cbr[0] != "ok":
                        s.expect(False, inp_u, "CertBlockV21 cannot be built from valid keys", cbr)
                        continue
                    cb = cbr[1]
                    r1 = cres(lambda: cb.rkth)
                    check(inp_u, "CertBlockV21.rkth", r1, "cert_block_21", keys, no_ca, f"path cb21 {toks} {used} {int(ca)}")
                    s.expect(r1 == r, inp_u, "CertBlockV21.rkth differs from RKHTv21.from_keys (depends on used index / ISK?)", r1, r)
                    ex = pyres(cb.export)
                    if ex[0] != "ok":
                        s.expect(False, inp_u, "CertBlockV21.export fails for a valid block", ex)
                        continue
                    pr = pyres(CertBlockV21.parse, ex[1] + bytes(rng.choice([0, 0, 7])))
                    s.expect(pr[0] == "ok", inp_u, "CertBlockV21.parse(export()) fails", pr)
                    if pr[0] == "ok":
                        p = pr[1]
                        r2 = cres(lambda: p.rkth)
                        check(inp_u, "CertBlockV21.parse(export).rkth", r2, "cert_block_21", keys, no_ca, None)
                        e2 = pyres(p.export)
                        s.expect(e2 == ex, inp_u, "CertBlockV21: export(parse(export(x))) differs from export(x)",
                                 e2[1].hex()[:80] if e2[0] == "ok" else e2, ex[1].hex()[:80])
                        got = safe(lambda: (bool(p.root_key_record.ca_flag), p.root_key_record.used_root_cert, p.root_key_record.number_of_certificates))
                        s.expect(got == (ca, used, n), inp_u, "root key record flags (CA, used index, count) not recovered by parse", got, (ca, used, n))
                fam, rev = rng.choice(by_type["cert_block_21"])
                rr = cres(lambda: Rot(fam, rev, vals).calculate_hash())
                check(dict(inp, family=fam, revision=rev), "Rot(cert_block_21)", rr, "cert_block_21", keys, no_ca, f"path rot cert_block_21 {toks}")
                agree["rot"] = rr
                if pfr_fams.get("cert_block_21"):
                    fam = rng.choice(pfr_fams["cert_block_21"])
                    pf = pyres(lambda: _pfr_rotkh(CMPA, fam, [PublicKey.create(k.pub) for k in keys]))
                    if pf[0] == "ok":
                        w, val = pf[1]
                        check(dict(inp, family=fam), "CMPA.export(keys)", hx(val), "cert_block_21", keys, no_ca, f"path pfr cert_block_21 {w} {toks}", width=w)
                        agree["pfr"] = hx(val[:CURVES[bits][1]])
                    else:
                        s.expect(False, dict(inp, family=fam), "CMPA.export(keys=...) fails", pf)
            if uniform:
                used = rng.randrange(n)
                if dat_ecc_fams:
                    fam = rng.choice(dat_ecc_fams)
                    rdc = cres(real_dat, keys, used, scratch, fam)
                    # the debug-credential CTRK hash is the cert-block-2.1 construction for every curve (P-521: SHA-512)
                    s.note((tuple(k.id for k in keys), "dc", used), cls=f"DebugCredentialCertificate:ecc{bits}x{n}")
                    exp = spec_py("cert_block_21", keys)
                    s.expect(rdc == hx(exp), kdesc(keys, used=used, family=fam), "DebugCredentialCertificate.calculate_hash differs from the documented CTRK hash", rdc, hx(exp))
                    ask(f"path datecc {toks} {used}", lambda a, rdc=rdc, keys=keys, used=used: s.compare(kdesc(keys, used=used), rdc, a, "model pathDatEcc differs"))
                    if v21_ok:
                        agree["dc"] = rdc
        # ---- SRK tables: AHAB (exactly four keys of one kind), HAB (certificates)
        if n == 4:
            for rt, cls_, rec in (("srk_table_ahab", SRKTable, SRKRecord), ("srk_table_ahab_v2", SRKTableV2, SRKRecordV2)):
                ca_all = rng.random() < 0.4
                fa = [rng.choice(CA_FORMS[:5] if ca_all else NOCA_FORMS) for _ in keys]
                va = [k.form(f, scratch) for k, f in zip(keys, fa)]
                cas = [v[1] for v in va]
                fam, rev = rng.choice(by_type[rt])
                inp_a = kdesc(keys, fa, family=fam, revision=rev, ca=cas)
                rr = cres(lambda: Rot(fam, rev, [v[0] for v in va]).calculate_hash())
                check(inp_a, f"Rot({rt})", rr, rt, keys, cas, f"path rot {rt} {ktoks(keys, cas)}", in_domain=uniform and len(set(cas)) == 1)
                # the table class directly, from public key objects (no CA attribute)

                def direct():
                    recs = [rec.create_from_key(PublicKey.create(k.pub), srk_id=i) if rec is SRKRecordV2 else rec.create_from_key(PublicKey.create(k.pub))
                            for i, k in enumerate(keys)]
                    t = cls_(recs)
                    t.update_fields()
                    return t.compute_srk_hash(), t.export()
                dr = pyres(direct)
                if dr[0] == "ok" and uniform:
                    check(kdesc(keys), f"{cls_.__name__}.compute_srk_hash", hx(dr[1][0]), rt, keys, no_ca, f"path {'ahab2' if rec is SRKRecordV2 else 'ahab'} {toks}")
                    ask(f"table {'ahab2' if rec is SRKRecordV2 else 'ahab'} {toks}",
                        lambda a, dr=dr, keys=keys: s.compare(kdesc(keys), hx(dr[1][1]), a, "Spec AHAB SRK table bytes differ from SRKTable.export()"))
                elif uniform:
                    s.expect(False, kdesc(keys), f"{cls_.__name__} cannot be built from four keys of one kind", dr)
        fh = [rng.choice(CERT_FORMS) for _ in keys]
        vh = [k.form(f, scratch) for k, f in zip(keys, fh)]
        cas = [v[2] for v in vh]
        fam, rev = rng.choice(by_type["srk_table_hab"])
        rr = cres(lambda: Rot(fam, rev, [v[0] for v in vh]).calculate_hash())
        check(kdesc(keys, fh, family=fam, revision=rev, ca=cas), "Rot(srk_table_hab)", rr, "srk_table_hab", keys, cas, f"path rot srk_table_hab {ktoks(keys, cas)}")

        def hab_direct():
            t = SrkTable()
            for k in keys:
                t.append(SrkItem.from_certificate(Certificate(k.cert("none"))))
            return t.export_fuses(), t.export()
        dr = pyres(hab_direct)
        if dr[0] == "ok":
            check(kdesc(keys), "SrkTable.export_fuses", hx(dr[1][0]), "srk_table_hab", keys, no_ca, f"path hab {toks}")
            ask(f"table hab {toks}", lambda a, dr=dr, keys=keys: s.compare(kdesc(keys), hx(dr[1][1]), a, "Spec HAB SRK table bytes differ from SrkTable.export()"))
        else:
            s.expect(False, kdesc(keys), "HAB SrkTable cannot be built from certificates", dr)
        # ---- all paths of one key set agree
        vals_ = {v for v in agree.values()}
        s.expect(len(vals_) <= 1, kdesc(keys, forms), "tool paths disagree on the RoT value of one key set", agree)
        # Lean Spec = hashlib reference for every applicable type
        for rt in ("cert_block_1", "cert_block_21", "srk_table_ahab", "srk_table_ahab_v2", "srk_table_hab"):
            if keys_ok(rt, keys):
                exp = hx(spec_py(rt, keys))
                ask(f"spec {rt} {toks}", lambda a, exp=exp, keys=keys, rt=rt: s.compare(kdesc(keys, rot_type=rt), exp, a, "compiled Lean Spec.rotkh differs from the hashlib reference"))
            ask(f"keysok {rt} {toks}", lambda a, keys=keys, rt=rt: s.compare(kdesc(keys, rot_type=rt), "true" if keys_ok(rt, keys) else "false", a, "Spec.keysOK differs from the harness' domain predicate"))
        if len(ask.lines) > 400:
            ask.flush()
    ask.flush()


def _point_ok(model_ans, real):
    """the model's `pointOk` parameter, evaluated with `cryptography`: when the real code refuses a block the model (pointOk := true)
    accepts, look at the ISK public key bytes the model extracted - if they are not a point of P-256 / P-384 the model with the
    true `pointOk` refuses with the same class (its point check is the last step of IskCertificate.parse)"""
    if real != "E:spsdk" or not model_ans.startswith("ok:") or model_ans.endswith("| none"):
        return model_ans
    from cryptography.hazmat.primitives.asymmetric import ec
    try:
        pk_hex = model_ans.rsplit("|", 1)[1].split()[3]
        pk = b"" if pk_hex == "-" else bytes.fromhex(pk_hex)
    except (IndexError, ValueError):
        return model_ans            # not the shape of a cb21_parse_obs answer: stays a disagreement with the refusal of the real code
    curve = {64: ec.SECP256R1(), 96: ec.SECP384R1()}.get(len(pk))
    if curve is None:
        return "E:spsdk"
    try:
        ec.EllipticCurvePublicNumbers(int.from_bytes(pk[:len(pk) // 2], "big"), int.from_bytes(pk[len(pk) // 2:], "big"), curve).public_key()
        return model_ans
    except ValueError:
        return "E:spsdk"


def _pfr_rotkh(CMPA, fam, keys):
    c = CMPA(fam)
    reg = c.registers.find_reg("ROTKH")
    data = c.export(keys=keys, draw=False)
    return reg.width, data[reg.offset: reg.offset + reg.width // 8]


# ------------------------------------------------------------------------------------------------ refused / out-of-domain inputs
def stream_negative(ck, ask, pool, scratch, by_type):
    from spsdk.crypto.keys import PublicKey
    from spsdk.dat.debug_credential import RotMetaRSA
    from spsdk.utils.crypto.rkht import RKHTv1, RKHTv21
    from spsdk.utils.crypto.rot import Rot
    rng = ck.rng
    s = ck.stream("rot_refused", "key sets outside the documented domain (mixed RSA/EC, mixed curves, 0 or 5 keys, P-384/P-521 for cert block v1, P-521 and "
                  "RSA for v2.1, 1..3 or mixed keys / mixed CA flags for AHAB, used index out of range): the real path and the modelled path must "
                  "agree on value or refusal class; a documented-domain violation must never produce a value silently different from the "
                  "model; non-trivial = distinct (key set, path)")
    r2, r4, e2, e3, e5 = (pool[("rsa", 2048)], pool[("rsa", 4096)] or pool[("rsa", 2048)], pool[("ecc", 256)], pool[("ecc", 384)], pool[("ecc", 521)])
    cases = []
    for _ in range(ck.budget(6, 60)):
        cases += [
            [rng.choice(r2), rng.choice(e2)], [rng.choice(e2), rng.choice(r2)], [rng.choice(e2), rng.choice(e3)],
            [rng.choice(e3), rng.choice(e2), rng.choice(e3)], [rng.choice(e5)], [rng.choice(e5), rng.choice(e5)],
            [rng.choice(e3)], [rng.choice(e2), rng.choice(e2)], rng.sample(r2, 4) + [rng.choice(r2)],
            rng.sample(e2, 4) + [rng.choice(e2)], [], rng.sample(r2, 3), rng.sample(e2, 2),
            rng.sample(r2, 3) + [rng.choice(r4)], rng.sample(e2, 3) + [rng.choice(e3)], [rng.choice(e2), rng.choice(e5)],
        ]
    big = pool[("rsa_e_big", 2048)]
    cases += [list(big), rng.sample(r2, 3) + big, big + rng.sample(r2, 1)]
    for keys in cases:
        toks = ktoks(keys)
        objs = [PublicKey.create(k.pub) for k in keys]
        inp = kdesc(keys)
        for path, fn, line in (("RKHTv1.from_keys", lambda: RKHTv1.from_keys(objs).rkth(), f"path rkht1 {toks}"),
                               ("RKHTv21.from_keys", lambda: RKHTv21.from_keys(objs).rkth(), f"path rkht21 {toks}")):
            real = cres(fn)
            s.note((tuple(k.id for k in keys), path), cls=path + ":" + real[:2])
            ask(line, lambda a, real=real, path=path, inp=inp: s.compare(dict(inp, path=path), norm_ok(real), a, f"{path}: model differs on an out-of-domain key set"))
        if keys and all(k.kind == "rsa" for k in keys) or not keys:
            real = cres(lambda: RotMetaRSA.load_from_config({"rot_meta": [k.file("pub_pem", scratch) for k in keys]}).calculate_hash())
            s.note((tuple(k.id for k in keys), "RotMetaRSA"), cls="RotMetaRSA:" + real[:2])
            ask(f"path datrsa {toks}", lambda a, real=real, inp=inp: s.compare(dict(inp, path="RotMetaRSA"), real, a, "RotMetaRSA: model differs"))
        for rt in ("srk_table_ahab", "srk_table_ahab_v2"):
            if not keys:
                continue
            fam, rev = rng.choice(by_type[rt])
            mixed_ca = len(keys) == 4 and rng.random() < 0.5
            forms = [("cert_der_both" if (mixed_ca and i % 2) else "pub_pem") for i in range(len(keys))]
            va = [k.form(f, scratch) for k, f in zip(keys, forms)]
            cas = [v[1] for v in va]
            real = cres(lambda: Rot(fam, rev, [v[0] for v in va]).calculate_hash())
            s.note((tuple(k.id for k in keys), rt, tuple(cas)), cls=f"Rot({rt}):" + real[:2])
            ask(f"path rot {rt} {ktoks(keys, cas)}", lambda a, real=real, inp=inp, rt=rt, cas=cas: s.compare(dict(inp, path=f"Rot({rt})", ca=cas), real, a, "AHAB Rot: model differs on a refused / out-of-domain table"))
            if (not keys_ok(rt, keys) or len(set(cas)) > 1) and all(k.kind != "rsa" or k.b < 2 ** 32 for k in keys):
                s.expect(real == "E:spsdk", dict(inp, rot_type=rt, ca=cas), "an SRK table outside the documented domain (not four keys of one kind with equal CA flags) is not refused with an SPSDKError", real)
        # unknown rot type / family without RoT
    for fam in ("mc56f81868",):
        real = cres(lambda: Rot(fam, "latest", [PublicKey.create(r2[0].pub)]).calculate_hash())
        s.note((fam,), cls="cert_block_x")
        s.expect(real == "E:spsdk", {"family": fam}, "a family whose rot_type has no RoT class is not refused with an SPSDKError", real)
        ask(f"path rot cert_block_x {r2[0].tok()}", lambda a, real=real: s.compare({"family": "mc56f81868"}, real, a, "Rot dispatch on an unknown rot_type: model differs"))
    ask.flush()


# ------------------------------------------------------------------------------------------------ certificate block codecs vs Lean model
def stream_codec(ck, ask, pool, scratch):
    from spsdk.utils.crypto.cert_blocks import CertBlockV1, CertBlockV21, IskCertificate, RootKeyRecord
    rng = ck.rng
    s = ck.stream("certblock_codec", "CertBlockV1 / CertBlockV21 / RootKeyRecord / IskCertificate of the real classes vs the Lean codecs: exported bytes "
                  "(signature bytes taken from the real object), parsed fields, root key record flags, and malformed blocks (truncated, corrupted "
                  "magic / length / flags / count words); non-trivial = distinct (block, mutation)")
    r2 = pool[("rsa", 2048)]

    def dump1(p):
        return (f"{p.header.version.split('.')[0]} {p.header.version.split('.')[1]} {p.header.flags} {p.header.build_number} {p.header.image_length} "
                f"{p.alignment} {','.join(c.export().hex() for c in p.certificates) or '-'} {','.join(h.hex() for h in p.rkh) or '-'}")

    for _ in range(ck.budget(25, 400)):
        n = rng.choice([1, 2, 3, 4])
        keys = rng.sample(r2, min(n, len(r2)))
        used = rng.randrange(len(keys))
        cbr = pyres(real_cb1, keys, used, scratch, rng.random() < 0.3)
        if cbr[0] != "ok":
            s.note(("cb1", tuple(k.id for k in keys), used), cls="v1-build-failed")
            s.expect(False, kdesc(keys, used=used), "CertBlockV1 cannot be built from valid certificates", cbr)
            continue
        cb = cbr[1]
        cb._header.flags = rng.choice([0, 1, rng.getrandbits(32)])
        cb._header.build_number = rng.choice([0, 3, rng.getrandbits(32)])
        cb._header.version = rng.choice(["1.0", "1.1", "2.7", "65535.65535"])
        il = rng.choice([0, 1, 0x2000, 0xFFFFFFFF])
        if il:
            pyres(setattr, cb, "image_length", il)
        pyres(setattr, cb, "alignment", rng.choice([16, 16, 4, 1, 64, 13]))
        ex = pyres(cb.export)
        s.note(("cb1", tuple(k.id for k in keys), used, cb.header.version, cb.alignment), cls="v1-export")
        if ex[0] != "ok":
            s.expect(False, kdesc(keys, used=used), "CertBlockV1.export fails", ex)
            continue
        mj, mn = cb.header.version.split(".")
        line = (f"cb1_export 1 {mj} {mn} {cb.header.flags} {cb.header.build_number} {cb.header.image_length} {cb.alignment} "
                f"{','.join(c.export().hex() for c in cb.certificates)} {','.join(h.hex() for h in cb.rkh)}")
        ask(line, lambda a, ex=ex, keys=keys: s.compare(kdesc(keys), hx(ex[1]), a, "CertBlockV1.export differs from the model"))
        s.expect(len(ex[1]) % cb.alignment == 0, kdesc(keys), "CertBlockV1.export length is not aligned")
        used_len = 32 + struct.unpack_from("<I", ex[1], 28)[0] + 128
        s.expect(len(ex[1]) - used_len < cb.alignment and not any(ex[1][used_len:]), kdesc(keys),
                 "CertBlockV1.export: what follows header | certificates | RKH table is not (less than one alignment unit of) zero padding", ex[1][used_len:].hex())
        # parse: real vs model on the exported block and on mutations of its header / length (certificate bytes stay intact)
        data = ex[1]
        muts = [("intact", data), ("trunc-hdr", data[:rng.randrange(0, 32)]), ("trunc-rkht", data[:len(data) - rng.randrange(1, 140)]),
                ("sig", b"xert" + data[4:]), ("hdrlen", data[:8] + struct.pack("<I", rng.choice([0, 31, 33])) + data[12:]),
                ("ctl", data[:28] + struct.pack("<I", rng.choice([0, 1, len(data), 2 ** 32 - 1])) + data[32:]),
                ("trail", data + bytes(rng.randrange(1, 40)))]
        for name, d in muts:
            pr = pyres(CertBlockV1.parse, d)
            real = ("ok:" + sdump(dump1, pr[1])) if pr[0] == "ok" else pr[0]
            s.note(("cb1p", tuple(k.id for k in keys), name, len(d)), cls="v1-parse-" + name)
            ask(f"cb1_parse {hexs(d)}", lambda a, real=real, name=name, d=d: s.compare({"mutation": name, "data": d}, real, a, "CertBlockV1.parse differs from the model"))
            if name in ("intact", "trail") and cb.alignment == 16:
                s.expect(pr[0] == "ok" and pyres(pr[1].export) == ("ok", data), {"mutation": name, "data": d}, "CertBlockV1 does not survive export -> parse -> export")
    ask.flush()

    # ---- v2.1
    def dump_rkr(rk):
        """flags, key hashes and root public key of a RootKeyRecord - taken from its EXPORTED bytes (plus `rkth` for the single-key
        case, where the table is not stored), not from private attributes"""
        rec = rk.export()
        flags = struct.unpack_from("<I", rec, 0)[0]
        cnt, hl = (flags >> 4) & 0xF, {1: 32, 2: 48}.get(flags & 0xF, 32)
        if cnt > 1:
            cnt = min(cnt, (len(rec) - 4) // hl)      # a parsed (possibly inconsistent) record keeps only the hashes that were there
            hashes = [rec[4 + i * hl: 4 + (i + 1) * hl] for i in range(cnt)]
            pk = rec[4 + cnt * hl:]
        else:
            pk = rec[4:]
            hashes = [hashlib.new("sha256" if hl == 32 else "sha384", pk).digest()]
        return f"{flags} {','.join(h.hex() for h in hashes) or '-'} {hexs(pk)}"

    def dump_isk(i):
        return f"{'true' if i.offset_present else 'false'} {i.constraints} {i.flags} {hexs(i.isk_public_key_data)} {hexs(i.user_data)} {hexs(i.signature)}"

    def dump21(p):
        """observables of a parsed block (it may be inconsistent when the input was damaged): the re-exported root key record, the RKTH
        it reports, the ISK certificate fields"""
        mj, mn = p.header.format_version.split(".")
        def ch(fn):
            r = pyres(fn)
            return hx(r[1]) if r[0] == "ok" else r[0]
        return (f"{mj} {mn} | {ch(p.root_key_record.export)} {ch(lambda: p.rkth)} | "
                + (dump_isk(p.isk_certificate) if p.isk_certificate else "none"))

    for _ in range(ck.budget(40, 700)):
        bits = rng.choice([256, 384])
        n = rng.choice([1, 2, 3, 4])
        src = pool[("ecc", bits)] + pool[("ecc_lz", bits)][:6]
        keys = rng.sample(src, n)
        used = rng.randrange(n)
        ca = rng.random() < 0.4
        isk = None if ca else rng.choice(pool[("ecc", rng.choice([256, 384]))] + pool[("ecc_lz", 256)][:3])
        ud = None if isk is None else rng.choice([None, bytes(rng.getrandbits(8) for _ in range(4 * rng.randrange(1, 25)))])
        forms = [rng.choice(["obj_pub", "pub_pem", "nxp"]) for _ in keys]
        cbr = pyres(real_cb21, keys, forms, used, scratch, isk, ud, None, rng.choice([0, 1, 0xFFFFFFFF]))
        inp = kdesc(keys, forms, used=used, ca=ca, isk=None if isk is None else isk.desc(), user_data=None if ud is None else ud.hex())
        s.note(("cb21", tuple(k.id for k in keys), used, ca, None if isk is None else isk.id, None if ud is None else len(ud)), cls=f"v21-{'ca' if ca else 'isk'}-{n}")
        if cbr[0] != "ok":
            s.expect(False, inp, "CertBlockV21 cannot be built", cbr)
            continue
        cb = cbr[1]
        ex = pyres(cb.export)
        if ex[0] != "ok":
            s.expect(False, inp, "CertBlockV21.export fails", ex)
            continue
        data = ex[1]
        rk = cb.root_key_record
        drk = sdump(dump_rkr, rk)
        ask(f"rkr_calc {int(ca)} {used} {ktoks(keys)}", lambda a, drk=drk, inp=inp: s.compare(inp, "ok:" + drk, a, "RootKeyRecord.calculate differs from the model"))
        ask(f"rkr_fields {drk.split()[0]}", lambda a, ca=ca, used=used, n=n, bits=bits, inp=inp: s.compare(inp, f"ok:{'true' if ca else 'false'} {used} {n} {1 if bits == 256 else 2}", a, "root key record flag fields differ"))
        isk_toks = "none" if cb.isk_certificate is None else "1 " + dump_isk(cb.isk_certificate).split(" ", 1)[1]
        mj, mn = cb.header.format_version.split(".")
        ask(f"cb21_export {mj} {mn} {drk} {isk_toks}",
            lambda a, data=data, inp=inp: s.compare(inp, hx(data), a, "CertBlockV21.export differs from the model"))
        size = struct.unpack_from("<I", data, 8)[0] if len(data) >= 12 else -1
        s.expect(size == len(data), inp, "cert_block_size field is not the length of the exported block", size, len(data))
        rkl = safe(lambda: len(rk.export()), 4)
        muts = [("intact", data), ("trail", data + bytes(rng.randrange(1, 9))), ("trunc", data[:rng.randrange(0, len(data))]),
                ("magic", b"cHdr" + data[4:]), ("flags-nibble", data[:12] + bytes([(data[12] & 0xF0) | rng.choice([0, 3, 7])]) + data[13:]),
                ("count", data[:12] + bytes([(data[12] & 0x0F) | (rng.choice([0, 5, 15]) << 4)]) + data[13:])]
        if cb.isk_certificate is not None:
            o = 12 + rkl
            muts.append(("isk-nibble", data[:o + 8] + bytes([(data[o + 8] & 0xF0) | rng.choice([0, 3, 9])]) + data[o + 9:]))
        for name, d in muts:
            pr = pyres(CertBlockV21.parse, d)
            real = ("ok:" + sdump(dump21, pr[1])) if pr[0] == "ok" else pr[0]
            s.note(("cb21p", tuple(k.id for k in keys), used, name, len(d)), cls="v21-parse-" + name)
            ask(f"cb21_parse_obs {hexs(d)}", lambda a, real=real, name=name, d=d: s.compare({"mutation": name, "data": d}, real, _point_ok(a, real), "CertBlockV21.parse differs from the model"))
            if name in ("intact", "trail"):
                s.expect(pr[0] == "ok" and pyres(pr[1].export) == ("ok", data), {"mutation": name, "data": d}, "CertBlockV21 does not survive export -> parse -> export")
            else:
                s.expect(pr[0] != "ok" or name in ("trunc", "count", "flags-nibble", "isk-nibble"), {"mutation": name, "data": d}, "a block with a wrong magic is accepted")
        if len(ask.lines) > 300:
            ask.flush()
    ask.flush()


# ------------------------------------------------------------------------------------------------ ISK certificate: what is signed
def stream_isk(ck, ask, pool, scratch):
    from cryptography.exceptions import InvalidSignature
    from cryptography.hazmat.primitives import hashes
    from cryptography.hazmat.primitives.asymmetric import ec
    from cryptography.hazmat.primitives.asymmetric.utils import encode_dss_signature
    from spsdk.utils.crypto.cert_blocks import CertBlockV21
    from spsdk.utils.database import DatabaseManager, get_db
    rng = ck.rng
    s = ck.stream("isk_signature", "CertBlockV21 with an ISK certificate: root curve x ISK curve x used index x user data of EVERY allowed length "
                  "(0, 4, ..., isk_data_limit; with and without the family limit) - the signature in the exported block verifies with "
                  "`cryptography` under the SELECTED root key over exactly root key record || ISK header || ISK public key || user data "
                  "(= block[12 : 12+len(record)+signature_offset]) and under no other root key; longer / unaligned user data is refused when the "
                  "family is given; the model's to-be-signed bytes are compared; non-trivial = distinct (root set, used, ISK key, length)")
    fam = "lpc55s36"
    limit = get_db(fam).get_int(DatabaseManager.CERT_BLOCK, "isk_data_limit")
    align = get_db(fam).get_int(DatabaseManager.CERT_BLOCK, "isk_data_alignment")
    hash_of = {256: hashes.SHA256(), 384: hashes.SHA384()}
    lengths = list(range(0, limit + 1, align))
    reps = ck.budget(1, 10)
    for _ in range(reps):
        for rbits in (256, 384):
            for ibits in (256, 384):
                for ln in lengths:
                    n = rng.choice([1, 2, 3, 4])
                    keys = rng.sample(pool[("ecc", rbits)] + pool[("ecc_lz", rbits)][:4], n)
                    used = rng.randrange(n)
                    isk = rng.choice(pool[("ecc", ibits)] + pool[("ecc_lz", ibits)][:4])
                    ud = bytes(rng.getrandbits(8) for _ in range(ln)) or None
                    use_fam = rng.random() < 0.6
                    cons = rng.choice([0, 1, 7, 0xFFFFFFFF])
                    inp = kdesc(keys, used=used, isk=isk.desc(), user_data=(ud or b"").hex(), family=fam if use_fam else None, constraints=cons)
                    s.note((tuple(k.id for k in keys), used, isk.id, ln, use_fam), cls=f"root{rbits}/isk{ibits}/len{ln}")
                    cbr = pyres(real_cb21, keys, ["obj_pub"] * n, used, scratch, isk, ud, fam if use_fam else None, cons)
                    if cbr[0] != "ok":
                        s.expect(False, inp, "CertBlockV21 with an allowed ISK user-data length cannot be built", cbr)
                        continue
                    cb = cbr[1]
                    ex = pyres(cb.export)
                    if ex[0] != "ok":
                        s.expect(False, inp, "CertBlockV21.export fails", ex)
                        continue
                    try:
                        data = ex[1]
                        rec = cb.root_key_record.export()
                        o = 12 + len(rec)
                        sig_off = struct.unpack_from("<I", data, o)[0]
                        cs = CURVES[rbits][1]
                        icl = CURVES[ibits][1]
                        s.expect(sig_off == 12 + 2 * icl + ln, inp, "signature_offset is not 12 + |ISK public key| + |user data|", sig_off, 12 + 2 * icl + ln)
                        signed = data[12:o + sig_off]
                        expect_signed = rec + struct.pack("<3L", sig_off, cons, (0x80000000 if ln else 0) | (1 if ibits == 256 else 2)) + isk.raw_nxp() + (ud or b"")
                        s.expect(signed == expect_signed, inp, "the exported bytes before the signature are not record || header || ISK key || user data", signed.hex()[:120], expect_signed.hex()[:120])
                        sig = data[o + sig_off:]
                        s.expect(len(sig) == 2 * cs and len(data) == o + sig_off + 2 * cs, inp, "signature length is not twice the root coordinate size", len(sig))
                        der = encode_dss_signature(int.from_bytes(sig[:cs], "big"), int.from_bytes(sig[cs:], "big"))
                        for i, k in enumerate(keys):
                            try:
                                k.pub.verify(der, signed, ec.ECDSA(hash_of[rbits]))
                                good = True
                            except InvalidSignature:
                                good = False
                            s.expect(good == (i == used), dict(inp, verifier=i), "ISK signature does not verify under exactly the selected root key over the stated range", good, i == used)
                        # a one-byte change anywhere in the range invalidates it (checked independently)
                        pos = rng.randrange(len(signed))
                        tam = signed[:pos] + bytes([signed[pos] ^ 0x01]) + signed[pos + 1:]
                        try:
                            keys[used].pub.verify(der, tam, ec.ECDSA(hash_of[rbits]))
                            s.expect(False, dict(inp, tampered_at=pos), "signature still verifies after changing a byte of the signed range")
                        except InvalidSignature:
                            pass
                        i_ = cb.isk_certificate
                        ask(f"isk_tbs {hexs(rec)} 1 {cons} {i_.flags} {hexs(i_.isk_public_key_data)} {hexs(i_.user_data)} {hexs(i_.signature)}",
                            lambda a, signed=signed, inp=inp: s.compare(inp, hx(signed), a, "model iskDataToSign differs from the signed slice of the real block"))
                        ask(f"isk_flags {hexs(ud or b'')} {2 * icl}", lambda a, i_=i_, inp=inp: s.compare(inp, f"ok:{i_.flags}", a, "model ISK flags differ"))
                    except Exception as exc:  # noqa: BLE001  (a malformed block must become a reported failure, not a harness crash)
                        s.expect(False, inp, "the exported block cannot be taken apart as header | record | ISK certificate", type(exc).__name__)
        if len(ask.lines) > 300:
            ask.flush()
    # refused lengths with a family
    for ln in (limit + align, limit + 1, 1, 2, 3, 5, 2 * limit):
        keys = [rng.choice(pool[("ecc", 256)])]
        isk = rng.choice(pool[("ecc", 256)])
        r = pyres(real_cb21, keys, ["obj_pub"], 0, scratch, isk, bytes(ln), fam)
        s.note(("refuse", ln), cls="refused-length")
        s.expect(r[0] == "E:spsdk", {"user_data_len": ln, "family": fam}, "ISK user data beyond the family limit / alignment is not refused", r[0])
    ask.flush()



# ------------------------------------------------------------------------------------------------ configuration / CLI glue
def stream_config_cli(ck, ask, pool, scratch, by_type):
    """the glue around the modelled core: YAML configuration -> `from_config` -> export, `nxpimage cert-block export / parse`
    through click's CliRunner, `get_config` / `create_config` of a parsed block"""
    import re
    import yaml
    from click.testing import CliRunner
    from spsdk.apps import nxpimage
    from spsdk.crypto.certificate import Certificate
    from spsdk.utils.crypto.cert_blocks import CertBlock, CertBlockV1, CertBlockV21
    from spsdk.utils.misc import load_configuration
    rng = ck.rng
    s = ck.stream("config_cli", "certificate blocks built from a YAML configuration: `CertBlockV1/V21.from_config`, `nxpimage cert-block export -c cfg -f family` "
                  "and `nxpimage cert-block parse -b bin -f family -o dir` (CliRunner) for 1..4 root keys, every used index given explicitly "
                  "(mainRootCertId) or found from the private key, certificate chain, ISK with / without user data: exported bytes = bytes of the "
                  "directly built block = model export (signature masked and verified independently), printed RKTH = documented value, "
                  "the recreated configuration names the used root / ISK key / user data, and for single-root CA blocks "
                  "from_config(get_config(parse(export))) exports the same bytes; non-trivial = distinct (key set, used, options)")
    runner = CliRunner()
    v1_fams = [f for f, _ in by_type["cert_block_1"] if f in CertBlockV1.get_supported_families()]
    v21_fams = [f for f, _ in by_type["cert_block_21"] if f in CertBlockV21.get_supported_families()]
    n_cases = ck.budget(16, 100)
    for ci in range(n_cases):
        d = Path(scratch) / f"cfg{ci}"
        d.mkdir(exist_ok=True)
        if ci % 2 == 0 and v1_fams:
            fam = rng.choice(v1_fams)
            n = rng.choice([1, 2, 3, 4])
            keys = rng.sample(pool[("rsa", 2048)] + pool[("rsa_e", 2048)][:2], n)
            used = rng.randrange(n)
            chain = n > 1 and rng.random() < 0.4
            build = rng.choice([0, 1, 77, 0xFFFFFFFF])
            cfg = {"imageBuildNumber": build, "containerOutputFile": "cb.bin"}
            for i, k in enumerate(keys):
                (d / f"root{i}.der").write_bytes(k.form("cert_der_both" if (chain and i == used) else "cert_der_none", scratch)[0])
                cfg[f"rootCertificate{i}File"] = f"root{i}.der"
            by_key = rng.random() < 0.5
            if by_key and not chain:
                (d / "main.pem").write_bytes(keys[used].form("priv_pem", scratch)[0])
                cfg["mainCertPrivateKeyFile"] = "main.pem"
            else:
                cfg["mainRootCertId"] = used
            leaf = keys[(used + 1) % n]
            if chain:
                from cryptography.hazmat.primitives import serialization as ser
                (d / "leaf.der").write_bytes(leaf.cert("none", issuer=keys[used]).public_bytes(ser.Encoding.DER))
                cfg[f"chainCertificate{used}File0"] = "leaf.der"
            (d / "cfg.yaml").write_text(yaml.safe_dump(cfg))
            inp = kdesc(keys, used=used, family=fam, chain=chain, index_from_private_key=by_key and not chain, build=build)
            s.note(("v1", tuple(k.id for k in keys), used, chain, by_key, build), cls=f"v1-{n}{'-chain' if chain else ''}{'-bykey' if by_key and not chain else ''}")
            exp_rkth = spec_py("cert_block_1", keys).hex()
            a = pyres(lambda: CertBlockV1.from_config(load_configuration(str(d / "cfg.yaml")), search_paths=[str(d)]))
            if a[0] != "ok":
                s.expect(False, inp, "CertBlockV1.from_config fails on a valid configuration", a)
                continue
            ea = pyres(a[1].export)
            s.expect(ea[0] == "ok" and cres(lambda: a[1].rkth) == "ok:" + exp_rkth and safe(lambda: a[1].rkh_index) == used, inp,
                     "from_config: RKTH / used index differ from the documented value", (ea[0], cres(lambda: a[1].rkth), safe(lambda: a[1].rkh_index)), exp_rkth)
            if ea[0] != "ok":
                continue
            # the same block built directly
            cbr = pyres(real_cb1, keys, used, scratch, chain)
            if cbr[0] == "ok":
                cbr[1]._header.build_number = build
                s.expect(pyres(cbr[1].export) == ea, inp, "from_config exports other bytes than the block built through the API", None)
            certs = [c.export().hex() for c in a[1].certificates]
            ask(f"cb1_export 1 1 0 0 {build} 0 16 {','.join(certs)} {','.join(key_hash(k).hex() for k in keys)}",
                lambda ans, ea=ea, inp=inp: s.compare(inp, hx(ea[1]), ans, "from_config export differs from the model export of (certificates, key hashes, build number)"))
            r = runner.invoke(nxpimage.main, ["cert-block", "export", "-c", str(d / "cfg.yaml"), "-f", fam])
            out = d / "cb.bin"
            m = re.search(r"RKTH: ([0-9a-f]+)", r.output or "")
            s.expect(r.exit_code == 0 and out.exists() and out.read_bytes() == ea[1] and m and m.group(1) == exp_rkth, inp,
                     "nxpimage cert-block export: file / printed RKTH differ from from_config / the documented value", (r.exit_code, (r.output or "")[-160:]))
            if not out.exists():
                continue
            od = d / "parsed"
            r2 = runner.invoke(nxpimage.main, ["cert-block", "parse", "-b", str(out), "-f", fam, "-o", str(od)])
            m2 = re.search(r"RKTH: ([0-9a-f]+)", r2.output or "")
            s.expect(r2.exit_code == 0 and m2 and m2.group(1) == exp_rkth, inp, "nxpimage cert-block parse does not print the documented RKTH", (r2.exit_code, (r2.output or "")[-160:]))
            cfg2 = pyres(lambda: load_configuration(str(od / "cert_block_config.yaml")))
            if cfg2[0] == "ok":
                c2 = cfg2[1]
                rootf = od / str(c2.get(f"rootCertificate{used}File"))
                s.expect(c2.get("mainRootCertId") == used and c2.get("imageBuildNumber") == build and rootf.exists()
                         and safe(lambda: Certificate.load(str(rootf)).export()) == a[1].certificates[0].export(), inp,
                         "recreated configuration does not name the used root certificate / build number", {k: c2.get(k) for k in ("mainRootCertId", "imageBuildNumber")})
                if n == 1:
                    b = pyres(lambda: CertBlockV1.from_config(c2, search_paths=[str(od)]).export())
                    s.expect(b == ea, inp, "single-root block: from_config(create_config(parse(export))) exports other bytes", b[0])
            else:
                s.expect(False, inp, "recreated configuration cannot be loaded", cfg2)
        elif v21_fams:
            fam = rng.choice(v21_fams)
            bits = rng.choice([256, 384])
            n = rng.choice([1, 2, 3, 4])
            keys = rng.sample(pool[("ecc", bits)] + pool[("ecc_lz", bits)][:4], n)
            used = rng.randrange(n)
            use_isk = rng.random() < 0.6
            isk = rng.choice(pool[("ecc", rng.choice([256, 384]))]) if use_isk else None
            ud = bytes(rng.getrandbits(8) for _ in range(4 * rng.randrange(1, 25))) if (use_isk and rng.random() < 0.6) else None
            cons = rng.choice([0, 1, 5])
            cfg = {"family": fam, "useIsk": use_isk, "containerOutputFile": "cb.bin", "mainRootCertId": used}
            for i, k in enumerate(keys):
                base = rng.choice(["pub_pem", "pub_der", "cert_der_none", "priv_pem"])
                (d / f"root{i}.bin").write_bytes(k.form(base, scratch)[0])
                cfg[f"rootCertificate{i}File"] = f"root{i}.bin"
            by_key = rng.random() < 0.4
            if use_isk or by_key:
                (d / "rootk.pem").write_bytes(keys[used].form("priv_pem", scratch)[0])
                cfg["signPrivateKey"] = "rootk.pem"
            if by_key:
                del cfg["mainRootCertId"]
            if use_isk:
                (d / "isk.pub").write_bytes(isk.form("pub_pem", scratch)[0])
                cfg["iskPublicKey"] = "isk.pub"
                cfg["iskCertificateConstraint"] = cons
                if ud:
                    (d / "ud.bin").write_bytes(ud)
                    cfg["iskCertData"] = "ud.bin"
            (d / "cfg.yaml").write_text(yaml.safe_dump(cfg))
            inp = kdesc(keys, used=used, family=fam, isk=None if isk is None else isk.desc(), user_data=None if ud is None else ud.hex(),
                        index_from_private_key=by_key, constraints=cons)
            s.note(("v21", tuple(k.id for k in keys), used, use_isk, None if ud is None else len(ud), by_key), cls=f"v21-{n}{'-isk' if use_isk else '-ca'}{'-bykey' if by_key else ''}")
            exp_rkth = spec_py("cert_block_21", keys).hex()
            a = pyres(lambda: CertBlockV21.from_config(load_configuration(str(d / "cfg.yaml")), search_paths=[str(d)]))
            if a[0] != "ok":
                s.expect(False, inp, "CertBlockV21.from_config fails on a valid configuration", a)
                continue
            ea = pyres(a[1].export)
            s.expect(ea[0] == "ok" and cres(lambda: a[1].rkth) == "ok:" + exp_rkth, inp, "from_config: RKTH differs from the documented value", cres(lambda: a[1].rkth), exp_rkth)
            if ea[0] != "ok":
                continue
            cs = CURVES[bits][1]
            body_len = len(ea[1]) - (2 * cs if use_isk else 0)          # everything but the (randomised) ISK signature
            ok_sig = True
            if use_isk:
                ok_sig = _verify_isk(keys[used], bits, ea[1])
            s.expect(ok_sig, inp, "from_config: ISK signature does not verify under the selected root key over block[12 : signature]")
            cbr = pyres(real_cb21, keys, ["obj_pub"] * n, used, scratch, isk, ud, fam, cons)
            if cbr[0] == "ok":
                eb = pyres(cbr[1].export)
                s.expect(eb[0] == "ok" and eb[1][:body_len] == ea[1][:body_len] and len(eb[1]) == len(ea[1]), inp,
                         "from_config exports other bytes (signature aside) than the block built through the API")
            if by_key:
                # the CLI's schema (certificate_root_keys) accepts the index-from-private-key form only under the v1 option name;
                # through the CLI the index is therefore given explicitly (observation recorded in design_notes/C03.md)
                (d / "cfg.yaml").write_text(yaml.safe_dump(dict(cfg, mainRootCertId=used)))
            r = runner.invoke(nxpimage.main, ["cert-block", "export", "-c", str(d / "cfg.yaml"), "-f", fam])
            out = d / "cb.bin"
            m = re.search(r"RKTH: ([0-9a-f]+)", r.output or "")
            got = out.read_bytes() if out.exists() else b""
            s.expect(r.exit_code == 0 and got[:body_len] == ea[1][:body_len] and len(got) == len(ea[1]) and m and m.group(1) == exp_rkth
                     and (not use_isk or _verify_isk(keys[used], bits, got)), inp,
                     "nxpimage cert-block export: file / printed RKTH / ISK signature differ from from_config / the documented value", (r.exit_code, (r.output or "")[-160:]))
            if not out.exists():
                continue
            od = d / "parsed"
            r2 = runner.invoke(nxpimage.main, ["cert-block", "parse", "-b", str(out), "-f", fam, "-o", str(od)])
            m2 = re.search(r"RKTH: ([0-9a-f]+)", r2.output or "")
            s.expect(r2.exit_code == 0 and m2 and m2.group(1) == exp_rkth, inp, "nxpimage cert-block parse does not print the documented RKTH", (r2.exit_code, (r2.output or "")[-160:]))
            cfg2 = pyres(lambda: load_configuration(str(od / "cert_block_config.yaml")))
            if cfg2[0] != "ok":
                s.expect(False, inp, "recreated configuration cannot be loaded", cfg2)
                continue
            c2 = cfg2[1]
            from spsdk.crypto.keys import PublicKey
            rootf = od / str(c2.get(f"rootCertificate{used}File"))
            got_root = safe(lambda: (PublicKey.load(str(rootf)).x, PublicKey.load(str(rootf)).y))
            s.expect(c2.get("mainRootCertId") == used and bool(c2.get("useIsk")) == use_isk and got_root == (keys[used].a, keys[used].b), inp,
                     "recreated configuration does not name the used root key / ISK usage", {k: c2.get(k) for k in ("mainRootCertId", "useIsk")})
            if use_isk:
                iskf = od / str(c2.get("signingCertificateFile"))
                got_isk = safe(lambda: (PublicKey.load(str(iskf)).x, PublicKey.load(str(iskf)).y))
                udf = od / str(c2.get("signCertData")) if c2.get("signCertData") else None
                s.expect(got_isk == (isk.a, isk.b) and c2.get("signingCertificateConstraint") == cons
                         and ((udf.read_bytes() if udf and udf.exists() else None) == ud), inp,
                         "recreated configuration does not give back the ISK key / constraint / user data")
            elif n == 1:
                c2["family"] = fam
                b = pyres(lambda: CertBlockV21.from_config(c2, search_paths=[str(od)]).export())
                s.expect(b == ea, inp, "single-root CA block: from_config(create_config(parse(export))) exports other bytes", b[0])
        if len(ask.lines) > 200:
            ask.flush()
    ask.flush()


def _verify_isk(root, bits, block):
    """ECDSA check with `cryptography` of the ISK signature at the end of an exported v2.1 block under key `root`"""
    from cryptography.exceptions import InvalidSignature
    from cryptography.hazmat.primitives import hashes
    from cryptography.hazmat.primitives.asymmetric import ec
    from cryptography.hazmat.primitives.asymmetric.utils import encode_dss_signature
    cs = CURVES[bits][1]
    try:
        signed, sig = block[12:len(block) - 2 * cs], block[len(block) - 2 * cs:]
        der = encode_dss_signature(int.from_bytes(sig[:cs], "big"), int.from_bytes(sig[cs:], "big"))
        root.pub.verify(der, signed, ec.ECDSA({256: hashes.SHA256(), 384: hashes.SHA384()}[bits]))
        return True
    except (InvalidSignature, ValueError):
        return False


# ------------------------------------------------------------------------------------------------ certificate block Vx (MC56)
def stream_vx(ck, ask, pool, scratch, by_type):
    import re
    import yaml
    from click.testing import CliRunner
    from cryptography.exceptions import InvalidSignature
    from cryptography.hazmat.primitives import hashes
    from cryptography.hazmat.primitives.asymmetric import ec
    from cryptography.hazmat.primitives.asymmetric.utils import encode_dss_signature
    from spsdk.apps import nxpimage
    from spsdk.crypto.signature_provider import PlainFileSP
    from spsdk.utils.crypto.cert_blocks import CertBlockVx
    rng = ck.rng
    s = ck.stream("certblock_vx", "CertBlockVx / IskCertificateLite (MC56F8xxxx): ISK key x signing key x self-signed flag - to-be-signed bytes "
                  "(= `nxpimage cert-block get-isk-tbs`) and exported block vs the model, signature verified with `cryptography` over exactly the "
                  "72 to-be-signed bytes, export -> parse -> export identity, cert_hash = SHA-256(export)[:16] and the OTP script words vs the "
                  "model, `nxpimage cert-block export` for a based_on_certx family; non-trivial = distinct (ISK key, signer, flag)")
    fams = pyres(CertBlockVx.get_supported_families)
    fam = fams[1][0] if fams[0] == "ok" and fams[1] else None
    runner = CliRunner()
    p256 = pool[("ecc", 256)] + pool[("ecc_lz", 256)][:6]
    for ci in range(ck.budget(10, 80)):
        isk, signer = rng.choice(p256), rng.choice(pool[("ecc", 256)])
        self_signed = rng.random() < 0.6
        inp = kdesc([signer], isk=isk.desc(), self_signed=self_signed)
        s.note((isk.id, signer.id, self_signed), cls=f"self_signed={self_signed}{'-lz' if isk.lead_zero() else ''}")
        cbr = pyres(lambda: CertBlockVx(isk_cert=isk.raw_nxp() if ci % 2 else isk.form("pub_pem", scratch)[0],
                                        signature_provider=PlainFileSP(signer.file("priv_pem", scratch)), self_signed=self_signed))
        if cbr[0] != "ok":
            s.expect(False, inp, "CertBlockVx cannot be built", cbr)
            continue
        cb = cbr[1]
        tbs, ex = pyres(cb.get_tbs_data), pyres(cb.export)
        if tbs[0] != "ok" or ex[0] != "ok":
            s.expect(False, inp, "CertBlockVx.get_tbs_data / export fails", (tbs[0], ex[0]))
            continue
        data = ex[1]
        exp_tbs = struct.pack("<HHI", 0x4D43, 1, int(self_signed)) + isk.raw_nxp()
        s.expect(tbs[1] == exp_tbs and data[:72] == exp_tbs and len(data) == 136, inp, "lite ISK certificate is not magic | version | constraints | X||Y | signature(64)",
                 data[:80].hex(), exp_tbs.hex())
        try:
            signer.pub.verify(encode_dss_signature(int.from_bytes(data[72:104], "big"), int.from_bytes(data[104:136], "big")), data[:72], ec.ECDSA(hashes.SHA256()))
            good = True
        except (InvalidSignature, ValueError):
            good = False
        s.expect(good, inp, "lite ISK certificate signature does not verify over the 72 to-be-signed bytes")
        ask(f"lite_tbs {int(self_signed)} {isk.raw_nxp().hex()}", lambda a, tbs=tbs, inp=inp: s.compare(inp, hx(tbs[1]), a, "IskCertificateLite.get_tbs_data differs from the model"))
        ask(f"lite_export {int(self_signed)} {isk.raw_nxp().hex()} {data[72:].hex()}", lambda a, data=data, inp=inp: s.compare(inp, hx(data), a, "CertBlockVx.export differs from the model"))
        pr = pyres(CertBlockVx.parse, data + bytes(rng.choice([0, 5])))
        s.expect(pr[0] == "ok" and pyres(pr[1].export) == ex, inp, "CertBlockVx does not survive export -> parse -> export", pr[0])
        ask(f"vx_parse {data.hex()}", lambda a, data=data, inp=inp, ss=self_signed: s.compare(inp, f"ok:{int(ss)} {data[8:72].hex()} {data[72:].hex()}", a, "model vxParse differs"))
        h = pyres(lambda: cb.cert_hash)
        script = pyres(cb.get_otp_script)
        exp_h = hashlib.sha256(data).digest()[:16]
        words = re.findall(r"flash-program-once 0x[0-9a-f]+ 4 ([0-9a-f]{8})", script[1]) if script[0] == "ok" else []
        s.expect(h == ("ok", exp_h) and words == [exp_h[i:i + 4][::-1].hex() for i in range(0, 16, 4)], inp,
                 "cert_hash / OTP script words are not SHA-256(export)[:16] in byte-reversed 4-byte groups", (h, words))
        ask(f"vx_hash {int(self_signed)} {isk.raw_nxp().hex()} {data[72:].hex()}",
            lambda a, exp_h=exp_h, words=words, inp=inp: s.compare(inp, f"ok:{exp_h.hex()} {','.join(words)}", a, "model vxCertHash / vxFuseWords differ"))
        if fam and ci < ck.budget(3, 10):
            d = Path(scratch) / f"vx{ci}"
            d.mkdir(exist_ok=True)
            (d / "isk.pub").write_bytes(isk.form("pub_pem", scratch)[0])
            (d / "root.pem").write_bytes(signer.form("priv_pem", scratch)[0])
            (d / "cfg.yaml").write_text(yaml.safe_dump({"selfSigned": self_signed, "iskPublicKey": "isk.pub", "signPrivateKey": "root.pem", "containerOutputFile": "vx.bin"}))
            r = runner.invoke(nxpimage.main, ["cert-block", "export", "-c", str(d / "cfg.yaml"), "-f", fam])
            got = (d / "vx.bin").read_bytes() if (d / "vx.bin").exists() else b""
            s.expect(r.exit_code == 0 and got[:72] == exp_tbs and len(got) == 136, dict(inp, family=fam), "nxpimage cert-block export (Vx) differs", (r.exit_code, (r.output or "")[-160:]))
            r2 = runner.invoke(nxpimage.main, ["cert-block", "get-isk-tbs", "-f", fam, "-p", str(d / "isk.pub"), "-o", str(d / "tbs.bin")])
            got2 = (d / "tbs.bin").read_bytes() if (d / "tbs.bin").exists() else b""
            s.expect(r2.exit_code == 0 and got2 == struct.pack("<HHI", 0x4D43, 1, 0) + isk.raw_nxp(), dict(inp, family=fam), "nxpimage cert-block get-isk-tbs differs", (r2.exit_code, got2.hex()[:40]))
    ask.flush()

# ------------------------------------------------------------------------------------------------ CLI
def stream_cli(ck, pool, scratch, by_type):
    import re
    from click.testing import CliRunner
    from spsdk.apps import nxpcrypto
    rng = ck.rng
    s = ck.stream("cli_rot", "`nxpcrypto rot calculate-hash -f <family> -r <revision> -k <file>...` through click's CliRunner for families of every "
                  "rot_type (HAB also with P-521 / mixed-curve EC certificates), keys given as files in mixed encodings (incl. an encrypted private key with -p): printed hash = documented "
                  "construction; non-trivial = distinct (family, key files)")
    runner = CliRunner()
    plan = []
    for _ in range(ck.budget(2, 8)):
        plan += [("cert_block_1", rng.sample(pool[("rsa", 2048)], rng.choice([1, 2, 3, 4]))),
                 ("cert_block_21", rng.sample(pool[("ecc", rng.choice([256, 384]))] , rng.choice([1, 2, 4]))),
                 ("srk_table_ahab", rng.sample(pool[("ecc", rng.choice([256, 384, 521]))], 4)),
                 ("srk_table_ahab_v2", rng.sample(pool[("ecc", 384)], 4)),
                 ("srk_table_ahab_v2", rng.sample(pool[("rsa", 2048)], 4)),
                 ("srk_table_hab", rng.sample(pool[("rsa", 2048)], rng.choice([1, 4]))),
                 # HAB with EC keys: always a P-521 key (key-size field 0x0209), one with a leading-zero coordinate, optionally other curves
                 ("srk_table_hab", [rng.choice(pool[("ecc", 521)]), rng.choice(pool[("ecc_lz", 521)])]
                  + rng.sample(pool[("ecc", 256)] + pool[("ecc", 384)], rng.choice([0, 1, 2])))]
    for rt, keys in plan:
        if rt == "cert_block_21" and len({k.bits for k in keys}) > 1:
            continue
        fam, rev = rng.choice(by_type[rt])
        pw = rng.random() < 0.3 and rt != "srk_table_hab"
        bases = ["cert_der_none" if rt == "srk_table_hab" else ("priv_pem_pw" if pw else rng.choice(["pub_pem", "pub_der", "cert_der_none", "priv_pem", "nxp", "cert_pem_none"])) for _ in keys]
        files = [k.file(b, scratch) for k, b in zip(keys, bases)]
        args = ["rot", "calculate-hash", "-f", fam, "-r", rev]
        for f in files:
            args += ["-k", f]
        if pw:
            args += ["-p", PW]
        res = runner.invoke(nxpcrypto.main, args)
        m = re.search(r"RoT hash: '([0-9a-f]*)'", res.output or "")
        inp = kdesc(keys, bases, family=fam, revision=rev)
        s.note((fam, rev, tuple(k.id for k in keys), tuple(bases)), cls=rt)
        exp = spec_py(rt, keys).hex()
        s.expect(res.exit_code == 0 and m is not None and m.group(1) == exp, inp, "nxpcrypto rot calculate-hash does not print the documented RoT value",
                 (res.exit_code, m.group(1) if m else (res.output or "")[-200:]), exp)


def replay(ck, data):
    """The key sets recorded in the replay file are rebuilt (the cases carry the full test keys) and pushed through every tool path
    first; then the whole check runs (the codec / ISK / CLI failures are reached again by the generators for the same VERIF_SEED)."""
    sets, seen = [], set()
    for c in data.get("cases", []) + data.get("disagreements", []):
        inp = c.get("input") or {}
        ks = inp.get("keys") if isinstance(inp, dict) else None
        if ks and all(isinstance(k, dict) and ("d" in k or "p" in k) for k in ks):
            key = json.dumps(ks, sort_keys=True)
            if key not in seen:
                seen.add(key)
                sets.append(ks)
    run(ck, replay_sets=sets[:20])
