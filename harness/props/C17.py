"""C17 - secrets SPSDK invents are fresh for every artifact.

Obligations   : Properties/C17.lean over Generated/SecretSites.lean (every drawing site of /repo/spsdk with the time its
                expression is evaluated, regenerated from the AST by tools/extract/gen_C17.py).
Real code     : runs in a *worker* = a fresh interpreter started from this very file (`C17.py --worker`) in which
                `secrets.token_bytes/token_hex/randbelow/...` are replaced BEFORE spsdk is imported by a counting
                generator that returns recognisable tokens and records, for every draw, the spsdk call stack
                (so also the draws made while modules are imported are seen).
Streams
  import_time_draws  every spsdk module is imported under the counting RNG; the draws observed at import time
                     (module level / class body / default argument) must be exactly the early sites of the table.
  histories          random histories of 2..12 independent constructions (SB2.0/2.1, SBV2xAdvancedParams, encrypted MBI,
                     OTFAD / IEE / BEE blobs, HAB DEK / nonce, BootImgRT, key filler; constructors and load_from_config;
                     user-supplied vs defaulted values).  Oracle on the actual attribute / export bytes: no two
                     artifacts share a self-chosen value, user-supplied values are used verbatim.  Correspondence:
                     the observed trace (which draw of which site ends up in which artifact) is replayed on the Lean
                     model `run Generated.secretSites` and the sharing partition + early/per-call flags must agree.
  restart            (partial) two fresh interpreters WITHOUT the patch build the same artifacts; no value may repeat.
"""
from __future__ import annotations

import json
import os
import sys

UNIT = 4  # token = 4-byte unit encoding the draw number, repeated; every byte in 0x40..0x7f


def token(k: int, n: int) -> bytes:
    u = bytes(0x40 | ((k >> s) & 0x3F) for s in (18, 12, 6, 0))
    return (u * (n // UNIT + 1))[:n]


def decode_token(v: bytes, issued: int):
    """-> (k, matched_prefix_len) or (None, 0)"""
    if len(v) < UNIT or any(not 0x40 <= b < 0x80 for b in v[:UNIT]):
        return None, 0
    k = 0
    for b in v[:UNIT]:
        k = (k << 6) | (b & 0x3F)
    if k >= issued:
        return None, 0
    ref = token(k, len(v))
    m = 0
    while m < len(v) and v[m] == ref[m]:
        m += 1
    return k, m


# =====================================================================================================================
#                                                     WORKER
# =====================================================================================================================
class Worker:
    def __init__(self):
        self.draws = []  # k -> dict(stack=[(rel,line,kind)], ep=epoch)
        self.epoch = ("init", -1)
        self.repo = os.path.realpath(os.environ.get("SPSDK_REPO", "/repo"))
        self.patched = False
        self.scratch = None
        self.seq = 0
        self.objs = {}
        self.cur = None

    # ---------------------------------------------------------------- counting RNG
    def _record(self):
        k = len(self.draws)
        st = []
        f = sys._getframe(2)
        pre = self.repo + os.sep
        while f is not None and len(st) < 60:
            fn = f.f_code.co_filename
            if fn.startswith(pre) or os.path.realpath(fn).startswith(pre):
                rel = os.path.relpath(os.path.realpath(fn), self.repo).replace(os.sep, "/")
                if rel.startswith("spsdk/") and rel != "spsdk/crypto/rng.py":
                    # frame kind: f = function body, m = module level, c = class body
                    st.append((rel, f.f_lineno, "f" if f.f_code.co_flags & 0x2 else ("m" if f.f_code.co_name == "<module>" else "c")))
            f = f.f_back
        self.draws.append({"stack": st, "ep": self.epoch})
        return k

    def install_patch(self):
        import secrets
        w = self

        def token_bytes(nbytes=None):
            return token(w._record(), 32 if nbytes is None else nbytes)

        def token_hex(nbytes=None):
            return token(w._record(), 32 if nbytes is None else nbytes).hex()

        def token_urlsafe(nbytes=None):
            return token(w._record(), 32 if nbytes is None else nbytes).decode("ascii")

        def randbelow(n):
            return int.from_bytes(token(w._record(), 64), "big") % n

        def randbits(k):
            return int.from_bytes(token(w._record(), 64), "big") & ((1 << k) - 1)

        def choice(seq):
            return seq[w._record() % len(seq)]

        for name, fn in (("token_bytes", token_bytes), ("token_hex", token_hex), ("token_urlsafe", token_urlsafe),
                         ("randbelow", randbelow), ("randbits", randbits), ("choice", choice)):
            setattr(secrets, name, fn)
        # os.urandom: only when called directly from spsdk code (an rng.py built on os.urandom is a legitimate refactor)
        real_urandom = os.urandom
        pre = os.path.join(self.repo, "spsdk") + os.sep

        def urandom(n):
            fn = sys._getframe(1).f_code.co_filename
            if fn.startswith(pre) or os.path.realpath(fn).startswith(pre):
                return token(w._record(), n)
            return real_urandom(n)

        os.urandom = urandom
        self.patched = True

    # ---------------------------------------------------------------- helpers
    def describe(self, v: bytes, here):
        """Resolve a self-chosen value to the draw it came from."""
        k, m = decode_token(v, len(self.draws)) if self.patched else (None, 0)
        if k is None:
            return {"tok": None}
        d = self.draws[k]
        st = d["stack"]
        loc = f"{st[0][0]}:{st[0][1]}" if st else "?"
        via = self.early_expr(st)
        ep = d["ep"]
        if via is not None:
            when = "early"
        elif ep == here:
            when = "own"
        elif ep[0] == here[0] and isinstance(ep[1], int) and ep[1] >= 0:
            when = f"other:{ep[1]}"
        else:
            when = "early"
        return {"tok": k, "m": m, "loc": loc, "via": via or "", "when": when, "stack": [f"{r}:{ln}" for r, ln, _k in st[:16]]}

    @staticmethod
    def early_expr(st):
        """`file:line` of the module-level / class-body / default-argument expression a draw was made from ("" = the draw
        itself is that expression), None for a draw made from function bodies only.  A class body that is executed inside
        a function (class defined per call) does not count."""
        for i, (rel, line, kind) in enumerate(st):
            if kind == "f":
                continue
            j = i
            while j < len(st) and st[j][2] == "c":
                j += 1
            if j < len(st) and st[j][2] == "m":
                return "" if i == 0 else f"{rel}:{line}"
            return None
        return None

    def setup_files(self, scratch, reuse):
        from spsdk.crypto.certificate import Certificate, generate_name
        from spsdk.crypto.crypto_types import SPSDKEncoding
        from spsdk.crypto.keys import PrivateKeyRsa
        self.scratch = scratch
        kp, cp = os.path.join(scratch, "k.pem"), os.path.join(scratch, "c.der")
        if not (reuse and os.path.exists(kp) and os.path.exists(cp)):
            key = PrivateKeyRsa.generate_key(key_size=2048)
            name = generate_name([{"COMMON_NAME": "verif"}])
            cert = Certificate.generate_certificate(subject=name, issuer=name, subject_public_key=key.get_public_key(), issuer_private_key=key)
            key.save(kp)
            cert.save(cp, SPSDKEncoding.DER)
            with open(os.path.join(scratch, "app.bin"), "wb") as fh:
                fh.write(bytes(range(256)) * 4)
            with open(os.path.join(scratch, "in.bin"), "wb") as fh:
                fh.write(bytes(4096))

    # ---------------------------------------------------------------- builders: spec -> list of (field, value bytes, supplied hex or None)
    def build(self, spec):
        t = spec["t"]
        sup = {k: bytes.fromhex(v) for k, v in spec.get("sup", {}).items()}
        return getattr(self, "b_" + t)(spec, sup)

    @staticmethod
    def _o(name, val, sup):
        return (name, None if val is None else bytes(val), sup.get(name))

    def _adv(self, sup):
        from spsdk.sbfile.sb2.images import SBV2xAdvancedParams
        return SBV2xAdvancedParams(dek=sup.get("dek"), mac=sup.get("mac"), nonce=sup.get("nonce"), padding=sup.get("padding"))

    def b_advparams(self, spec, sup):
        p = self._adv(sup)
        return [self._o("dek", p.dek, sup), self._o("mac", p.mac, sup), self._o("nonce", p.nonce, sup), self._o("padding", p.padding, sup)]

    def b_sb20(self, spec, sup):
        from spsdk.sbfile.sb2.commands import CmdErase, CmdLoad, CmdReset
        from spsdk.sbfile.sb2.images import BootImageV20, BootSectionV2
        kek = bytes.fromhex(spec["kek"])
        kw = {} if spec["adv"] == "default" else {"advanced_params": self._adv(sup)}
        secs = []
        if spec.get("export"):
            secs = [BootSectionV2(0, CmdErase(address=0, length=4096), CmdLoad(address=0x100, data=bytes(64)), CmdReset(), hmac_count=1)]
        img = BootImageV20(False, kek, *secs, **kw)
        out = [self._o("dek", img.dek, sup), self._o("mac", img.mac, sup), self._o("nonce", img.header.nonce, sup)]
        if spec.get("export"):
            data = img.export()
            out += [("x_nonce", data[0:16], sup.get("nonce")), ("x_pad", data[16:20], None), ("x_pad2", data[200:208], None)]
            back = BootImageV20.parse(data, kek=kek)
            out += [("x_dek", back.dek, sup.get("dek")), ("x_mac", back.mac, sup.get("mac"))]
        return out

    def b_sb21(self, spec, sup):
        from spsdk.sbfile.sb2.images import BootImageV21
        kw = {} if spec["adv"] == "default" else {"advanced_params": self._adv(sup)}
        img = BootImageV21(bytes.fromhex(spec["kek"]), **kw)
        return [self._o("dek", img.dek, sup), self._o("mac", img.mac, sup), self._o("nonce", img.header.nonce, sup),
                self._o("padding", img.header.padding, sup)]

    def b_sb21_cfg(self, spec, sup):
        from spsdk.sbfile.sb2.images import BootImageV21
        opts = {"flags": 0x8, "buildNumber": 1, "productVersion": "1.0.0", "componentVersion": "1.0.0"}
        for k in ("dek", "mac", "nonce"):
            if k in sup:
                opts[k] = sup[k].hex()
        if "padding" in sup:
            opts["zeroPadding"] = True
        cfg = {"family": "rt5xx", "options": opts, "rootCertificate0File": "c.der", "mainRootCertId": 0, "mainCertPrivateKeyFile": "k.pem",
               "signPrivateKey": "k.pem", "containerKeyBlobEncryptionKey": spec["kek"], "RKTHOutputPath": os.path.join(self.scratch, "hash.bin"),
               "sections": [{"section_id": 0, "options": [], "commands": [{"erase": {"address": 0, "length": 4096}},
                                                                          {"load": {"address": 0x100, "file": "app.bin"}}]}]}
        img = BootImageV21.load_from_config(cfg, search_paths=[self.scratch])
        out = [self._o("dek", img.dek, sup), self._o("mac", img.mac, sup), self._o("nonce", img.header.nonce, sup),
               self._o("padding", img.header.padding, sup)]
        if spec.get("export"):
            data = img.export()
            out += [("x_nonce", data[0:16], sup.get("nonce"))]
        return out

    def b_mbi(self, spec, sup):
        from spsdk.image.mbi.mbi import create_mbi_class
        cls = create_mbi_class("encrypted_signed_ram", spec["family"])
        kw = {"hmac_key": spec["key"]}
        if spec["iv"] == "given":
            kw["ctr_init_vector"] = sup["ctr_init_vector"]
        elif spec["iv"] == "none":
            kw["ctr_init_vector"] = None
        m = cls(**kw)
        self.cur = {"obj": m, "data": None}
        return [self._o("ctr_init_vector", m.ctr_init_vector, sup)]

    def _mbi_cfg(self, spec, sup):
        cfg = {"family": spec["family"], "revision": "latest", "outputImageExecutionTarget": "load-to-ram",
               "outputImageAuthenticationType": "signed-encrypted", "masterBootOutputFile": "mbi.bin", "inputImageFile": "app.bin",
               "outputImageExecutionAddress": 0x80000, "enableHwUserModeKeys": False, "enableTrustZone": False,
               "rootCertificate0File": "c.der", "mainRootCertId": 0, "signPrivateKey": "k.pem", "outputImageEncryptionKeyFile": spec["key"]}
        if "ctr_init_vector" in sup:
            cfg["CtrInitVector"] = "0x" + sup["ctr_init_vector"].hex()
        return cfg

    def _mbi_obs(self, m, spec, sup):
        out = [self._o("ctr_init_vector", m.ctr_init_vector, sup)]
        data = None
        if spec.get("export"):
            data = m.export()
            iv = m.ctr_init_vector
            pos = data.find(iv)
            out.append(("x_iv", data[pos:pos + 16] if pos >= 0 else b"", sup.get("ctr_init_vector")))
        self.cur = {"obj": m, "data": data}
        return out

    def b_mbi_cfg(self, spec, sup):
        from spsdk.image.mbi.mbi import get_mbi_class
        cfg = self._mbi_cfg(spec, sup)
        m = get_mbi_class(cfg)()
        m.load_from_config(cfg, search_paths=[self.scratch])
        return self._mbi_obs(m, spec, sup)

    def b_mbi_cli(self, spec, sup):
        """`nxpimage mbi export -c cfg.yaml` through click's CliRunner; the IV is read back from the written image"""
        import yaml
        from click.testing import CliRunner
        from spsdk.apps import nxpimage
        from spsdk.image.mbi.mbi import MasterBootImage
        cfg = self._mbi_cfg(spec, sup)
        for k in ("rootCertificate0File", "mainRootCertId"):
            cfg.pop(k)
        cfg["certBlock"] = "cert_block.yaml"
        self.seq += 1
        cfg["masterBootOutputFile"] = f"cli_{self.seq}.bin"
        with open(os.path.join(self.scratch, "cert_block.yaml"), "w") as fh:
            fh.write(yaml.safe_dump({"rootCertificate0File": "c.der", "mainRootCertId": 0, "imageBuildNumber": 0}))
        path = os.path.join(self.scratch, f"cli_{self.seq}.yaml")
        with open(path, "w") as fh:
            fh.write(yaml.safe_dump(cfg))
        r = CliRunner().invoke(nxpimage.main, ["mbi", "export", "-c", path])
        out = os.path.join(self.scratch, cfg["masterBootOutputFile"])
        if r.exit_code != 0 or not os.path.exists(out):
            raise RuntimeError(f"nxpimage mbi export failed: exit {r.exit_code} {type(r.exception).__name__ if r.exception else ''}")
        with open(out, "rb") as fh:
            data = fh.read()
        os.remove(out)
        os.remove(path)
        p = MasterBootImage.parse(spec["family"], data, dek=spec["key"])
        return [self._o("ctr_init_vector", p.ctr_init_vector, sup)]

    # ---- a builder object that already produced artifact A is used again for artifact B
    def b_mbi_reload(self, spec, sup):
        """`obj.load_from_config(cfgB)` on the object of an earlier build (optionally exported in between)."""
        src = self.objs[spec["reuse"]]
        m = src["obj"]
        if spec.get("export_before"):
            m.export()
        m.load_from_config(self._mbi_cfg(spec, sup), search_paths=[self.scratch])
        return self._mbi_obs(m, spec, sup)

    def b_mbi_setiv(self, spec, sup):
        """`obj.ctr_init_vector = None` (documented: "if not specified the random value is used") or a new user value."""
        m = self.objs[spec["reuse"]]["obj"]
        m.ctr_init_vector = sup.get("ctr_init_vector")
        self.cur = {"obj": m, "data": None}
        return [self._o("ctr_init_vector", m.ctr_init_vector, sup)]

    def b_mbi_parse(self, spec, sup):
        """`MasterBootImage.parse(export of A)`: the IV is carried in by the data (field prefix d_ = given by the data)."""
        from spsdk.image.mbi.mbi import MasterBootImage
        src = self.objs[spec["reuse"]]
        data = src["data"] if src["data"] is not None else src["obj"].export()
        iv_a = src["obj"].ctr_init_vector
        p = MasterBootImage.parse(spec["family"], data, dek=spec["key"])
        self.cur = {"obj": p, "data": None}
        return [("d_ctr_init_vector", p.ctr_init_vector, iv_a)]

    def b_otfad(self, spec, sup):
        from spsdk.utils.crypto.otfad import KeyBlob
        kb = KeyBlob(start_addr=0x08001000, end_addr=0x0800F3FF, key=sup.get("key"), counter_iv=sup.get("counter_iv"), zero_fill=sup.get("filler"))
        pd = kb.plain_data()
        return [self._o("key", kb.key, sup), self._o("counter_iv", kb.ctr_init_vector, sup), self._o("filler", pd[32:36], sup),
                ("x_key", pd[0:16], sup.get("key")), ("x_ctr", pd[16:24], sup.get("counter_iv"))]

    def b_otfad_cfg(self, spec, sup):
        from spsdk.utils.crypto.otfad import OtfadNxp
        cfg = {"family": spec["family"], "kek": spec["kek"], "otfad_table_address": 0x30000000, "output_folder": self.scratch,
               "key_blobs": [{"aes_key": "0x" + sup["key"].hex(), "aes_ctr": "0x" + sup["counter_iv"].hex(), "start_address": 0x30001000,
                              "end_address": 0x30001FFF}]}
        o = OtfadNxp.load_from_config(cfg, self.scratch, [self.scratch])
        kb = o[0]
        return [self._o("key", kb.key, sup), self._o("counter_iv", kb.ctr_init_vector, sup)]

    def _iee_attr(self, spec):
        from spsdk.utils.crypto.iee import IeeKeyBlobAttribute, IeeKeyBlobKeyAttributes, IeeKeyBlobLockAttributes, IeeKeyBlobModeAttributes
        return IeeKeyBlobAttribute(IeeKeyBlobLockAttributes.UNLOCK, IeeKeyBlobKeyAttributes.from_label(spec["key_size"]),
                                   IeeKeyBlobModeAttributes.from_label(spec["mode"]))

    def b_iee(self, spec, sup):
        from spsdk.utils.crypto.iee import IeeKeyBlob
        kb = IeeKeyBlob(self._iee_attr(spec), 0x30001000, 0x30008000, key1=sup.get("key1"), key2=sup.get("key2"))
        return [self._o("key1", kb.key1, sup), self._o("key2", kb.key2, sup)]

    def b_iee_cfg(self, spec, sup):
        from spsdk.utils.crypto.iee import IeeNxp
        cfg = {"family": spec["family"], "keyblob_address": 0x30000000, "output_folder": self.scratch,
               "key_blobs": [{"aes_mode": spec["mode"], "key_size": spec["key_size"], "key1": ("0x" + sup["key1"].hex()) if "key1" in sup else "",
                              "key2": ("0x" + sup["key2"].hex()) if "key2" in sup else "", "start_address": 0x30001000, "end_address": 0x30008000}]}
        kb = IeeNxp.load_from_config(cfg, self.scratch, [self.scratch])[0]
        return [self._o("key1", kb.key1, sup), self._o("key2", kb.key2, sup)]

    def b_bee_prdb(self, spec, sup):
        from spsdk.image.bee import BeeProtectRegionBlock
        p = BeeProtectRegionBlock(counter=sup.get("counter"))
        return [self._o("counter", p.counter, sup)]

    def b_bee_kib(self, spec, sup):
        from spsdk.image.bee import BeeKIB
        k = BeeKIB(kib_key=sup.get("kib_key"), kib_iv=sup.get("kib_iv"))
        return [self._o("kib_key", k.kib_key, sup), self._o("kib_iv", k.kib_iv, sup)]

    def b_bee_hdr(self, spec, sup):
        from spsdk.image.bee import BeeRegionHeader
        h = BeeRegionHeader(sw_key=sup.get("sw_key"))
        return [self._o("sw_key", h._sw_key, sup), self._o("counter", h._prdb.counter, sup), self._o("kib_key", h._kib.kib_key, sup),
                self._o("kib_iv", h._kib.kib_iv, sup)]

    def b_bee_cfg(self, spec, sup):
        from spsdk.image.bee import BeeNxp
        cfg = {"family": spec["family"], "input_binary": "in.bin", "engine_selection": "engine0", "base_address": 0x60001000, "bee_engine": [
            {"bee_cfg": {"user_key": ("0x" + sup["sw_key"].hex()) if "sw_key" in sup else "",
                         "protected_region": [{"start_address": 0x60001000, "length": 0x1000, "protected_level": 0}]}}]}
        h = BeeNxp.load_from_config(cfg, [self.scratch]).headers[0]
        return [self._o("sw_key", h._sw_key, sup), self._o("counter", h._prdb.counter, sup), self._o("kib_key", h._kib.kib_key, sup),
                self._o("kib_iv", h._kib.kib_iv, sup)]

    # ---- ONE call that serves SEVERAL artifacts: observations are tagged `a<n>.field` (n = artifact of the call)
    @staticmethod
    def _aes(key, data, iv=None):
        from cryptography.hazmat.primitives.ciphers import Cipher, algorithms, modes
        dec = Cipher(algorithms.AES(key), modes.ECB() if iv is None else modes.CBC(iv)).decryptor()
        return dec.update(data) + dec.finalize()

    def b_bee_multi(self, spec, sup):
        """BeeNxp.load_from_config for engine0 / engine1 / both; the KIB and the PRDB counter are also decoded from the exported
        region headers with the user key (independent of the object graph)."""
        from spsdk.image.bee import BeeNxp
        engines = []
        for e in range(spec["n_engines"]):
            uk = sup.get(f"a{e}.sw_key")
            engines.append({"bee_cfg": {"user_key": ("0x" + uk.hex()) if uk is not None else "",
                                        "protected_region": [{"start_address": 0x60001000 + 0x1000 * e, "length": 0x1000, "protected_level": 0}]}})
        cfg = {"family": spec["family"], "input_binary": "in.bin", "engine_selection": spec["selection"], "base_address": 0x60001000,
               "bee_engine": engines}
        bee = BeeNxp.load_from_config(cfg, [self.scratch])
        exported = bee.export_headers()
        out = []
        for h, hdr in enumerate(bee.headers):
            if hdr is None:
                continue
            cfg_idx = h if h < len(engines) else 0  # engine1 alone with one configured engine uses the first entry
            supv = sup.get(f"a{cfg_idx}.sw_key")
            out += [(f"a{h}.sw_key", hdr._sw_key, supv), (f"a{h}.counter", hdr._prdb.counter, None),
                    (f"a{h}.kib_key", hdr._kib.kib_key, None), (f"a{h}.kib_iv", hdr._kib.kib_iv, None)]
            raw = exported[h]
            key = supv if supv is not None else hdr._sw_key
            kib = self._aes(key, raw[0:32])
            prdb = self._aes(kib[0:16], raw[0x80:0x180], kib[16:32])
            from spsdk.image.bee import BeeProtectRegionBlock
            out += [(f"a{h}.x_kib_key", kib[0:16], None), (f"a{h}.x_kib_iv", kib[16:32], None),
                    (f"a{h}.x_counter", BeeProtectRegionBlock.parse(prdb).counter, None)]
        return out

    def b_iee_multi(self, spec, sup):
        """IeeNxp.load_from_config with 1..4 key blobs; keys also read from the plain key blob table"""
        from spsdk.utils.crypto.iee import IeeNxp
        blobs = []
        for i, b in enumerate(spec["blobs"]):
            k1, k2 = sup.get(f"a{i}.key1"), sup.get(f"a{i}.key2")
            blobs.append({"aes_mode": b["mode"], "key_size": b["key_size"], "key1": ("0x" + k1.hex()) if k1 is not None else "",
                          "key2": ("0x" + k2.hex()) if k2 is not None else "", "start_address": 0x30001000 + 0x10000 * i,
                          "end_address": 0x30008000 + 0x10000 * i})
        cfg = {"family": spec["family"], "keyblob_address": 0x30000000, "output_folder": self.scratch, "key_blobs": blobs}
        iee = IeeNxp.load_from_config(cfg, self.scratch, [self.scratch])
        table = iee.get_key_blobs()
        out = []
        stride = len(iee[0].plain_data())
        for i in range(len(blobs)):
            kb = iee[i]
            rec = table[i * stride:(i + 1) * stride]
            out += [(f"a{i}.key1", kb.key1, sup.get(f"a{i}.key1")), (f"a{i}.key2", kb.key2, sup.get(f"a{i}.key2")),
                    (f"a{i}.x_key1", rec[16:16 + len(kb.key1)], sup.get(f"a{i}.key1")), (f"a{i}.x_key2", rec[48:48 + len(kb.key2)], sup.get(f"a{i}.key2"))]
        return out

    def b_otfad_multi(self, spec, sup):
        """OtfadNxp with 1..4 key blobs (keys / counters / fillers self-chosen or given); read back from the plain key blob table"""
        from spsdk.utils.crypto.otfad import KeyBlob, OtfadNxp
        blobs = [KeyBlob(start_addr=0x30001000 + 0x1000 * i, end_addr=0x30001FFF + 0x1000 * i, key=sup.get(f"a{i}.key"),
                         counter_iv=sup.get(f"a{i}.counter_iv"), zero_fill=sup.get(f"a{i}.filler")) for i in range(spec["n"])]
        otfad = OtfadNxp(family=spec["family"], kek=bytes.fromhex(spec["kek"]), table_address=0x30000000, key_blobs=blobs)
        table = otfad.get_key_blobs()
        out = []
        for i in range(spec["n"]):
            rec = table[64 * i:64 * (i + 1)]
            out += [(f"a{i}.key", otfad[i].key, sup.get(f"a{i}.key")), (f"a{i}.counter_iv", otfad[i].ctr_init_vector, sup.get(f"a{i}.counter_iv")),
                    (f"a{i}.x_key", rec[0:16], sup.get(f"a{i}.key")), (f"a{i}.x_ctr", rec[16:24], sup.get(f"a{i}.counter_iv")),
                    (f"a{i}.filler", rec[32:36], sup.get(f"a{i}.filler"))]
        return out

    def b_hab_nonce(self, spec, sup):
        from spsdk.image.hab.segments import CsfHabSegment
        return [("nonce", CsfHabSegment.generate_nonce(bytes(spec["len"])), None)]

    def b_hab_dek(self, spec, sup):
        from spsdk.image.hab.commands.commands_enum import SecCommand
        from spsdk.image.hab.hab_config import CommandsConfig, HabConfig
        from spsdk.image.hab.segments import CsfHabSegment
        from spsdk.utils.images import BinaryImage
        self.seq += 1
        name = f"dek{self.seq}.bin"
        opts = [{"SecretKey_Name": name}, {"SecretKey_Length": spec["bits"]}]
        if "dek" in sup:
            with open(os.path.join(self.scratch, name), "wb") as fh:
                fh.write(sup["dek"])
            opts.append({"SecretKey_ReuseDek": 1})
        cmds = CommandsConfig.load_from_config({"sections": [{"section_id": SecCommand.INSTALL_SECRET_KEY.tag, "options": opts}]})
        cfg = HabConfig(app_image=BinaryImage("app", binary=bytes(64)), options=None, commands=cmds)  # type: ignore[arg-type]
        dek = CsfHabSegment.get_dek_from_config(cfg, search_paths=[self.scratch])
        with open(os.path.join(self.scratch, name), "rb") as fh:
            on_disk = fh.read()
        os.remove(os.path.join(self.scratch, name))
        return [self._o("dek", dek, sup), ("x_dek", on_disk, sup.get("dek"))]

    def setup_hab(self):
        """full encrypted HAB container: configuration, SRK table, certificates and keys of the repository's test data"""
        import shutil
        src = os.path.join(self.repo, "tests", "nxpimage", "data", "hab", "export")
        dst = os.path.join(self.scratch, "hab")
        if not os.path.isdir(dst):
            for n in ("rt1160_RAM_encrypted", "keys", "crts"):
                shutil.copytree(os.path.join(src, n), os.path.join(dst, n))
        self.hab_dir = os.path.join(dst, "rt1160_RAM_encrypted")
        self.hab_conf = {}

    def b_hab_cfg(self, spec, sup):
        """HabContainer.load_configuration + load_from_config + export (Install Secret Key / Decrypt Data with or without user DEK / nonce)"""
        import copy
        import yaml
        from spsdk.image.hab.hab_container import HabContainer
        from spsdk.utils.misc import load_configuration
        if getattr(self, "hab_dir", None) is None:
            self.setup_hab()
        wd = self.hab_dir
        self.seq += 1
        dek_name, nonce_name = f"gen_hab_encrypt/dek_{self.seq}.bin", f"gen_hab_encrypt/nonce_{self.seq}.bin"
        key = ("dek" in sup, "nonce" in sup, spec["bits"])
        if key not in self.hab_conf:
            cfg = load_configuration(os.path.join(wd, "config_pk_simplified.yaml"))
            for sec in cfg["sections"]:
                if "SecretKey" in sec:
                    sec["SecretKey"].update({"SecretKey_ReuseDek": 1 if "dek" in sup else 0, "SecretKey_Name": "@DEK@", "SecretKey_Length": spec["bits"]})
                if "Decrypt" in sec:
                    sec["Decrypt"].pop("Decrypt_Nonce", None)
                    if "nonce" in sup:
                        sec["Decrypt"]["Decrypt_Nonce"] = "@NONCE@"
            path = os.path.join(wd, f"cfg_{len(self.hab_conf)}.yaml")
            with open(path, "w") as fh:
                fh.write(yaml.safe_dump(cfg))
            self.hab_conf[key] = HabContainer.load_configuration(path, None, search_paths=[wd])
        conf = json.loads(json.dumps(self.hab_conf[key]).replace("@DEK@", dek_name).replace("@NONCE@", nonce_name))
        if "dek" in sup:
            with open(os.path.join(wd, dek_name), "wb") as fh:
                fh.write(sup["dek"])
        if "nonce" in sup:
            with open(os.path.join(wd, nonce_name), "wb") as fh:
                fh.write(sup["nonce"])
        hab = HabContainer.load_from_config(conf, search_paths=[wd])
        data = hab.export()
        cs = hab.csf_segment
        with open(os.path.join(wd, dek_name), "rb") as fh:
            on_disk = fh.read()
        for n in (dek_name, nonce_name):
            if os.path.exists(os.path.join(wd, n)):
                os.remove(os.path.join(wd, n))
        pos = data.find(cs.nonce)
        return [self._o("dek", cs.dek, sup), self._o("nonce", cs.nonce, sup), ("x_dek", on_disk, sup.get("dek")),
                ("x_nonce", data[pos:pos + len(cs.nonce)] if pos >= 0 else b"", sup.get("nonce"))]

    def b_bootimg_rt(self, spec, sup):
        from spsdk.image.images import BootImgRT
        img = BootImgRT(0x20000000)
        img.add_image(bytes(1024), address=0x20000000, dek_key=sup.get("dek", b""), nonce=sup.get("nonce"))
        return [self._o("dek", img.dek_key, sup), self._o("nonce", img._nonce, sup)]

    def b_filler(self, spec, sup):
        from spsdk.utils.misc import load_hex_string
        v = load_hex_string(("0x" + sup["value"].hex()) if "value" in sup else None, spec["len"])
        return [self._o("value", v, sup)]

    def b_fill_rand(self, spec, sup):
        from spsdk.utils.misc import align_block_fill_random
        n = spec["len"]
        return [("value", align_block_fill_random(bytes(n), 16)[n:], None)]

    def b_sb1(self, spec, sup):
        from spsdk.sbfile.sb1.images import SecureBootV1
        img = SecureBootV1(version="1.0", dek=sup.get("dek"), mac=sup.get("mac"))
        return [self._o("dek", img._dek, sup), self._o("mac", img._mac, sup)]

    # ---------------------------------------------------------------- rebuilds into ONE directory (the DEK file of build k is there for build k+1)
    SAME_BD_DIR = "rt1165_semcnand_encrypted_random"
    SAME_BD_DEK = os.path.join("gen_hab_encrypt", "evkmimxrt1064_iled_blinky_SDRAM_hab_dek.bin")
    SAME_BD_APP = "evkmimxrt1064_iled_blinky_SDRAM.s19"

    def samedir_prepare(self, item):
        import shutil
        d = item["dir"]
        if item.get("fresh", True):
            shutil.rmtree(d, ignore_errors=True)
            if item["mode"] == "container":
                src = os.path.join(self.repo, "tests", "nxpimage", "data", "hab", "export")
                shutil.copytree(os.path.join(src, self.SAME_BD_DIR), d)
                for n in ("keys", "crts"):
                    shutil.copytree(os.path.join(src, n), os.path.join(d, n))
                with open(os.path.join(d, "config.bd")) as fh:
                    bd = fh.read()
                assert "SecretKey_TargetIndex=0)" in bd and "reusedek" not in bd.lower()
                with open(os.path.join(d, "config_reuse.bd"), "w") as fh:
                    fh.write(bd.replace("SecretKey_TargetIndex=0)", "SecretKey_TargetIndex=0,\n    SecretKey_ReuseDek=true)"))
            else:
                os.makedirs(d)
            if item.get("init"):
                self._write(self.samedir_file(item), bytes.fromhex(item["init"]))

    def samedir_file(self, item):
        return os.path.join(item["dir"], self.SAME_BD_DEK if item["mode"] == "container" else "hab_dek.bin")

    @staticmethod
    def _write(path, data):
        os.makedirs(os.path.dirname(path), exist_ok=True)
        with open(path, "wb") as fh:
            fh.write(data)

    @staticmethod
    def _read(path):
        if not os.path.exists(path):
            return None
        with open(path, "rb") as fh:
            return fh.read()

    def samedir_build(self, item, reuse):
        d = item["dir"]
        if item["mode"] == "container":
            # exactly what `nxpimage hab export -c config.bd <app>` does
            from spsdk.image.hab.hab_container import HabContainer
            cfg_path = os.path.join(d, "config_reuse.bd" if reuse else "config.bd")
            config = HabContainer.load_configuration(cfg_path, [os.path.join(d, self.SAME_BD_APP)], search_paths=[d])
            hab = HabContainer.load_from_config(config, search_paths=[d])
            image = hab.export()
            if not (hab.is_encrypted and image):
                raise RuntimeError("container is not encrypted / empty")
            return hab.csf_segment.dek
        from spsdk.image.hab.commands.commands_enum import SecCommand
        from spsdk.image.hab.hab_config import CommandsConfig, HabConfig
        from spsdk.image.hab.segments import CsfHabSegment
        from spsdk.utils.images import BinaryImage
        opts = [{"SecretKey_Name": "hab_dek.bin"}, {"SecretKey_Length": item["bits"]}]
        if reuse:
            opts.append({"SecretKey_ReuseDek": 1})
        cmds = CommandsConfig.load_from_config({"sections": [{"section_id": SecCommand.INSTALL_SECRET_KEY.tag, "options": opts}]})
        cfg = HabConfig(app_image=BinaryImage("app", binary=bytes(64)), options=None, commands=cmds)  # type: ignore[arg-type]
        return CsfHabSegment.get_dek_from_config(cfg, search_paths=[d])

    def run_samedir(self, item):
        from spsdk.exceptions import SPSDKError
        self.samedir_prepare(item)
        path = self.samedir_file(item)
        out = []
        for si, st in enumerate(item["steps"]):
            self.epoch = (item["id"], si)
            here = self.epoch
            before = self._read(path)
            rec = {"step": st, "before": None if before is None else before.hex()}
            if st.startswith("p"):
                self._write(path, bytes.fromhex(st[1:]))
            elif st == "x":
                if os.path.exists(path):
                    os.remove(path)
            else:
                try:
                    dek = self.samedir_build(item, st == "b1")
                    rec["dek"] = None if dek is None else bytes(dek).hex()
                    if dek is not None:
                        rec.update(self.describe(bytes(dek), here))
                except SPSDKError as exc:
                    rec["err"] = f"E:spsdk {str(exc)[:100]}"
                except Exception as exc:  # noqa: BLE001
                    rec["err"] = f"E:other {type(exc).__name__} {str(exc)[:100]}"
            after = self._read(path)
            rec["after"] = None if after is None else after.hex()
            self.epoch = (item["id"], -1)
            out.append(rec)
        return {"id": item["id"], "steps": out}

    # ---------------------------------------------------------------- commands
    def run_history(self, hid, builds):
        from spsdk.exceptions import SPSDKError
        res = []
        n0 = len(self.draws)
        self.objs = {}
        for bi, spec in enumerate(builds):
            self.epoch = (hid, bi)
            here = self.epoch
            self.cur = None
            try:
                obs = self.build(spec)
                err = None
                if self.cur is not None:
                    self.objs[bi] = self.cur
            except SPSDKError as exc:
                obs, err = [], f"E:spsdk {str(exc)[:120]}"
            except Exception as exc:  # noqa: BLE001
                obs, err = [], f"E:other {type(exc).__name__} {str(exc)[:120]}"
            self.epoch = (hid, -1)
            out = []
            for name, val, supv in obs:
                o = {"f": name, "v": None if val is None else val.hex(), "sup": None if supv is None else supv.hex()}
                if supv is None and val is not None:
                    o.update(self.describe(val, here))
                out.append(o)
            res.append({"err": err, "obs": out})
        locs = {}
        for d in self.draws[n0:]:
            st = d["stack"]
            key = f"{st[0][0]}:{st[0][1]}" if st else "?"
            locs[key] = locs.get(key, 0) + 1
        return {"id": hid, "builds": res, "draw_locs": locs}

    def import_all(self):
        import importlib
        self.epoch = ("import", -1)
        n0 = len(self.draws)
        mods = []
        root = os.path.join(self.repo, "spsdk")
        for d, dirs, fs in sorted(os.walk(root)):
            dirs.sort()
            for f in sorted(fs):
                if not f.endswith(".py"):
                    continue
                rel = os.path.relpath(os.path.join(d, f), self.repo).replace(os.sep, "/")
                parts = rel[:-3].split("/")
                if parts[-1] == "__init__":
                    parts = parts[:-1]
                name = ".".join(parts)
                try:
                    importlib.import_module(name)
                    ok = True
                except BaseException:  # noqa: BLE001  optional dependencies are missing for some modules
                    ok = False
                mods.append({"rel": rel, "ok": ok})
        return {"modules": mods, "draws": self.early_draws(0), "during_this_call": len(self.draws) - n0}

    def early_draws(self, start):
        out = []
        for k, d in enumerate(self.draws[start:], start):
            st = d["stack"]
            via = self.early_expr(st) if st else None
            if via is None:
                continue
            out.append({"k": k, "loc": f"{st[0][0]}:{st[0][1]}", "via": via, "file": (via or f"{st[0][0]}:0").rsplit(":", 1)[0], "ep": d["ep"][0]})
        return out

    def rng_probe(self):
        out = []

        def probe(fn_name, n, check):
            k0 = len(self.draws)
            try:
                from spsdk.crypto import rng
                v = getattr(rng, fn_name)(n)
                out.append({"fn": fn_name, "n": n, "drew": len(self.draws) - k0, "ok": bool(check(v, k0))})
            except Exception as exc:  # noqa: BLE001
                out.append({"fn": fn_name, "n": n, "drew": len(self.draws) - k0, "ok": False, "err": type(exc).__name__})

        for n in (1, 4, 8, 12, 16, 32, 33):
            probe("random_bytes", n, lambda v, k0, n=n: v == token(k0, n))
            probe("random_hex", n, lambda v, k0, n=n: v == token(k0, n).hex())
        probe("rand_below", 1000, lambda v, k0: 0 <= v < 1000)
        # the same request twice never gives the same answer
        try:
            from spsdk.crypto import rng
            a, b = rng.random_bytes(16), rng.random_bytes(16)
            out.append({"fn": "random_bytes twice", "n": 16, "drew": 1, "ok": a != b})
        except Exception as exc:  # noqa: BLE001
            out.append({"fn": "random_bytes twice", "n": 16, "drew": 0, "ok": False, "err": type(exc).__name__})
        return out

    def serve(self):
        import logging
        proto = os.fdopen(os.dup(1), "w")
        os.dup2(2, 1)
        sys.stdout = sys.stderr
        for line in sys.stdin:
            line = line.strip()
            if not line:
                continue
            req = json.loads(line)
            cmd = req["cmd"]
            try:
                if cmd == "init":
                    if req["patch"]:
                        self.install_patch()
                    logging.disable(logging.CRITICAL)
                    import spsdk  # noqa: F401
                    from spsdk.crypto import rng  # noqa: F401
                    self.setup_files(req["scratch"], req.get("reuse", False))
                    ans = {"ok": True, "draws_so_far": len(self.draws)}
                elif cmd == "import_all":
                    ans = self.import_all()
                elif cmd == "rng_probe":
                    ans = self.rng_probe()
                elif cmd == "histories":
                    ans = [self.run_history(h["id"], h["builds"]) for h in req["items"]]
                elif cmd == "samedir":
                    ans = [self.run_samedir(it) for it in req["items"]]
                elif cmd == "quit":
                    break
                else:
                    ans = {"error": "bad cmd"}
            except Exception as exc:  # noqa: BLE001
                import traceback
                ans = {"error": f"{type(exc).__name__}: {exc}", "tb": traceback.format_exc()[-1500:]}
            proto.write(json.dumps(ans) + "\n")
            proto.flush()


# =====================================================================================================================
#                                                     HARNESS
# =====================================================================================================================
class WorkerProc:
    def __init__(self, scratch, patch=True, reuse=False):
        import subprocess
        env = dict(os.environ)
        self.p = subprocess.Popen([sys.executable, os.path.abspath(__file__), "--worker"], stdin=subprocess.PIPE, stdout=subprocess.PIPE,
                                  stderr=subprocess.DEVNULL, text=True, env=env)
        self.init = self.ask({"cmd": "init", "patch": patch, "scratch": scratch, "reuse": reuse}, soft=True)

    def ask(self, req, soft=False):
        from vcore import Infra
        self.p.stdin.write(json.dumps(req) + "\n")
        self.p.stdin.flush()
        line = self.p.stdout.readline()
        if not line:
            raise Infra("C17 worker died")
        ans = json.loads(line)
        if isinstance(ans, dict) and ans.get("error") and not soft:
            raise Infra("C17 worker error: " + ans["error"] + "\n" + ans.get("tb", ""))
        return ans

    def close(self):
        try:
            self.p.stdin.write(json.dumps({"cmd": "quit"}) + "\n")
            self.p.stdin.close()
            self.p.wait(timeout=10)
        except Exception:  # noqa: BLE001
            self.p.kill()


MBI_FAMILIES = ["mimxrt595s", "mimxrt685s", "rt5xx", "rt6xx"]
# the full HAB container build needs the SRK table / certificates / keys of the repository's test data
HAB_DATA = os.path.isdir(os.path.join(os.environ.get("SPSDK_REPO", "/repo"), "tests", "nxpimage", "data", "hab", "export", "rt1160_RAM_encrypted"))


def rhex(rng, n):
    # user-supplied values: never look like a token (first byte >= 0x80), never all zero
    return bytes([0x80 | rng.getrandbits(7)] + [rng.getrandbits(8) for _ in range(n - 1)]).hex()


def subset(rng, fields, p_none=0.45, p_all=0.1):
    r = rng.random()
    if r < p_none:
        return []
    if r < p_none + p_all:
        return list(fields)
    return [f for f in fields if rng.random() < 0.4]


def gen_build(rng, keys):
    """One independent construction.  `keys` = a few user keys reused across builds (same KEK / HMAC key for several
    images is the normal situation and makes values *derived from user input* collide)."""
    t = rng.choices(["sb20", "sb21", "sb21_cfg", "advparams", "mbi", "mbi_cfg", "otfad", "otfad_cfg", "iee", "iee_cfg", "bee_prdb", "bee_kib",
                     "bee_hdr", "bee_cfg", "hab_nonce", "hab_dek", "bootimg_rt", "filler", "sb1", "fill_rand", "hab_cfg", "mbi_cli", "bee_multi", "iee_multi", "otfad_multi"],
                    [12, 12, 5, 6, 10, 4, 8, 2, 6, 3, 3, 3, 4, 3, 4, 4, 5, 3, 3, 2, 2 if HAB_DATA else 0, 2, 8, 5, 4])[0]
    spec = {"t": t, "sup": {}}
    sizes = {}
    if t in ("sb20", "sb21"):
        spec["kek"] = rng.choice(keys)
        spec["adv"] = rng.choice(["default", "default", "explicit"])
        if spec["adv"] == "explicit":
            sizes = {"dek": 32, "mac": 32, "nonce": 16, "padding": 8}
        if t == "sb20":
            spec["export"] = rng.random() < 0.5
    elif t == "sb21_cfg":
        spec["kek"] = rng.choice(keys)
        spec["export"] = rng.random() < 0.3
        sizes = {"dek": 32, "mac": 32, "nonce": 16, "padding": 8}
    elif t == "advparams":
        sizes = {"dek": 32, "mac": 32, "nonce": 16, "padding": 8}
    elif t == "mbi":
        spec["family"] = rng.choice(MBI_FAMILIES)
        spec["key"] = rng.choice(keys)
        spec["iv"] = rng.choice(["absent", "absent", "none", "given"])
        if spec["iv"] == "given":
            spec["sup"]["ctr_init_vector"] = rhex(rng, 16)
    elif t == "mbi_cli":
        spec["family"] = rng.choice(MBI_FAMILIES[:2])
        spec["key"] = rng.choice(keys)
        if rng.random() < 0.3:
            spec["sup"]["ctr_init_vector"] = rhex(rng, 16)
    elif t == "mbi_cfg":
        spec["family"] = rng.choice(MBI_FAMILIES[:2])
        spec["key"] = rng.choice(keys)
        spec["export"] = rng.random() < 0.3
        if rng.random() < 0.3:
            spec["sup"]["ctr_init_vector"] = rhex(rng, 16)
    elif t == "otfad":
        sizes = {"key": 16, "counter_iv": 8, "filler": 4}
    elif t == "otfad_cfg":
        spec["family"] = "mimxrt1176"
        spec["kek"] = rng.choice(keys)[:32]
        spec["sup"] = {"key": rhex(rng, 16), "counter_iv": rhex(rng, 8)}
    elif t in ("iee", "iee_cfg"):
        spec["mode"] = rng.choice(["AesXTS", "AesCTRWAddress", "AesCTRWOAddress", "AesCTRkeystream"])
        spec["key_size"] = rng.choice(["CTR128XTS256", "CTR256XTS512"])
        k1 = 16 if spec["key_size"] == "CTR128XTS256" else 32
        k2 = 16 if (spec["key_size"] == "CTR128XTS256" or spec["mode"] != "AesXTS") else 32
        sizes = {"key1": k1, "key2": k2}
        if t == "iee_cfg":
            spec["family"] = "mimxrt1176"
    elif t == "bee_prdb":
        sizes = {"counter": 16}
    elif t == "bee_kib":
        sizes = {"kib_key": 16, "kib_iv": 16}
    elif t == "bee_hdr":
        sizes = {"sw_key": 16}
    elif t == "bee_cfg":
        spec["family"] = "mimxrt1050"
        sizes = {"sw_key": 16}
    elif t == "bee_multi":
        spec["family"] = "mimxrt1050"
        spec["selection"] = rng.choice(["engine0", "engine1", "both", "both", "both"])
        spec["n_engines"] = 2 if spec["selection"] == "both" else rng.choice([1, 2])
        same = rhex(rng, 16) if rng.random() < 0.5 else None  # SPSDK's own example uses one user key for both engines
        for e in range(spec["n_engines"]):
            if rng.random() < 0.8:
                spec["sup"][f"a{e}.sw_key"] = same or rhex(rng, 16)
    elif t == "iee_multi":
        spec["family"] = "mimxrt1176"
        spec["blobs"] = []
        for i in range(rng.randint(1, 4)):
            mode = rng.choice(["AesXTS", "AesCTRWAddress", "AesCTRWOAddress", "AesCTRkeystream"])
            ks = rng.choice(["CTR128XTS256", "CTR256XTS512"])
            spec["blobs"].append({"mode": mode, "key_size": ks})
            k1 = 16 if ks == "CTR128XTS256" else 32
            k2 = 16 if (ks == "CTR128XTS256" or mode != "AesXTS") else 32
            for f, n in (("key1", k1), ("key2", k2)):
                if rng.random() < 0.25:
                    spec["sup"][f"a{i}.{f}"] = rhex(rng, n)
    elif t == "otfad_multi":
        spec["family"] = "mimxrt1176"
        spec["kek"] = rng.choice(keys)[:32]
        spec["n"] = rng.randint(1, 4)
        for i in range(spec["n"]):
            for f, n in (("key", 16), ("counter_iv", 8), ("filler", 4)):
                if rng.random() < 0.2:
                    spec["sup"][f"a{i}.{f}"] = rhex(rng, n)
    elif t == "hab_nonce":
        spec["len"] = rng.choice([0, 64, 0xFFFF, 0x10000, 0x12345])
    elif t == "hab_dek":
        spec["bits"] = rng.choice([128, 192, 256])
        sizes = {"dek": spec["bits"] // 8}
    elif t == "bootimg_rt":
        sizes = {"dek": 16, "nonce": 13}
    elif t == "hab_cfg":
        spec["bits"] = rng.choice([128, 192, 256])
        sizes = {"dek": spec["bits"] // 8, "nonce": 13}
    elif t == "filler":
        spec["len"] = rng.choice([4, 8, 16, 32])
        sizes = {"value": spec["len"]}
    elif t == "sb1":
        sizes = {"dek": 32, "mac": 32}
    elif t == "fill_rand":
        spec["len"] = rng.choice([1, 4, 8, 12])
    for f in subset(rng, sorted(sizes)):
        if t == "sb21_cfg" and f == "padding":
            spec["sup"][f] = "00" * 8  # zeroPadding option: the user asks for zeros
        else:
            spec["sup"][f] = rhex(rng, sizes[f])
    return spec


def gen_history(rng):
    n = rng.randint(2, 12)
    keys = [rhex(rng, 32) for _ in range(2)]
    h = [gen_build(rng, keys) for _ in range(n)]
    # make sure the situation the property is about occurs: the same kind of artifact built twice
    if rng.random() < 0.7:
        twin = json.loads(json.dumps(rng.choice(h)))
        if rng.random() < 0.6 and twin["t"] != "otfad_cfg":  # both copies let SPSDK choose
            twin["sup"] = {}
            if twin["t"] == "mbi" and twin["iv"] == "given":
                twin["iv"] = "absent"
        h.insert(rng.randrange(len(h) + 1), twin)
    h = h[:12]
    if rng.random() < 0.45:
        h = add_reuse_steps(rng, h[:9], keys)
    return h


def add_reuse_steps(rng, h, keys):
    """Artifact B is built with the builder object that already built artifact A (`reuse` = index of A's build)."""
    cands = [i for i, b in enumerate(h) if b["t"] == "mbi_cfg" or (b["t"] == "mbi" and b["family"] in MBI_FAMILIES[:2])]
    if not cands or rng.random() < 0.6:
        a = {"t": "mbi_cfg", "sup": {}, "family": rng.choice(MBI_FAMILIES[:2]), "key": rng.choice(keys), "export": rng.random() < 0.5}
        if rng.random() < 0.4:
            a["sup"]["ctr_init_vector"] = rhex(rng, 16)  # supplied for A only
        h.append(a)
        j = len(h) - 1
    else:
        j = rng.choice(cands)
    a = h[j]
    kind = rng.choice(["reload", "reload", "reload", "setiv", "parse"] if a["t"] == "mbi_cfg" else ["reload", "setiv"])
    if kind == "parse":
        h.append({"t": "mbi_parse", "sup": {}, "reuse": j, "family": a["family"], "key": a["key"]})
        j = len(h) - 1
        kind = "reload"
    b = {"t": "mbi_" + kind, "sup": {}, "reuse": j, "family": a["family"], "key": a["key"] if rng.random() < 0.7 else rng.choice(keys)}
    if rng.random() < 0.2:
        b["sup"]["ctr_init_vector"] = rhex(rng, 16)
    if kind == "reload":
        b["export_before"] = h[j]["t"] == "mbi_cfg" and rng.random() < 0.5  # a parsed / bare object cannot export (no signature provider)
        b["export"] = rng.random() < 0.5
    h.append(b)
    if rng.random() < 0.3:  # and once more on the same object
        c = json.loads(json.dumps(b))
        c["reuse"] = len(h) - 1
        c["sup"] = {}
        if c["t"] == "mbi_reload":
            c["export_before"] = False
        h.append(c)
    return h


def parse_table(line):
    """driver answers are parsed defensively: an answer without the expected shape gives an empty table (every comparison that
    needs it then disagrees), never an exception"""
    tab = []
    try:
        if line and line != "-":
            for row in line.split(";"):
                i, ev, kind, loc, via, field = row.split("|")
                if ev not in ("perCall", "atDefinition", "atImport"):
                    return []
                tab.append({"i": int(i), "ev": ev, "kind": kind, "loc": loc, "via": via, "field": field})
    except (ValueError, AttributeError):
        return []
    return tab


def site_index(tab, loc, via, early):
    """table site of a draw made at `loc` (reached through the early expression `via`)"""
    for s in tab:
        if s["loc"] == loc and s["via"] == via and (s["ev"] != "perCall") == early:
            return s["i"]
    for s in tab:  # same draw, classification differs from what was observed: let the model speak
        if s["loc"] == loc and s["via"] == via:
            return s["i"]
    if early:
        return None
    for s in tab:
        if s["loc"] == loc and s["via"] == "":
            return s["i"]
    return None


KNOWN = {}


def sub_of(field):
    """`a<n>.name` = artifact n of a call that serves several artifacts"""
    if field[:1] == "a" and "." in field and field[1:field.index(".")].isdigit():
        return int(field[1:field.index(".")])
    return 0


def check_history(ck, s, drv, tab, hist, res, seen_global, hid, hits):
    """Oracle + correspondence for one executed history."""
    inp = {"history": hist}
    builds = res["builds"]
    chosen = []  # (artifact, field, value)
    user_vals = {}  # value the user supplied -> first (artifact, type, field) it was supplied for
    ok_all = True
    for bi, (spec, b) in enumerate(zip(hist, builds)):
        if b["err"] is not None:
            ok_all = False
            s.expect(False, inp, "an artifact construction with valid parameters raised", f"build {bi} ({spec['t']}): {b['err']}")
            continue
        for o in b["obs"]:
            if o["sup"] is not None:
                if not o["f"].startswith("d_"):
                    user_vals.setdefault(o["sup"], ((bi, sub_of(o["f"])), spec["t"], o["f"]))
                s.expect(o["v"] == o["sup"], inp, "a user-supplied key / nonce / IV (or the one carried by parsed data) is not used verbatim",
                         {"build": bi, "type": spec["t"], "field": o["f"], "value": o["v"]}, o["sup"])
            else:
                if o["v"] is None or len(o["v"]) < 8:
                    s.expect(False, inp, "a self-chosen key / nonce / IV is missing from the artifact", {"build": bi, "type": spec["t"], "field": o["f"], "value": o["v"]})
                    continue
                chosen.append(((bi, sub_of(o["f"])), spec["t"], o["f"], o["v"], o))
    # oracle: no value shared by two artifacts (exact bytes; also prefix of one another: x_pad is a 4-byte view)
    byval = {}
    for art, t, f, v, o in chosen:
        bi = art[0]
        src = user_vals.get(v)
        if src is not None and src[0] != art:
            s.expect(False, inp, "a value the user supplied for one artifact only ends up in another artifact for which nothing was supplied",
                     {"supplied_for": {"build": src[0][0], "artifact_of_the_call": src[0][1], "type": src[1], "field": src[2]},
                      "found_in": {"build": bi, "artifact_of_the_call": art[1], "type": t, "field": f, "reuses_builder_of": hist[bi].get("reuse")}, "value": v},
                     "a fresh value")
        for (artj, tj, fj) in byval.get(v, []):
            if artj != art:
                what = ("two artifacts produced by ONE call (e.g. the region headers of both BEE engines, two key blobs) share a value SPSDK chose itself"
                        if artj[0] == bi else "two independently built artifacts share a value SPSDK chose itself")
                s.expect(False, inp, what,
                         {"a": {"build": artj[0], "artifact_of_the_call": artj[1], "type": tj, "field": fj},
                          "b": {"build": bi, "artifact_of_the_call": art[1], "type": t, "field": f, "reuses_builder_of": hist[bi].get("reuse")}, "value": v},
                         "distinct values", finding=KNOWN.get((t, f)))
        byval.setdefault(v, []).append((art, t, f))
    for v, users in byval.items():
        prev = seen_global.get(v)
        if prev is not None and prev[0] != hid:
            s.expect(False, {"histories": [prev[1], hist]}, "two artifacts built in the same process (different histories) share a value SPSDK chose itself",
                     {"first": prev[2], "second": users[0], "value": v}, "distinct values")
        seen_global.setdefault(v, (hid, hist, users[0]))
    # correspondence: replay the observed trace on the model
    real_parts, req_parts, unknown = [], [], None
    labels = {}
    nd = 0
    for bi, b in enumerate(builds):
        subs = sorted({sub_of(o["f"]) for o in b["obs"]}) or [0]
        for sub in subs:  # every artifact of a call is a build of the model
            seen_tok, items, sites = set(), [], []
            for o in b["obs"]:
                if sub_of(o["f"]) != sub:
                    continue
                if o["sup"] is not None or o.get("tok") is None:
                    if o["sup"] is None and b["err"] is None:
                        nd += 1  # opaque self-chosen value (constant or derived): byte oracle only
                    continue
                k = o["tok"]
                if k in seen_tok:
                    continue
                seen_tok.add(k)
                early = o["when"] != "own"
                idx = site_index(tab, o["loc"], o["via"], early)
                if idx is None:
                    unknown = unknown or f"{o['loc']} via '{o['via']}' ({'early' if early else 'per call'})"
                    continue
                hits[idx] = hits.get(idx, 0) + 1
                lab = labels.setdefault(k, len(labels))
                flag = "c" if o["when"] == "own" else ("e" if o["when"] == "early" else "x")
                items.append(f"{idx}:{lab}:{flag}")
                sites.append(str(idx))
            real_parts.append(",".join(items) if items else "_")
            req_parts.append(",".join(sites) if sites else "_")
    # (statistics must not depend on the model's table either)
    nontriv = sum(1 for b in builds if any(o["sup"] is None and o.get("v") for o in b["obs"])) >= 2
    s.note(inp, nontrivial=nontriv, cls=f"builds={len(hist)}" if ok_all else "error")
    if unknown is not None:
        s.compare(inp, "draw at " + unknown, "no such site in Generated.secretSites", "a draw observed at run time is missing from the generated site table")
    elif drv is not None:
        model = drv.ask("run " + "/".join(req_parts))
        s.compare(inp, "/".join(real_parts), model, "sharing relation / evaluation time observed on the implementation differs from the model's run on the generated site table")
    return nd


def parse_loops(line):
    rows = []
    try:
        if line and line not in ("-", "bad-op"):
            for row in line.split(";"):
                i, kind, scope, var, draw, loop, inside = row.split("|")
                rows.append({"i": int(i), "kind": kind, "scope": scope, "var": var, "drawLoc": draw, "loopLoc": loop, "inside": inside == "1"})
    except (ValueError, AttributeError):
        return []
    return rows


MULTI = ("bee_multi", "iee_multi")  # builders whose ONE call serves several artifacts through a loop of the implementation


def check_loops(ck, s4, drv, loops, hist, res):
    """several artifacts from one call: the sharing of every drawn value across the artifacts of the call vs `serve` (Model/FreshLoop.lean)
    with the position (inside / hoisted) of the generated loop row that the draw's call stack goes through"""
    if s4 is None:
        return
    for bi, (spec, b) in enumerate(zip(hist, res["builds"])):
        if spec["t"] not in MULTI or b["err"] is not None:
            continue
        inp = {"history": [spec]}
        groups = {}  # (loop row or None, innermost draw site) -> {artifact: token}
        for o in b["obs"]:
            if o["sup"] is not None or o.get("tok") is None:
                continue
            row = next((r for r in loops if r["drawLoc"] in o.get("stack", ())), None)
            groups.setdefault((None if row is None else row["i"], o["loc"]), {}).setdefault(sub_of(o["f"]), o["tok"])
        nart = len({sub_of(o["f"]) for o in b["obs"]})
        s4.note(inp, nontrivial=nart >= 2, cls=f"{spec['t']}/artifacts={nart}")
        for (ri, loc), per_art in sorted(groups.items(), key=lambda kv: (str(kv[0][0]), kv[0][1])):
            labs = {}
            real = ",".join(str(labs.setdefault(per_art[a], len(labs))) for a in sorted(per_art))
            if ri is None:
                s4.compare(inp, f"draw at {loc} serves {len(per_art)} artifact(s) of one call: {real}", "no row of Generated.loopUses on its call stack",
                           "a draw that serves the artifacts of a multi-artifact call is missing from the generated loop table")
            elif drv is not None:
                s4.compare((inp, loc), real, drv.ask(f"crun {ri} {len(per_art)}"),
                           "sharing of a drawn value across the artifacts of one call differs from the model with the generated loop position")


MBI_CLS = "Mbi_MixinCtrInitVector"
MBI_PATHS = {"setter": "ctr_init_vector.setter", "load": "mix_load_from_config", "parse": "mix_parse"}


def parse_slots(line):
    rows = []
    try:
        if line and line not in ("-", "bad-op"):
            for row in line.split(";"):
                i, kind, cls, slot, method, role, resets, direct = row.split("|")
                rows.append({"i": int(i), "kind": kind, "cls": cls, "slot": slot, "method": method, "role": role, "resets": resets == "1", "direct": direct == "1"})
    except (ValueError, AttributeError):
        return []
    return rows


def check_reuse_model(ck, s2, drv, slots, hist, res):
    """Object-state model (Model/FreshObj.lean over Generated.secretSlots) vs the implementation on the MBI steps of a history."""
    if s2 is None or not any(b["t"].startswith("mbi") for b in hist):
        return
    inp = {"history": hist}
    path = {k: next((r["i"] for r in slots if r["cls"] == MBI_CLS and r["method"] == m), None) for k, m in MBI_PATHS.items()}
    steps, real, objid, uid = [], [], {}, {}
    labels = {}
    reuse = False
    for bi, (spec, b) in enumerate(zip(hist, res["builds"])):
        t = spec["t"]
        if not t.startswith("mbi"):
            continue
        if b["err"] is not None:
            return  # reported by the oracle
        o = next((x for x in b["obs"] if x["f"] in ("ctr_init_vector", "d_ctr_init_vector")), None)
        if o is None or o["v"] is None:
            return
        supv = o["sup"]
        u = "_" if supv is None else str(uid.setdefault(supv, len(uid)))
        if t in ("mbi", "mbi_cfg", "mbi_parse", "mbi_cli"):
            objid[bi] = bi
            steps.append(f"n,{bi}")
        else:
            if spec["reuse"] not in objid:
                return
            objid[bi] = objid[spec["reuse"]]
            reuse = True
        ob = objid[bi]
        via = {"mbi_cfg": "load", "mbi_cli": "load", "mbi_reload": "load", "mbi_setiv": "setter", "mbi_parse": "parse"}.get(t)
        if t == "mbi":
            via = None if spec["iv"] == "absent" else "setter"
        if via is not None:
            if path[via] is None:
                s2.note(inp, nontrivial=any("reuse" in x for x in hist), cls="path-missing")
                s2.compare(inp, f"{MBI_CLS}.{MBI_PATHS[via]} re-specifies the counter IV", "no such row in Generated.secretSlots",
                           "a re-specification path exercised on the implementation is missing from the generated object-state table")
                return
            steps.append(f"r,{ob},{path[via]},{u}")
        steps.append(f"e,{ob}")
        v = o["v"]
        if supv is not None:
            real.append(f"1:u{uid[supv]}")
        elif v in uid:
            real.append(f"0:u{uid[v]}")  # a value supplied earlier (or carried by parsed data) is still there
        else:
            real.append(f"0:c{labels.setdefault(v, len(labels))}")
    s2.note(inp, nontrivial=reuse, cls="re-use" if reuse else "fresh objects only")
    if drv is not None:
        s2.compare(inp, "/".join(real), drv.ask("objrun " + "/".join(steps)),
                   "kept / fresh counter IV of re-used MBI builder objects differs from the object-state model run on the generated path table")


def run_histories(ck, s, drv, tab, w, hists, start_id=0, batch=50, s2=None, slots=(), s4=None, loops=()):
    seen_global, hits, opaque = {}, {}, 0
    for i in range(0, len(hists), batch):
        chunk = hists[i:i + batch]
        items = [{"id": start_id + i + j, "builds": h} for j, h in enumerate(chunk)]
        out = w.ask({"cmd": "histories", "items": items})
        for h, res in zip(chunk, out):
            opaque += check_history(ck, s, drv, tab, h, res, seen_global, res["id"], hits)
            check_reuse_model(ck, s2, drv, slots, h, res)
            check_loops(ck, s4, drv, loops, h, res)
    return hits, opaque


def stream_import(ck, drv, tab, w):
    s = ck.stream("import_time_draws", "every module of /repo/spsdk is imported in a fresh interpreter under the counting RNG; per module the draws made "
                  "while importing (module level, class body, default argument - recognised by a non-function frame in the call stack) are compared "
                  "with the early sites of the generated table; non-trivial = module imported successfully")
    ans = w.ask({"cmd": "import_all"})
    by_file_real, by_file_model = {}, {}
    for d in ans["draws"]:
        by_file_real.setdefault(d["file"], set()).add(f"{d['loc']}<{d['via']}")
    for t in tab:
        if t["ev"] != "perCall":
            f = (t["via"] or t["loc"]).rsplit(":", 1)[0]
            by_file_model.setdefault(f, set()).add(f"{t['loc']}<{t['via']}")
    imported = set()
    for m in ans["modules"]:
        s.note(m["rel"], nontrivial=m["ok"], cls="imported" if m["ok"] else "import-failed(optional dependency)")
        if not m["ok"]:
            continue
        imported.add(m["rel"])
        real = ";".join(sorted(by_file_real.get(m["rel"], ()))) or "-"
        model = ";".join(sorted(by_file_model.get(m["rel"], ()))) or "-"
        if drv is not None:
            s.compare(m["rel"], real, model, "draws observed while importing the module differ from the early sites of the generated table")
        s.expect(real == "-", m["rel"], "a random value is drawn while the module is imported (module level / class body / default argument): "
                 "every artifact of the process that uses it shares it", real, "-")
    ck.extra["modules_imported"] = len(imported)
    ck.extra["modules_not_importable"] = sorted(m["rel"] for m in ans["modules"] if not m["ok"])
    # rng.py wrappers pass the primitive through
    for p in w.ask({"cmd": "rng_probe"}):
        s.note(("rng", p["fn"], p["n"]))
        s.expect(p["drew"] == 1 and p["ok"], p, "a spsdk.crypto.rng function does not return exactly one fresh draw of secrets.* / os.urandom of the requested size", p)
    return s


SAMEDIR_RULE = ("rebuilds INTO ONE DIRECTORY (the DEK file `SecretKey_Name` written by build k exists for build k+1): random sequences of "
                "{build without ReuseDek, build with ReuseDek=1, user places an own key file, user cleans the directory} for (a) the complete encrypted "
                "HAB container exactly as `nxpimage hab export` builds it (HabContainer.load_configuration of the BD file of the repository's test data, "
                "flags 0x0C, load_from_config, export) and (b) CsfHabSegment.get_dek_from_config alone (128/192/256 bit); continued by two more builds "
                "in each of the fresh unpatched interpreters of the restart stream.  Oracle: a build without ReuseDek never raises, its DEK differs from "
                "every earlier DEK / key file of the directory and is what the file holds afterwards; with ReuseDek=1 the DEK is the file's content "
                "(SPSDKError without file).  Correspondence: the sequence on `runF` (Model/FreshFile.lean) with the guard kind of the generated "
                "secretSources row; non-trivial = at least two builds without ReuseDek")


def gen_samedir(rng, idx, scratch, mode):
    bits = 256 if mode == "container" else rng.choice([128, 192, 256])
    n = rng.randint(2, 3) if mode == "container" else rng.randint(2, 6)
    steps = []
    for _ in range(n):
        r = rng.random()
        steps.append("b0" if r < 0.6 else "b1" if r < 0.75 else ("p" + rhex(rng, bits // 8)) if r < 0.9 else "x")
    while sum(1 for x in steps if x == "b0") < 2:
        steps.insert(rng.randrange(len(steps) + 1), "b0")
    return {"id": f"sd{idx}", "dir": os.path.join(scratch, f"same_{mode}_{idx}"), "mode": mode, "bits": bits, "fresh": True,
            "init": rhex(rng, bits // 8) if rng.random() < 0.2 else None, "steps": steps}


def check_samedir(ck, s, drv, sources, item, recs, state):
    """oracle + model for the steps `recs` of one directory; `state` carries the directory's history across processes"""
    inp = {"samedir": {k: item[k] for k in ("mode", "bits", "init", "steps")}, "earlier_steps_in_this_directory": list(state["steps"])}
    if not state["steps"] and item.get("init"):
        state["uid"][item["init"]] = len(state["uid"])
        state["init"] = state["uid"][item["init"]]
    real = []
    for rec in recs:
        st = rec["step"]
        state["steps"].append(st if not st.startswith("p") else "p" + str(state["uid"].setdefault(st[1:], len(state["uid"]))))
        if st.startswith("p") or st == "x":
            real.append("-")
            continue
        reuse = st == "b1"
        if "err" in rec:
            real.append("E")
            if not reuse:
                s.expect(False, inp, "a HAB build without ReuseDek raised", rec["err"])
            else:
                s.expect(rec["before"] is None and rec["err"].startswith("E:spsdk"), inp,
                         "a HAB build with ReuseDek=1 raised although the key file exists (or raised something else than SPSDKError)", rec["err"])
            continue
        dek = rec.get("dek")
        if reuse:
            s.expect(rec["before"] is not None and dek == rec["before"] and rec["after"] == rec["before"], inp,
                     "with ReuseDek=1 the DEK is not the content of the key file (or the file was changed / invented)",
                     {"dek": dek, "file_before": rec["before"], "file_after": rec["after"]})
        else:
            s.expect(dek is not None and rec["after"] == dek, inp, "the key file does not hold the DEK used for the image", {"dek": dek, "file_after": rec["after"]})
            s.expect(dek != rec["before"] and dek not in state["deks"] and dek not in state["uid"], inp,
                     "a build without ReuseDek got the DEK that an earlier build (or the user) left in the directory instead of a new one",
                     {"dek": dek, "file_before_build": rec["before"], "deks_of_earlier_builds": list(state["deks"]),
                      "across_interpreter_restart": state.get("procs", 1) > 1})
        if dek in state["uid"]:
            real.append(f"{int(reuse)}:u{state['uid'][dek]}")
        else:
            real.append(f"{int(reuse)}:c{state['labels'].setdefault(dek, len(state['labels']))}")
        if dek is not None:
            state["deks"].setdefault(dek, len(state["deks"]))
    state["real"].extend(real)
    nb0 = sum(1 for x in state["steps"] if x == "b0")
    s.note(inp, nontrivial=nb0 >= 2, cls=item["mode"] + ("/after-restart" if state.get("procs", 1) > 1 else ""))
    if drv is not None:
        rows = [r for r in sources if r["altFile"] and r["kind"] == "hab"]
        rows = [r for r in rows if r["scope"].endswith("get_dek_from_config")] or rows
        if not rows:
            s.compare(inp, "CsfHabSegment.get_dek_from_config chooses between a draw and the key file", "no such row in Generated.secretSources",
                      "the source choice exercised on the implementation is missing from the generated table")
        else:
            init = "_" if state.get("init") is None else str(state["init"])
            model = drv.ask(f"frun {rows[0]['i']} {init} " + "/".join(state["steps"]))
            s.compare(inp, "/".join(state["real"]), model, "DEKs of rebuilds into one directory differ from the model `runF` with the guard kind of the generated table")


def parse_sources(line):
    rows = []
    try:
        if line and line not in ("-", "bad-op"):
            for row in line.split(";"):
                i, kind, scope, var, loc, guard, alt = row.split("|")
                rows.append({"i": int(i), "kind": kind, "scope": scope, "var": var, "loc": loc, "guard": guard, "altFile": alt == "1"})
    except (ValueError, AttributeError):
        return []
    return rows


def new_dir_state():
    return {"steps": [], "real": [], "uid": {}, "labels": {}, "deks": {}, "init": None, "procs": 1}


def stream_samedir(ck, drv, w, scratch):
    """in-process part; returns what the restart stream continues in fresh interpreters"""
    s = ck.stream("same_dir_rebuilds", SAMEDIR_RULE)
    sources = parse_sources(drv.ask("sources")) if drv is not None else []
    ck.extra["source_choice_table"] = [f"{r['scope']}.{r['var']} guard={r['guard']} alt_reads_file={r['altFile']}" for r in sources]
    rng = ck.rng
    items = [gen_samedir(rng, i, scratch, "helper") for i in range(ck.budget(120, 1500))]
    if HAB_DATA:
        items += [gen_samedir(rng, 100000 + i, scratch, "container") for i in range(ck.budget(8, 60))]
    cont = []
    for i in range(0, len(items), 40):
        chunk = items[i:i + 40]
        for item, res in zip(chunk, w.ask({"cmd": "samedir", "items": chunk})):
            st = new_dir_state()
            check_samedir(ck, s, drv, sources, item, res["steps"], st)
            # keep a few directories for the fresh interpreters (the rest is removed to save space)
            if len([c for c in cont if c[0]["mode"] == item["mode"]]) < (2 if item["mode"] == "container" else 4):
                cont.append((item, st))
            else:
                import shutil
                shutil.rmtree(item["dir"], ignore_errors=True)
    return s, sources, cont


def stream_restart(ck, scratch, samedir=None, drv=None):
    s = ck.stream("restart", "PARTIAL: two fresh interpreters without the counting RNG build the same list of artifacts; no self-chosen value of one "
                  "process may occur in the other (or twice in one).  Agreement would be a violation; disagreement proves nothing about entropy; "
                  "non-trivial = artifact with at least one self-chosen value")
    rng = ck.rng
    nrestarts = ck.budget(2, 6)
    nart = ck.budget(64, 200)
    keys = [rhex(rng, 32)]
    builds = []
    while len(builds) < nart:
        b = gen_build(rng, keys)
        if b["t"] in ("otfad_cfg",):
            continue
        b["sup"] = {}
        if b["t"] == "mbi":
            b["iv"] = "absent"
        builds.append(b)
    seen = {}
    for r in range(nrestarts):
        w = WorkerProc(scratch, patch=False, reuse=True)
        try:
            out = w.ask({"cmd": "histories", "items": [{"id": r, "builds": builds}]})[0]
            if samedir is not None:
                s_sd, sources, cont = samedir
                for item, st in cont:
                    nxt = dict(item, fresh=False, steps=["b0", "b0"], id=f"{item['id']}r{r}")
                    st["procs"] += 1
                    check_samedir(ck, s_sd, drv, sources, nxt, w.ask({"cmd": "samedir", "items": [nxt]})[0]["steps"], st)
        finally:
            w.close()
        for bi, (spec, b) in enumerate(zip(builds, out["builds"])):
            inp = {"process": r, "build": bi, "spec": spec}
            # real randomness: 4-byte fillers may collide by chance (2^-32 per pair) -> only values of >= 8 bytes are compared here
            vals = [(o["f"], o["v"]) for o in b["obs"] if o["sup"] is None and o["v"] and len(o["v"]) >= 16]
            s.note(inp, nontrivial=bool(vals), cls=spec["t"])
            if b["err"] is not None:
                s.expect(False, inp, "an artifact construction with valid parameters raised", b["err"])
                continue
            for f, v in vals:
                prev = seen.get(v)
                if prev is not None and (prev[0], prev[1]) != (r, bi):
                    s.expect(False, {"builds": [prev[3], spec]}, "a self-chosen value repeats " + ("across interpreter restarts" if prev[0] != r else "inside one process"),
                             {"value": v, "first": prev[:3], "second": (r, bi, f)}, "distinct values", finding=KNOWN.get((spec["t"], f)))
                seen.setdefault(v, (r, bi, f, spec))
    return s


def common_setup(ck):
    # no op of drv_c17 is Spec-only: every answer comes from Model/Fresh*.lean over Generated/*; nothing of it feeds an oracle
    ck.spec_ops = set()
    ck.lean_obligations(generated=["SecretSites", "SecretState"])
    drv = ck.driver()
    ck.assume("secrets.token_bytes / token_hex / randbelow (OS entropy) never return the same value twice - modelled as a counter (`Fresh.draw`); "
              "the quality of the OS entropy source is not examined (restart stream is partial)",
              "which sites a public construction evaluates is not modelled (no call graph): the theorems quantify over all builds, the harness feeds the observed trace",
              "static site discovery resolves calls by name through imports / classes / self; dynamic dispatch is covered by the run-time comparison only for the exercised paths",
              "draws of third-party libraries (cryptography: RSA/ECC key generation, signature nonces, x509 serial numbers) are out of scope")
    ck.trusted.append("C17 worker: replacement of secrets.* / os.urandom before spsdk is imported and call-stack inspection (frame kinds) at every draw")
    tab = parse_table(drv.ask("table")) if drv is not None else []
    ck.extra["site_table"] = {"sites": len(tab), "early": [t for t in tab if t["ev"] != "perCall"]}
    scratch = os.path.join(os.environ.get("VERIF_SCRATCH", "/tmp"), "c17")
    os.makedirs(scratch, exist_ok=True)
    return drv, tab, scratch


HIST_RULE = ("random histories of 2..12 independent constructions drawn from {BootImageV20/V21 with default vs explicit SBV2xAdvancedParams, "
             "BootImageV21.load_from_config (+export), SBV2xAdvancedParams, encrypted MBI through constructor (IV absent / None / given), "
             "load_from_config (+export) and the CLI `nxpimage mbi export` (click CliRunner, IV read back from the written image), OTFAD KeyBlob (+filler) and OtfadNxp.load_from_config, IeeKeyBlob / IeeNxp.load_from_config (XTS/CTR, "
             "128/256), BEE PRDB / KIB / region header / BeeNxp.load_from_config, multi-artifact calls (BeeNxp.load_from_config for engine0 / engine1 / both with "
             "the KIB and PRDB counter also decrypted from the exported region headers with the user key; IeeNxp.load_from_config and OtfadNxp with "
             "1-4 key blobs read back from the plain key blob table; every artifact of a call is an artifact of its own for the oracle), CsfHabSegment DEK / nonce helpers, complete encrypted HAB container through HabContainer.load_configuration + load_from_config + "
             "export (test-data SRK table / certificates), BootImgRT.add_image, "
             "load_hex_string / align_block_fill_random filler, SecureBootV1}; in ~45% of the histories a builder object that already produced an artifact is USED "
             "AGAIN for a second one (MBI: obj.load_from_config(second config) with / without export in between, obj.ctr_init_vector = None, "
             "parse(export of A) then load_from_config) with nothing / something supplied for the second artifact; each field user-supplied or defaulted at random, same KEK/HMAC key reused across builds, "
             "one construction repeated; non-trivial = at least two artifacts of the history carry a self-chosen value")


def run(ck):
    drv, tab, scratch = common_setup(ck)
    w = WorkerProc(scratch, patch=True)
    try:
        if w.init.get("error"):
            s0 = ck.stream("histories", HIST_RULE)
            s0.note("worker init")
            s0.expect(False, "import spsdk + generate an RSA key / certificate in a fresh interpreter",
                      "spsdk cannot be imported / used in a fresh interpreter", w.init["error"])
            return
        ck.extra["draws_before_any_import_all"] = w.init.get("draws_so_far")
        stream_import(ck, drv, tab, w)
        n = ck.budget(300, 5000)
        s = ck.stream("histories", f"{n} " + HIST_RULE)
        hists = [gen_history(ck.rng) for _ in range(n)]
        kinds = {}
        for h in hists:
            for b in h:
                key = b["t"] + ("/supplied" if b["sup"] else "/self-chosen")
                kinds[key] = kinds.get(key, 0) + 1
        ck.extra["constructions_by_type"] = dict(sorted(kinds.items()))
        s2 = ck.stream("reuse_model", "the MBI steps of the same histories (new object / re-specification through setter, mix_load_from_config, mix_parse with a "
                       "supplied value or nothing / artifact) are replayed on the object-state model `runObj` over the generated path table "
                       "(Generated.secretSlots): per artifact supplied-flag and value class (user value k / self-chosen value by sharing rank) must agree; "
                       "non-trivial = the history re-uses a builder object")
        slots = parse_slots(drv.ask("slots")) if drv is not None else []
        ck.extra["object_state_table"] = {"rows": len(slots), "respec_direct": [f"{r['cls']}.{r['method']} resets={r['resets']}" for r in slots
                                                                                 if r["role"] == "respec" and r["direct"]],
                                          "kept_for_object_lifetime(lazy)": [f"{r['cls']}.{r['slot']} in {r['method']}" for r in slots if r["role"] == "lazy"]}
        s4 = ck.stream("artifacts_of_one_call", "the builds of the same histories whose ONE call serves SEVERAL artifacts through a loop of the implementation "
                       "(BeeNxp.load_from_config engine0 / engine1 / both with 1-2 configured engines, user key given / empty / the same for both; "
                       "IeeNxp.load_from_config with 1-4 key blobs): for every drawn value the sharing across the artifacts of the call is compared "
                       "with `serve` (Model/FreshLoop.lean) for the generated loop row found on the draw's call stack; non-trivial = at least two artifacts")
        loops = parse_loops(drv.ask("loops")) if drv is not None else []
        ck.extra["loop_table"] = [f"{r['scope']}.{r['var']} inside={r['inside']}" for r in loops]
        hits, opaque = run_histories(ck, s, drv, tab, w, hists, s2=s2, slots=slots, s4=s4, loops=loops)
        ck.extra["sites_exercised"] = {t["loc"] + ("<" + t["via"] if t["via"] else ""): hits.get(t["i"], 0) for t in tab
                                       if t["kind"] in ("sb1", "sb2", "mbi", "otfad", "iee", "bee", "hab", "filler")}
        ck.extra["opaque_self_chosen_values"] = opaque
        samedir = stream_samedir(ck, drv, w, scratch)
    finally:
        w.close()
    stream_restart(ck, scratch, samedir=samedir, drv=drv)


def replay(ck, data):
    drv, tab, scratch = common_setup(ck)
    s = ck.stream("histories", "replay of recorded histories; " + HIST_RULE)
    s2 = ck.stream("reuse_model", "replay: MBI steps of the recorded histories on the object-state model")
    s4 = ck.stream("artifacts_of_one_call", "replay: multi-artifact calls of the recorded histories on the loop model")
    loops = parse_loops(drv.ask("loops")) if drv is not None else []
    slots = parse_slots(drv.ask("slots")) if drv is not None else []
    hists, samedirs = [], []
    for c in data.get("cases", []):
        inp = c.get("input")
        if isinstance(inp, dict) and "history" in inp:
            hists.append([inp["history"]])
        elif isinstance(inp, dict) and "histories" in inp:
            hists.append(inp["histories"])
        elif isinstance(inp, dict) and "samedir" in inp:
            samedirs.append(inp)
        elif isinstance(inp, dict) and "builds" in inp:
            hists.append([inp["builds"]])
    if samedirs:
        s3 = ck.stream("same_dir_rebuilds", "replay; " + SAMEDIR_RULE)
        sources = parse_sources(drv.ask("sources")) if drv is not None else []
        for k, inp in enumerate(samedirs[:5]):
            sd = inp["samedir"]
            # the recorded steps of the directory, then - as recorded - continued in a fresh interpreter
            earlier = [x for x in inp.get("earlier_steps_in_this_directory", [])]
            item = {"id": f"rp{k}", "dir": os.path.join(scratch, f"replay_same_{k}"), "mode": sd["mode"], "bits": sd["bits"], "init": sd.get("init"),
                    "fresh": True, "steps": sd["steps"] if not earlier else ["b0", "b0"]}
            st = new_dir_state()
            for proc in range(2 if earlier else 1):
                w = WorkerProc(scratch, patch=(proc == 0), reuse=True)
                try:
                    it = dict(item, fresh=(proc == 0), id=f"rp{k}p{proc}")
                    if proc:
                        st["procs"] += 1
                    check_samedir(ck, s3, drv, sources, it, w.ask({"cmd": "samedir", "items": [it]})[0]["steps"], st)
                finally:
                    w.close()
        if not hists:
            return
    if not hists:  # import-time failure or nothing to replay: run the import stream, it needs no input
        w = WorkerProc(scratch, patch=True)
        try:
            stream_import(ck, drv, tab, w)
        finally:
            w.close()
        return
    for group in hists:
        w = WorkerProc(scratch, patch=True, reuse=True)  # fresh process per recorded case
        try:
            run_histories(ck, s, drv, tab, w, group, s2=s2, slots=slots, s4=s4, loops=loops)
        finally:
            w.close()


if __name__ == "__main__":
    if "--worker" in sys.argv:
        Worker().serve()
