"""C20 - number parsing, alignment and byte-order helpers (spsdk/utils/misc.py, spsdk/sbfile/misc.py).

Obligations : Properties/C20.lean (theorems over Generated/PyFuns.lean = AST translation of the
              current source, and over the hand model Model/Misc.lean).
Correspondence: real function vs native model driver on exhaustive small domains + sampled big values.
Oracle      : the contract statements evaluated on the real functions (independent of the model).

Phase 2: Generated/PyFuns2.lean (get_bytes_cnt_of_int with its while loop, BcdVersion3._check_number, the guards of
swap32 / reverse_bytes_in_longs, the num_padding arithmetic of extend_block / align_block) and Generated/EnumTables.lean
are regenerated as well and compared with the real functions; hand models of load_hex_string (literal branch),
value_to_bool, BinaryPattern acceptance/.pattern, split_data and the SpsdkEnum lookups get their own streams.
"""
from __future__ import annotations

import contextlib
import itertools
import logging
import os
import re
import signal
import threading

from vcore import canon, hexs, pyres

ALPHA_BIG = "0179afboxul_-+ g"  # 16 characters (design §6 C20)
ALPHA_SMALL = "01_xbu"


def ref_value_to_int(s: str):
    """Independent reference of the documented number grammar (ASCII): returns int or None.

    [ws] [0x|0b|0o] digit-groups separated by single '_' [≤3 of u/l] [ws], case-insensitive.
    One recorded deviation that the code inherits from Python's int(): with the `0b` prefix the digits
    may themselves carry a second `0b`/`0b_` (e.g. "0b0b1" = 1); the grammar in Properties/C20.lean states it.
    """
    if s == "":
        return None
    t = s.strip(" \t\n\r\x0b\x0c\x1c\x1d\x1e\x1f").lower()
    base, body = 10, t
    if t[:2] in ("0x", "0b", "0o") and _split_ok(t[2:], {"0x": 16, "0b": 2, "0o": 8}[t[:2]]) is not None:
        base, body = {"0x": 16, "0b": 2, "0o": 8}[t[:2]], t[2:]
    return _split_ok(body, base)


def _split_ok(body, base):
    # strip suffix
    i = len(body)
    while i > 0 and body[i - 1] in "ul":
        i -= 1
    if len(body) - i > 3:
        return None
    num = body[:i]
    if base == 2 and num[:2] == "0b":
        num = num[2:]
        if num[:1] == "_":
            num = num[1:]
    if num == "":
        return None
    digs = "0123456789abcdef"[:base]
    groups = num.split("_")
    if any(g == "" or any(c not in digs for c in g) for g in groups):
        # a regex match with prefix whose int() fails is final (no retry without prefix) unless the
        # number/suffix structure itself did not match; distinguish: structure = [0-9a-f_]+[ul]{0,3}
        return None if not _structure(body) else "INVALID"
    return int("".join(groups), base)


def _structure(body):
    i = 0
    while i < len(body) and body[i] in "0123456789abcdef_":
        i += 1
    return i > 0 and len(body) - i <= 3 and all(c in "ul" for c in body[i:])


def ref_vti(s):
    r = ref_value_to_int(s)
    return None if r == "INVALID" else r


def run(ck):
    from spsdk.sbfile import misc as sbmisc
    from spsdk.sbfile.sb2 import commands as sb2cmd
    from spsdk.utils import misc

    ck.lean_obligations(generated=["PyFuns", "PyFuns2", "EnumTables", "PyFuns3", "Misc3Tables"])
    drv = ck.driver()
    ck.assume("Python int/bytes/str built-ins behave as documented (int(str, base), to_bytes, slicing)",
              "negative integers: get_bytes_cnt_of_int/value_to_bytes/load_hex_string refuse them with an SPSDK error (fix 55a6c57; every call on a "
              "negative value runs under a 50 ms alarm so that a regression to the endless loop is reported, not suffered); reverse_bits formats a sign -> ValueError",
              "non-ASCII strings are sampled by the oracle only (model is ASCII)")
    rng = ck.rng

    def corr(stream, reqs):
        """reqs: list of (input, request-line, real-canonical-line)."""
        if drv is None:
            return
        answers = drv.batch([r[1] for r in reqs])
        for (inp, _line, real), ans in zip(reqs, answers):
            stream.compare(inp, real, ans)

    # ------------------------------------------------------------------ generated integer functions
    s = ck.stream("int_helpers", "exhaustive (n,a) in [-3,70]x[-2,17]; check_range over [-4,6]^3 + boundary classes; "
                  "swap16/swap32/mem-id over boundary values 2^k-1,2^k,2^k+1 and random; non-trivial = distinct input")
    reqs = []
    for n in range(-3, 71):
        for a in range(-2, 18):
            r = pyres(misc.align, n, a)
            s.note(("align", n, a))
            reqs.append((("align", n, a), f"align {n} {a}", canon(r)))
            if a > 0 and n >= 0:
                ok = r[0] == "ok" and r[1] % a == 0 and n <= r[1] < n + a
                s.expect(ok, ("align", n, a), "align does not return the smallest multiple of the alignment not below the input", r)
            else:
                s.expect(r[0] == "E:spsdk", ("align", n, a), "align accepts a non-positive alignment or negative number", r)
    big = [rng.getrandbits(k) for k in (33, 64, 200, 512) for _ in range(4)]
    for n in big:
        for a in (1, 3, 4, 16, 512, 4096, 2 ** 40 + 1):
            r = pyres(misc.align, n, a)
            s.note(("align", n, a))
            reqs.append((("align", n, a), f"align {n} {a}", canon(r)))
            s.expect(r[0] == "ok" and r[1] % a == 0 and n <= r[1] < n + a, ("align", n, a), "align wrong on large value", r)
    vals = list(range(-4, 7))
    for x, lo, hi in itertools.product(vals, repeat=3):
        r = pyres(misc.check_range, x, lo, hi)
        s.note(("check_range", x, lo, hi))
        reqs.append((("check_range", x, lo, hi), f"check_range {x} {lo} {hi}", canon(r)))
        s.expect(r == ("ok", lo <= x <= hi), ("check_range", x, lo, hi), "check_range does not answer lo <= x <= hi", r, lo <= x <= hi)
    for k in (8, 16, 32, 64):
        for x in (-1, 0, 2 ** k - 1, 2 ** k, 2 ** k + 1):
            r = pyres(misc.check_range, x, 0, 2 ** k - 1)
            s.note(("check_range", x, 0, 2 ** k - 1))
            reqs.append((("check_range", x, k), f"check_range {x} 0 {2 ** k - 1}", canon(r)))
            s.expect(r == ("ok", 0 <= x <= 2 ** k - 1), ("check_range", x, 0, 2 ** k - 1), "check_range does not answer lo <= x <= hi", r)
    r0 = pyres(misc.check_range, 2 ** 32)
    s.expect(r0 == ("ok", False), ("check_range", 2 ** 32), "check_range default bounds are not [0, 2^32-1]", r0)
    sw16 = sorted(set([-2, -1, 0, 1, 0xFF, 0x100, 0x1234, 0xFFFE, 0xFFFF, 0x10000, 0x10001] + [rng.randrange(0x10000) for _ in range(200)]))
    for x in sw16:
        r = pyres(misc.swap16, x)
        s.note(("swap16", x))
        reqs.append((("swap16", x), f"swap16 {x}", canon(r)))
        if 0 <= x <= 0xFFFF:
            want = int.from_bytes(x.to_bytes(2, "big"), "little")
            s.expect(r == ("ok", want) and pyres(misc.swap16, want) == ("ok", x), ("swap16", x), "swap16 is not the byte swap / not an involution", r, want)
        else:
            s.expect(r[0] == "E:spsdk", ("swap16", x), "swap16 accepts out-of-range input", r)
    sw32 = sorted(set([-1, 0, 1, 0xFFFF, 0x10000, 0x12345678, 0xFFFFFFFE, 0xFFFFFFFF, 0x100000000] + [rng.getrandbits(32) for _ in range(200)]))
    for x in sw32:
        r = pyres(misc.swap32, x)
        s.note(("swap32", x))
        reqs.append((("swap32", x), f"swap32 {x}", canon(r)))
        if 0 <= x <= 0xFFFFFFFF:
            want = int.from_bytes(x.to_bytes(4, "big"), "little")
            s.expect(r == ("ok", want) and pyres(misc.swap32, want) == ("ok", x), ("swap32", x), "swap32 is not the byte swap / not an involution", r, want)
        else:
            s.expect(r[0] == "E:spsdk", ("swap32", x), "swap32 accepts out-of-range input", r)
    for size in list(range(0, 70)) + [rng.randrange(1 << 30) for _ in range(20)]:
        for nm, fn in (("sb_align", sbmisc.SecBootBlckSize.align), ("sb_is_aligned", sbmisc.SecBootBlckSize.is_aligned),
                       ("sb_num_blocks", sbmisc.SecBootBlckSize.to_num_blocks)):
            r = pyres(fn, size)
            s.note((nm, size))
            reqs.append(((nm, size), f"{nm} {size}", canon(r)))
            if nm == "sb_align":
                s.expect(r == ("ok", (size + 15) // 16 * 16), (nm, size), "SecBootBlckSize.align is not the 16-byte round-up", r)
            elif nm == "sb_is_aligned":
                s.expect(r == ("ok", size % 16 == 0), (nm, size), "SecBootBlckSize.is_aligned wrong", r)
            else:
                s.expect(r == (("ok", size // 16) if size % 16 == 0 else ("E:spsdk",)), (nm, size), "SecBootBlckSize.to_num_blocks wrong", r)
    for d in (0, 1, 8, 9, 0x10, 0xFF):
        for g in range(0, 16):
            r = pyres(sb2cmd.get_memory_id, d, g)
            s.note(("memory_id", d, g))
            reqs.append((("memory_id", d, g), f"memory_id {d} {g}", canon(r)))
            ok = r[0] == "ok" and pyres(sb2cmd.get_device_id, r[1]) == ("ok", d) and pyres(sb2cmd.get_group_id, r[1]) == ("ok", g)
            s.expect(ok, ("memory_id", d, g), "device/group id do not round-trip through the memory id", r)
            if r[0] == "ok":
                reqs.append((("device_id", r[1]), f"device_id {r[1]}", canon(pyres(sb2cmd.get_device_id, r[1]))))
                reqs.append((("group_id", r[1]), f"group_id {r[1]}", canon(pyres(sb2cmd.get_group_id, r[1]))))
    corr(s, reqs)
    s.exhaustive = False

    # ------------------------------------------------------------------ value_to_int on strings
    s = ck.stream("value_to_int", "every ASCII string of length <= L over the 16-character alphabet '%s' (L=4 quick, 5 thorough) "
                  "plus every string of length <= 6 (7 thorough) over '%s'; non-trivial = accepted or matching the regex structure" % (ALPHA_BIG, ALPHA_SMALL))
    L1 = ck.budget(4, 5)
    L2 = ck.budget(6, 7)
    strings = []
    for L in range(0, L1 + 1):
        strings.extend("".join(t) for t in itertools.product(ALPHA_BIG, repeat=L))
    seen = set(strings)
    for L in range(0, L2 + 1):
        for t in itertools.product(ALPHA_SMALL, repeat=L):
            st = "".join(t)
            if st not in seen:
                strings.append(st)
    extra = ["0X1F", " 0x1f ", "\t12\n", "0B101", "0O17", "1_000", "0x_1", "0b0b1", "0b0b_1", "0b_1", "12ul", "12ull", "12ulll", "12UL",
             "0x12u", "1__0", "_1", "1_", "0b2", "0o8", "0xg", "0b", "0x", "0o", "00", "007", "0b1_", "\x1c12\x1f", "١٢", "１２", "12 ",
             "٣", "0x１", "²", "1e3", "1.0", "-1", "+1", "0x-1", " ", "\n"]
    strings.extend(extra)
    reqs = []
    accepted = 0
    for st in strings:
        r = pyres(misc.value_to_int, st)
        ascii_ok = all(ord(c) < 128 for c in st)
        nontriv = r[0] == "ok" or _structure(st.strip().lower())
        s.note(st, nontrivial=nontriv, cls=r[0])
        if r[0] == "ok":
            accepted += 1
        if ascii_ok:
            want = ref_vti(st)
            s.expect(r == (("ok", want) if want is not None else ("E:spsdk",)), st,
                     "value_to_int disagrees with the documented number grammar (accept/reject or value)", r, want)
            reqs.append((st, "value_to_int " + hexs(st.encode()), canon(r)))
        else:
            # non-ASCII: must be rejected with an SPSDK error or be a pure whitespace-strip of an ASCII number
            core = st.strip()
            want = ref_vti(core) if all(ord(c) < 128 for c in core) else None
            s.expect(r == (("ok", want) if want is not None else ("E:spsdk",)), st, "value_to_int accepts a non-ASCII string with another meaning", r, want)
    # default argument and non-string branches
    for st, dflt in (("zz", 7), ("", 3), ("0x", 0)):
        r = pyres(misc.value_to_int, st, dflt)
        s.note(("default", st, dflt))
        s.expect(r == ("ok", dflt) if dflt is not None else True, ("default", st, dflt), "value_to_int ignores the default for invalid input", r, dflt)
    for b in (b"", b"\x01", b"\x01\x02", bytes(range(9))):
        r = pyres(misc.value_to_int, b)
        s.note(("bytes", b))
        s.expect(r == ("ok", int.from_bytes(b, "big")), ("bytes", b), "value_to_int(bytes) is not the big-endian value", r)
    corr(s, reqs)
    s.exhaustive = True
    ck.extra["value_to_int_accepted"] = accepted

    # ------------------------------------------------------------------ int <-> bytes
    s = ck.stream("int_bytes", "values 0..70000 step classes + boundary values 2^k-1,2^k,2^k+1 for k<=512 + random up to 2^512; "
                  "all (align_to_2n, byte_cnt in {None,1,2,3,4,8,16,65}) x endianness; non-trivial = distinct input")
    values = sorted(set(list(range(0, 300)) + [255, 256, 65535, 65536, 70000, 2 ** 24 - 1, 2 ** 24] +
                        [2 ** k + d for k in range(8, 513, 8) for d in (-1, 0, 1)] +
                        [rng.getrandbits(rng.choice([9, 17, 33, 70, 130, 512])) for _ in range(ck.budget(200, 4000))]))
    reqs = []
    for v in values:
        for a2n in (True, False):
            r = pyres(misc.get_bytes_cnt_of_int, v, a2n)
            s.note(("bytes_cnt", v, a2n))
            reqs.append((("bytes_cnt", v, a2n), f"bytes_cnt {v} {int(a2n)} 0", canon(r)))
            minimal = max(1, (v.bit_length() + 7) // 8)
            if a2n:
                want = minimal if minimal <= 2 else (minimal + 3) // 4 * 4
            else:
                want = minimal
            s.expect(r == ("ok", want), ("bytes_cnt", v, a2n), "get_bytes_cnt_of_int does not pick the documented width", r, want)
            for bc in (None, 1, 2, 3, 4, 8, 16, 65):
                for endian in (misc.Endianness.BIG, misc.Endianness.LITTLE):
                    if bc is not None and v > 2 ** 64 and rng.random() < 0.8:
                        continue
                    r = pyres(misc.value_to_bytes, v, a2n, bc, endian)
                    s.note(("value_to_bytes", v, a2n, bc, endian.value))
                    reqs.append((("value_to_bytes", v, a2n, bc, endian.value),
                                 f"value_to_bytes {v} {int(a2n)} {bc or 0} {int(endian == misc.Endianness.LITTLE)}", canon(r)))
                    if r[0] == "ok":
                        back = int.from_bytes(r[1], endian.value)
                        width_ok = len(r[1]) == (bc if bc else want)
                        s.expect(back == v and width_ok, ("value_to_bytes", v, a2n, bc, endian.value),
                                 "value_to_bytes does not round-trip or has the wrong width", r, (v, bc or want))
                    else:
                        s.expect(r[0] == "E:spsdk" and bc is not None and want > bc, ("value_to_bytes", v, a2n, bc, endian.value),
                                 "value_to_bytes rejects a value that fits (or raises a non-SPSDK error)", r)
    corr(s, reqs)

    # ------------------------------------------------------------------ byte strings
    s = ck.stream("byte_helpers", "every byte string of length <= 2 over {00,01,80,ff}, every length 0..66 with random content "
                  "(x3 quick, x40 thorough): reverse_bytes_in_longs, change_endianness, swap_bytes, align_block, extend_block, "
                  "BinaryPattern.get_block, reverse_bits; non-trivial = distinct input")
    blobs = [bytes(t) for L in range(0, 3) for t in itertools.product([0, 1, 0x80, 0xFF], repeat=L)]
    for L in range(0, 67):
        for _ in range(ck.budget(3, 40)):
            blobs.append(bytes(rng.getrandbits(8) for _ in range(L)))
    reqs = []
    for b in blobs:
        h = hexs(b)
        r = pyres(misc.reverse_bytes_in_longs, b)
        s.note(("rev_longs", b))
        reqs.append((("rev_longs", b), f"rev_longs {h}", canon(r)))
        if len(b) % 4 == 0:
            want = b"".join(b[i:i + 4][::-1] for i in range(0, len(b), 4))
            s.expect(r == ("ok", want) and pyres(misc.reverse_bytes_in_longs, want) == ("ok", b), ("rev_longs", b), "reverse_bytes_in_longs is not an involution on 4-byte words", r)
        else:
            s.expect(r[0] == "E:spsdk", ("rev_longs", b), "reverse_bytes_in_longs accepts a length that is not a multiple of 4", r)
        r = pyres(misc.change_endianness, b)
        s.note(("change_endianness", b))
        reqs.append((("change_endianness", b), f"change_endianness {h}", canon(r)))
        if len(b) in (1, 2) or len(b) % 4 == 0:
            ok = r[0] == "ok" and pyres(misc.change_endianness, bytes(r[1])) in (("ok", b), ("ok", bytearray(b)))
            s.expect(ok, ("change_endianness", b), "change_endianness is not an involution", r)
        else:
            s.expect(r[0] == "E:spsdk", ("change_endianness", b), "change_endianness accepts an unsupported length", r)
        r = pyres(misc.swap_bytes, b)
        s.note(("swap_bytes", b))
        reqs.append((("swap_bytes", b), f"swap_bytes {h}", canon(r)))
        if len(b) % 2 == 0:
            want = bytes(b[i ^ 1] for i in range(len(b)))
            s.expect(r == ("ok", want) and pyres(misc.swap_bytes, want) == ("ok", b), ("swap_bytes", b), "swap_bytes is not the pairwise swap / involution", r)
        else:
            s.expect(r[0] != "ok", ("swap_bytes", b), "swap_bytes accepts an odd length", r, finding=None)
        for a in (-1, 0, 1, 2, 4, 16, 64):
            for pad in (0, 0xFF, 0x5A):
                r = pyres(misc.align_block, b, a, pad)
                s.note(("align_block", b, a, pad))
                reqs.append((("align_block", b, a, pad), f"align_block {h} {a} {pad}", canon(r)))
                if a > 0:
                    ok = r[0] == "ok" and r[1][:len(b)] == b and len(r[1]) == (len(b) + a - 1) // a * a and set(r[1][len(b):]) <= {pad}
                    s.expect(ok, ("align_block", b, a, pad), "align_block does not only append padding up to the aligned length", r)
                else:
                    s.expect(r[0] == "E:spsdk", ("align_block", b, a, pad), "align_block accepts a non-positive alignment", r)
        for ln in (len(b) - 1, len(b), len(b) + 1, len(b) + 17):
            r = pyres(misc.extend_block, b, ln, 0xA5)
            s.note(("extend_block", b, ln))
            reqs.append((("extend_block", b, ln), f"extend_block {h} {ln} 165", canon(r)))
            if ln >= len(b):
                s.expect(r == ("ok", b + b"\xa5" * (ln - len(b))), ("extend_block", b, ln), "extend_block does not append exactly the padding", r)
            else:
                s.expect(r[0] == "E:spsdk", ("extend_block", b, ln), "extend_block accepts a shorter length", r)
    for size in list(range(0, 40)) + [255, 256, 257, 600]:
        for kind, v in (("zeros", 0), ("ones", 0), ("inc", 0), ("num", 0), ("num", 0xA5), ("num", 0x1234), ("num", 0x123456), ("num", rng.getrandbits(72))):
            pat = kind if kind != "num" else hex(v)
            r = pyres(lambda: misc.BinaryPattern(pat).get_block(size))
            s.note(("pattern", pat, size))
            reqs.append((("pattern", pat, size), f"pattern {kind} {v} {size}", canon(r)))
            s.expect(r[0] == "ok" and len(r[1]) == size, ("pattern", pat, size), "BinaryPattern.get_block returns the wrong length", r)
            # the documented content, stated independently of the model: zeros / ones / 0,1,2,... mod 256 / the number's own minimal big-endian bytes repeated
            unit = {"zeros": b"\x00", "ones": b"\xff", "inc": bytes(range(256))}.get(kind) or v.to_bytes(max(1, (v.bit_length() + 7) // 8), "big")
            want = (unit * (size // len(unit) + 1))[:size]
            s.expect(r[0] == "ok" and r[1] == want, ("pattern", pat, size), "BinaryPattern.get_block is not the documented pattern (name, or the number's minimal "
                     "big-endian bytes, repeated and cut to the size)", r, hexs(want))
    for n in (1, 4, 8, 16, 32, 33, 64):
        for x in sorted(set(v for v in [0, 1, 2, 2 ** n - 1, 2 ** (n - 1)] + [rng.getrandbits(n) for _ in range(20)] if v < 2 ** n)):
            r = pyres(misc.reverse_bits, x, n)
            s.note(("reverse_bits", x, n))
            reqs.append((("reverse_bits", x, n), f"reverse_bits {x} {n}", canon(r)))
            want = int(format(x, f"0{n}b")[::-1], 2)
            s.expect(r == ("ok", want) and pyres(misc.reverse_bits, want, n) == ("ok", x), ("reverse_bits", x, n), "reverse_bits is not an involution on n-bit values", r)
    for n in (0x0, 0x1, 0x9, 0x10, 0x99, 0x123, 0x999, 0x1000, 0x9999):
        r = pyres(lambda: sbmisc.BcdVersion3.from_str(f"{n:X}.0.9999"))
        s.note(("bcd", n))
        ok = r[0] == "ok" and (r[1].major, r[1].minor, r[1].service) == (n, 0, 0x9999) and str(r[1]) == f"{n:X}.0.9999"
        s.expect(ok, ("bcd", n), "BcdVersion3 does not round-trip through its string form", r)
        reqs.append((("bcd_from", n), "bcd_from " + hexs(f"{n:X}".encode()), canon(("ok", n) if r[0] == "ok" else r)))
        reqs.append((("bcd_to", n), f"bcd_to {n}", "ok:" + f"{n:X}"))
    for bad in ("1.2", "1.2.3.4", "12345.0.0", "a.0.0", "1..2"):
        r = pyres(lambda: sbmisc.BcdVersion3.from_str(bad))
        s.note(("bcd_bad", bad))
        s.expect(r[0] != "ok", ("bcd_bad", bad), "BcdVersion3.from_str accepts a malformed version", r)
    corr(s, reqs)

    run_phase2(ck, drv, corr, misc, sbmisc, values, sw32)
    run_phase3(ck, drv, corr, misc, sbmisc)


# ====================================================================================================== phase 2
class _Timeout(Exception):
    pass


def bounded(fn, *a, seconds=0.05):
    """pyres() with a wall-clock bound (SIGALRM, main thread only): ('timeout',) when the call does not return."""
    if threading.current_thread() is not threading.main_thread() or not hasattr(signal, "setitimer"):
        return None

    def handler(_sig, _frm):
        raise _Timeout()

    old = signal.signal(signal.SIGALRM, handler)
    try:
        signal.setitimer(signal.ITIMER_REAL, seconds)
        try:
            return pyres(fn, *a)
        except _Timeout:
            return ("timeout",)
        finally:
            signal.setitimer(signal.ITIMER_REAL, 0)
    except _Timeout:  # fired between the call and the cancellation
        return ("timeout",)
    finally:
        signal.signal(signal.SIGALRM, old)


def _hx(st: str) -> str:
    return hexs(st.encode())


def run_phase2(ck, drv, corr, misc, sbmisc, values, sw32):
    from spsdk.image.ahab.ahab_data import AhabTargetMemory
    from spsdk.sbfile.sb2.commands import EnumCmdTag

    rng = ck.rng
    ck.assume("float assumption of the translator: `int(ceil(a / b))` is the exact ceiling while |a|,|b| < 2^53 (both operands exact "
              "doubles, correctly rounded quotient); outside that range the generated function makes no claim (.error .other)",
              "load_hex_string is modelled for sources that do not name an existing file (the check runs it in an empty directory); "
              "the file branch is exercised by the oracle only",
              "SpsdkEnum labels are ASCII (str.upper modelled on ASCII)")
    FUEL = 200

    # ------------------------------------------------------------------ generated phase-2 functions vs the real ones
    s = ck.stream("generated2", "PyFuns2 (re-translated from the source each run) vs the real functions: get_bytes_cnt_of_int on the "
                  "int_bytes values x align_to_2n x byte_cnt in {None,0,1,2,3,4,8,16,65} (fuel 200) + negative values under a 50 ms "
                  "alarm; BcdVersion3._check_number on [-3,0x1100) + boundaries + random (all of [-3,0xA010] thorough); swap32 guard; "
                  "reverse_bytes_in_longs guard for len 0..66; extend_block/align_block num_padding for len 0..40 x lengths/alignments")
    reqs = []
    for v in values:
        for a2n in (True, False):
            for bc in (None, 0, 1, 2, 3, 4, 8, 16, 65):
                r = pyres(misc.get_bytes_cnt_of_int, v, a2n, bc)
                s.note(("gen_bytes_cnt", v, a2n, bc))
                reqs.append((("gen_bytes_cnt", v, a2n, bc), f"gen_bytes_cnt {FUEL} {v} {int(a2n)} {'none' if bc is None else bc}", canon(r)))
    for v in (-1, -2, -255, -256, -(2 ** 64)):
        r = bounded(misc.get_bytes_cnt_of_int, v)
        if r is None:
            continue
        s.note(("gen_bytes_cnt_negative", v))
        # a call that does not return is reported as E:other (= what fuel exhaustion of the translated loop would be)
        reqs.append((("gen_bytes_cnt_negative", v), f"gen_bytes_cnt 3000 {v} 1 none", "E:other" if r == ("timeout",) else canon(r)))
    ck.extra["get_bytes_cnt_of_int_negative"] = "refused with SPSDKValueError (fix 55a6c57); checked under a 50 ms alarm"
    bcd = set(range(-3, 0x1100)) | {0x9999, 0x999A, 0x99A0, 0x9A00, 0xA000, 0x9998, 0x10000, 0x19999, 2 ** 32}
    if ck.quick:
        bcd |= {rng.randrange(0x1100, 0xA010) for _ in range(3000)}
    else:
        bcd |= set(range(0x1100, 0xA011))
    for n in sorted(bcd):
        r = pyres(sbmisc.BcdVersion3._check_number, n)
        want = 0 <= n <= 0x9999 and f"{n:04X}".isdigit()
        s.note(("bcd_check", n), cls="ok" if r[0] == "ok" else r[0])
        s.expect(r == (("ok", True) if want else ("E:spsdk",)), ("bcd_check", n), "BcdVersion3._check_number does not accept exactly the "
                 "numbers whose four hex digits are decimal digits", r, want)
        reqs.append((("bcd_check", n), f"gen_bcd_check {n}", canon(r)))
    for x in sw32:
        r = pyres(misc.swap32, x)
        s.note(("swap32_guard", x))
        reqs.append((("swap32_guard", x), f"gen_swap32_guard {x}", "ok:true" if r[0] == "ok" else r[0]))
    for ln in range(0, 67):
        r = pyres(misc.reverse_bytes_in_longs, bytes(ln))
        s.note(("revlongs_guard", ln))
        reqs.append((("revlongs_guard", ln), f"gen_revlongs_guard {ln}", "ok:true" if r[0] == "ok" else r[0]))
    for ln in range(0, 41):
        for length in (ln - 2, ln - 1, ln, ln + 1, ln + 17, 0, 64):
            r = pyres(misc.extend_block, bytes(ln), length, 0xA5)
            s.note(("extend_np", ln, length))
            reqs.append((("extend_np", ln, length), f"gen_extend_np {ln} {length} 165", f"ok:{len(r[1]) - ln}" if r[0] == "ok" else r[0]))
        for a in range(-2, 18):
            r = pyres(misc.align_block, bytes(ln), a)
            s.note(("align_np", ln, a))
            reqs.append((("align_np", ln, a), f"gen_align_np {ln} {a}", f"ok:{len(r[1]) - ln}" if r[0] == "ok" else r[0]))
    corr(s, reqs)

    # ------------------------------------------------------------------ load_hex_string
    s = ck.stream("load_hex_string", "literal branch in an empty working directory: hex literals of exact / short / long size for sizes "
                  "1,2,3,4,5,8,16,32 with/without 0x/0X, upper case, separators, suffixes, invalid characters; every string of length <= 3 "
                  "over '01fx_uXb ' x sizes 1..4; bytes / int / None sources; sizes 0 and -1; file branch (oracle only); "
                  "non-trivial = distinct input")
    scratch = os.path.join(os.environ.get("VERIF_SCRATCH", "/tmp"), "c20-empty-cwd")
    os.makedirs(scratch, exist_ok=True)
    logging.getLogger("spsdk.utils.misc").setLevel(logging.ERROR)  # "key source is not specified, the random value is used"
    reqs = []
    lits = []
    for size in (1, 2, 3, 4, 5, 8, 16, 32):
        for first in (None, 0):
            good = bytes(rng.getrandbits(8) | 1 for _ in range(size))
            if first is not None:
                good = bytes([first]) + good[1:]
            h = good.hex()
            group = h[:2] + "_" + h[2:] if len(h) > 2 else h
            for lit in (h, "0x" + h, "0X" + h.upper(), h.upper(), h + "00", "00" + h, h[2:], h[1:], "zz" * size, (good + good).hex(), group,
                        h + "ul", h + "ulll", " " + h, h + " ", "0x" + " " + h, "0b" + h, "0o" + h, "+" + h, "-" + h, "0x0x" + h, h + "g"):
                lits.append((lit, size, good))
    for L in range(1, 4):
        for t in itertools.product("01fx_uXb ", repeat=L):
            for size in (1, 2, 3, 4):
                lits.append(("".join(t), size, None))
    with _cwd(scratch):
        for lit, size, good in lits:
            if lit == "":
                continue
            r = pyres(misc.load_hex_string, lit, size)
            s.note(("str", lit, size), cls=r[0])
            reqs.append((("str", lit, size), f"load_hex str {_hx(lit)} {size}", canon(r)))
            lit0x = lit if lit.startswith(("0x", "0X")) else "0x" + lit
            val = pyres(misc.value_to_int, lit0x)
            if r[0] == "ok":
                ok = len(r[1]) == size and val[0] == "ok" and int.from_bytes(r[1], "big") == val[1]
                s.expect(ok, ("str", lit, size), "load_hex_string accepts a literal but does not return its value on expected_size bytes", r, val)
            else:
                s.expect(r[0] == "E:spsdk", ("str", lit, size), "load_hex_string fails on a literal with a non-SPSDK error", r)
                fits = val[0] == "ok" and val[1] < 256 ** size
                s.expect(not fits, ("str", lit, size), "load_hex_string refuses a hex literal whose value fits expected_size bytes", r, val)
            if good is not None and lit.lower() in (good.hex(), "0x" + good.hex()):
                s.expect(r == ("ok", good), ("str", lit, size), "load_hex_string does not return the bytes of an exact-size hex literal", r, good)
        for size in (1, 2, 3, 4, 16):
            for b in (b"\x01", b"\x01\x02", bytes(range(1, size + 1)), bytes(size), bytes(size + 1), bytes(range(1, 17))):
                r = pyres(misc.load_hex_string, b, size)
                s.note(("bytes", b, size))
                reqs.append((("bytes", b, size), f"load_hex bytes {hexs(b)} {size}", canon(r)))
                if len(b) == size:
                    s.expect(r == ("ok", b), ("bytes", b, size), "load_hex_string(bytes) is not the identity", r)
                else:
                    s.expect(r[0] == "E:spsdk", ("bytes", b, size), "load_hex_string returns a bytes source of the wrong size unchanged "
                             "(expected_size is not enforced)", r)
            for v in (1, 255, 256, 65535, 65536, 2 ** 24, 2 ** 32 - 1, 2 ** 32, 2 ** 64, 2 ** 128 - 1, True):
                r = pyres(misc.load_hex_string, v, size)
                s.note(("int", v, size))
                reqs.append((("int", int(v), size), f"load_hex int {int(v)} {size}", canon(r)))
                if r[0] == "ok":
                    s.expect(len(r[1]) == size and int.from_bytes(r[1], "big") == v, ("int", v, size), "load_hex_string(int) does not "
                             "return the value on expected_size bytes", r)
                else:
                    s.expect(r[0] == "E:spsdk", ("int", v, size), "load_hex_string(int) fails with a non-SPSDK error", r)
        for src, kind, payload in ((None, "none", "-"), ("", "str", "-"), (b"", "bytes", "-"), (0, "int", "0")):
            for size in (-1, 0, 1, 16):
                r = pyres(misc.load_hex_string, src, size)
                s.note(("falsy", repr(src), size))
                reqs.append((("falsy", repr(src), size), f"load_hex {kind} {payload} {size}",
                             "ok:random" if r[0] == "ok" and len(r[1]) == size else ("ok:-" if r[0] == "ok" and size == 0 else canon(r))))
                if size >= 0:
                    s.expect(r[0] == "ok" and len(r[1]) == size, ("falsy", repr(src), size), "load_hex_string without a source does not "
                             "return expected_size random bytes", r)
        for size in (0, -1):
            for src in ("00", b"\x00", 1):
                r = pyres(misc.load_hex_string, src, size)
                s.note(("size", repr(src), size))
                s.expect(r[0] == "E:spsdk", ("size", repr(src), size), "load_hex_string accepts a non-positive expected size", r)
                kind, payload = ("str", _hx(src)) if isinstance(src, str) else (("bytes", hexs(src)) if isinstance(src, bytes) else ("int", str(src)))
                reqs.append((("size", repr(src), size), f"load_hex {kind} {payload} {size}", canon(r)))
        # file branch (oracle only): hex text file -> its value; binary file of the right size -> its content; else refused
        key = bytes(rng.getrandbits(8) | 1 for _ in range(16))
        files = {"k_hex.txt": key.hex().encode(), "k_0x.txt": b"0x" + key.hex().encode() + b"\n", "k_bin.bin": b"\xff\xfe" + key[2:],
                 "k_short.bin": b"\xff\xfe" + key[2:8], "k_bad.txt": b"hello world, not a key"}
        for name, content in files.items():
            with open(name, "wb") as fh:
                fh.write(content)
        for name, want in (("k_hex.txt", key), ("k_0x.txt", key), ("k_bin.bin", files["k_bin.bin"]), ("k_short.bin", None), ("k_bad.txt", None)):
            r = pyres(misc.load_hex_string, name, 16)
            s.note(("file", name))
            s.expect(r == (("ok", want) if want is not None else ("E:spsdk",)), ("file", name, files[name]),
                     "load_hex_string(file) does not return the key stored in the file / accepts a file of the wrong size", r, want)
        for name in files:
            with contextlib.suppress(OSError):
                os.remove(name)
    corr(s, reqs)

    # ------------------------------------------------------------------ value_to_bool, BinaryPattern, split_data
    s = ck.stream("small_helpers", "value_to_bool on spellings/case variants/ints/bools/None; BinaryPattern acceptance and .pattern on the "
                  "special names, their case variants and every string of length <= 2 over the 16-character alphabet + number samples; "
                  "split_data on every length 0..20 x sizes -2..8,16,64; non-trivial = distinct input")
    reqs = []
    for v in ["True", "true", "T", "1", "TRUE", "t", "tRue", "0", "", "yes", " true", "true ", "False", "1 ", "01", "11", "T1", "None"]:
        r = pyres(misc.value_to_bool, v)
        s.note(("bool_str", v))
        s.expect(r == ("ok", v in ("True", "true", "T", "1")), ("bool_str", v), "value_to_bool(str) is not 'one of True/true/T/1'", r)
        reqs.append((("bool_str", v), f"value_to_bool str {_hx(v)}", canon(r)))
    for v in (-1, 0, 1, 2, 2 ** 70):
        r = pyres(misc.value_to_bool, v)
        s.note(("bool_int", v))
        s.expect(r == ("ok", v != 0), ("bool_int", v), "value_to_bool(int) is not `!= 0`", r)
        reqs.append((("bool_int", v), f"value_to_bool int {v}", canon(r)))
    for v, line in ((True, "value_to_bool bool 1"), (False, "value_to_bool bool 0"), (None, "value_to_bool none -")):
        r = pyres(misc.value_to_bool, v)
        s.note(("bool_other", repr(v)))
        s.expect(r == ("ok", bool(v)), ("bool_other", repr(v)), "value_to_bool(bool/None) is not bool(value)", r)
        reqs.append((("bool_other", repr(v)), line, canon(r)))
    pats = list(misc.BinaryPattern.SPECIAL_PATTERNS) + ["Zeros", "ONES", "Inc", "rand ", " inc", "incr", "zero", "random", "", "0x", "0b", "12ul",
                                                          "0xFF", " 0x1f ", "1_000", "0b0b_1", "1__0", "-1", "1.5", "0X1F", "0b101", "0o17", "007",
                                                          hex(rng.getrandbits(72)), str(rng.getrandbits(100))]
    pats += ["".join(t) for L in (1, 2) for t in itertools.product(ALPHA_BIG, repeat=L)]
    for pt in pats:
        def mk(pt=pt):
            return misc.BinaryPattern(pt).pattern
        r = pyres(mk)
        num = ref_vti(pt) if pt != "" else None
        s.note(("pattern_init", pt), cls=r[0])
        accepted = num is not None or pt in ("rand", "zeros", "ones", "inc")
        s.expect((r[0] == "ok") == accepted and r[0] in ("ok", "E:spsdk"), ("pattern_init", pt), "BinaryPattern does not accept exactly "
                 "numbers and the special names", r, accepted)
        if r[0] == "ok":
            s.expect(r[1] == (hex(num) if num is not None else pt), ("pattern_init", pt), "BinaryPattern.pattern is not hex(value) / the name", r)
            again = pyres(lambda: misc.BinaryPattern(r[1]).pattern)
            s.expect(again == r, ("pattern_init", pt), "BinaryPattern.pattern does not re-parse to itself", again, r)
        reqs.append((("pattern_accept", pt), f"pattern_accept {_hx(pt)}", "ok:true" if r[0] == "ok" else "ok:false"))
        if r[0] == "ok":
            reqs.append((("pattern_prop", pt), f"pattern_prop {_hx(pt)}", "ok:" + _hx(r[1])))
    for L in range(0, 21):
        data = bytes(rng.getrandbits(8) for _ in range(L))
        for size in list(range(-2, 9)) + [16, 64]:
            r = pyres(lambda: list(misc.split_data(data, size)))
            s.note(("split_data", data, size))
            if size > 0:
                ok = (r[0] == "ok" and b"".join(r[1]) == data and all(len(c) == size for c in r[1][:-1])
                      and all(1 <= len(c) <= size for c in r[1]) and len(r[1]) == (L + size - 1) // size)
                s.expect(ok, ("split_data", data, size), "split_data chunks do not concatenate to the data / have the wrong sizes", r)
            reqs.append((("split_data", data, size), f"split_data {hexs(data)} {size}",
                         "ok:" + ",".join(hexs(bytes(c)) for c in r[1]) if r[0] == "ok" else r[0]))
    corr(s, reqs)

    # ------------------------------------------------------------------ SpsdkEnum lookups on two real enums
    s = ck.stream("spsdk_enum", "sb2 EnumCmdTag and AhabTargetMemory: from_tag/get_label/get_description/contains for tags -2..40, the member "
                  "tags and 0x8000; from_label/get_tag/contains for every label in 6 case/spacing variants + unknown labels; "
                  "non-trivial = distinct input")
    reqs = []

    def row(m):
        return f"{m.tag}:{_hx(m.label)}:" + ("none" if m.description is None else _hx(m.description))

    for name, cls in (("sb2cmd", EnumCmdTag), ("ahabmem", AhabTargetMemory)):
        members = list(cls.__members__.values())
        live = [[m.tag, m.label, m.description] for m in members]
        gen = [m[1:] for m in ck.generated_meta.get("EnumTables", {}).get("enums", {}).get(
            {"sb2cmd": "enumSb2CmdTag", "ahabmem": "enumAhabTargetMemory"}[name], {}).get("members", [])]
        s.note(("table", name))
        s.compare(("table", name), live, gen, "generated member table differs from the live enum")
        for t in sorted(set(range(-2, 41)) | {m.tag for m in members} | {0x8000}):
            r = pyres(cls.from_tag, t)
            known = [m for m in members if m.tag == t]
            s.note((name, "from_tag", t), cls=r[0])
            s.expect(r == (("ok", known[0]) if known else ("E:spsdk",)) and (r[0] != "ok" or r[1] is known[0]), (name, "from_tag", t),
                     "from_tag does not return the member with that tag / does not raise SPSDKKeyError for an unknown tag", r)
            reqs.append(((name, "from_tag", t), f"enum {name} from_tag {t}", "ok:" + row(r[1]) if r[0] == "ok" else r[0]))
            r2 = pyres(cls.get_label, t)
            reqs.append(((name, "get_label", t), f"enum {name} get_label {t}", "ok:" + _hx(r2[1]) if r2[0] == "ok" else r2[0]))
            if r[0] == "ok":
                back = pyres(cls.from_label, r2[1]) if r2[0] == "ok" else r2
                s.expect(back[0] == "ok" and back[1] is r[1], (name, "from_label(get_label)", t), "from_label(get_label(tag)) is not from_tag(tag)", back)
            for d in (None, "dflt"):
                r3 = pyres(cls.get_description, t, d)
                reqs.append(((name, "get_description", t, d), f"enum {name} get_description {t} {'none' if d is None else _hx(d)}",
                             ("ok:" + ("none" if r3[1] is None else _hx(r3[1]))) if r3[0] == "ok" else r3[0]))
            r4 = pyres(cls.contains, t)
            s.expect(r4 == ("ok", bool(known)), (name, "contains", t), "contains(tag) does not answer truthfully", r4)
            reqs.append(((name, "contains_tag", t), f"enum {name} contains_tag {t}", canon(r4)))
        labels = []
        for m in members:
            l = m.label
            labels += [l, l.lower(), l.upper(), l.swapcase(), l[:-1], l + " ", " " + l, l + "_", l.capitalize()]
        labels += ["", "x", "UNKNOWN", "nop ", "N0P", "_"]
        for l in labels:
            r = pyres(cls.from_label, l)
            known = [m for m in members if m.label.upper() == l.upper()]
            s.note((name, "from_label", l), cls=r[0])
            s.expect(r[0] == ("ok" if known else "E:spsdk") and (r[0] != "ok" or r[1] is known[0]), (name, "from_label", l),
                     "from_label is not the case-insensitive label lookup / does not raise SPSDKKeyError for an unknown label", r)
            reqs.append(((name, "from_label", l), f"enum {name} from_label {_hx(l)}", "ok:" + row(r[1]) if r[0] == "ok" else r[0]))
            r2 = pyres(cls.get_tag, l)
            reqs.append(((name, "get_tag", l), f"enum {name} get_tag {_hx(l)}", canon(r2)))
            if r[0] == "ok":
                back = pyres(cls.from_tag, r2[1]) if r2[0] == "ok" else r2
                s.expect(back[0] == "ok" and back[1] is r[1], (name, "from_tag(get_tag)", l), "from_tag(get_tag(label)) is not from_label(label)", back)
            r4 = pyres(cls.contains, l)
            s.expect(r4 == ("ok", bool(known)), (name, "contains", l), "contains(label) does not answer truthfully", r4)
            reqs.append(((name, "contains_label", l), f"enum {name} contains_label {_hx(l)}", canon(r4)))
        r = pyres(cls.contains, 1.5)
        s.expect(r[0] == "E:spsdk", (name, "contains", 1.5), "contains(non int/str) is not refused with an SPSDK error", r)
    corr(s, reqs)


# ====================================================================================================== phase 3
BCD_GRAMMAR = re.compile(r"[0-9]{1,4}\.[0-9]{1,4}\.[0-9]{1,4}\Z")          # documented: #.#.#, # = 1-4 decimal digits
F_SIZE = "C20-size-fmt-last-unit"


def run_phase3(ck, drv, corr, misc, sbmisc):
    from spsdk.image.ahab.ahab_data import FlagsSrkSet

    rng = ck.rng
    ck.assume("size_fmt is modelled in exact arithmetic: equal to the float implementation for use_kibibyte=True and |num| < 2^53 (divisions by "
              "1024.0 are exact, '%.1f' is a correctly rounded conversion); for base 1000 only inputs away from a rounding tie are compared",
              "load_hex_string file branch: the model covers ASCII file content; a byte >= 0x80 is treated as 'not text' (exact for undecodable "
              "content, valid non-ASCII UTF-8 is outside the model); the file is the one find_file() returns",
              "BcdVersion3 / format_value / SpsdkSoftEnum strings are ASCII")

    s = ck.stream("helpers3", "reverse_bits on x >= 2^n / negative x, n in 0..9 x x in -2..70 + boundaries; format_value over values x sizes 0..40,64 x "
                  "delimiters x prefix; value_to_bytes on bytes/str/int sources x byte_cnt incl. 0/negative; extend_block with integer paddings; "
                  "find_first; SpsdkSoftEnum (FlagsSrkSet) tags -20..300; size_fmt on boundaries of every unit (kibi: all < 2^53); "
                  "SecBootBlckSize.align_block_fill_zeros len 0..70; Endianness; change_endianness widths 0..40; non-trivial = distinct input")
    reqs = []
    # ---- reverse_bits on the whole integer domain
    for n in list(range(-1, 10)) + [16, 32]:
        xs = sorted(set(list(range(-2, 71)) + [2 ** n_ + d for n_ in (8, 16, 32, 33) for d in (-1, 0, 1)] + [rng.getrandbits(40) for _ in range(5)]))
        for x in xs:
            r = pyres(misc.reverse_bits, x, n)
            s.note(("reverse_bits", x, n), cls="in-domain" if 0 <= x < 2 ** max(n, 0) else ("wide" if x >= 0 else "negative"))
            reqs.append((("reverse_bits", x, n), f"reverse_bits_i {x} {n}", canon(r)))
            if x >= 0 and n >= 0:
                want = int(bin(x)[2:].zfill(n)[::-1], 2)   # the bits of x on max(n, bit_length) positions, mirrored
                s.expect(r == ("ok", want), ("reverse_bits", x, n), "reverse_bits is not the mirror image of x on max(bits_cnt, bit_length(x)) bits", r, want)
            else:
                s.expect(r[0] != "ok", ("reverse_bits", x, n), "reverse_bits accepts a negative value / width", r)
    # ---- format_value
    fvals = sorted(set([0, 1, 5, 9, 10, 15, 16, 255, 256, 0x1234, 0x12345, 0xFFFF, 0x10000, 2 ** 32 - 1, 2 ** 32, 2 ** 64 - 1, 2 ** 70] +
                       [rng.getrandbits(k) for k in (3, 7, 12, 20, 31, 33, 65) for _ in range(2)]))
    fvals = fvals + [-v for v in fvals[1:8]]
    for v in fvals:
        for size in list(range(0, 41)) + [64, -1, -8]:
            for delim, pfx in (("_", True), ("_", False), ("", True), (" ", True), ("-:", True), ("__", False)):
                if delim not in ("_",) and size % 5:
                    continue
                r = pyres(misc.format_value, v, size, delim, pfx)
                s.note(("format_value", v, size, delim, pfx))
                reqs.append((("format_value", v, size, delim, pfx), f"format_value {v} {size} {_hx(delim)} {int(pfx)}",
                             ("ok:" + _hx(r[1])) if r[0] == "ok" else r[0]))
                if size < 0:
                    s.expect(r[0] != "ok", ("format_value", v, size), "format_value accepts a negative size", r)
                    continue
                binm = size % 8 != 0
                digits = format(abs(v), "b" if binm else "x").zfill(size if binm else size // 8 * 2)
                head = ("-" if v < 0 else "") + (("0b" if binm else "0x") if pfx else "")
                ok = r[0] == "ok" and r[1].startswith(head)
                body = r[1][len(head):] if ok else ""
                if delim and ok:
                    groups = body.split(delim[::-1])
                    ok = "".join(groups) == digits and all(len(g) == 4 for g in groups[1:]) and 1 <= len(groups[0]) <= 4
                elif ok:
                    ok = body == digits
                s.expect(ok, ("format_value", v, size, delim, pfx), "format_value is not sign + prefix + zero-padded digits grouped by four from the right", r, head + digits)
                if ok and delim == "_" and pfx and v >= 0:
                    back = pyres(misc.value_to_int, r[1])
                    s.expect(back == ("ok", v), ("format_value", v, size), "value_to_int(format_value(v)) is not v", back, v)
    # ---- value_to_bytes on every source type
    srcs = [("bytes", b""), ("bytes", b"\x01\x02\x03"), ("bytes", bytearray(b"\xff\x00")), ("str", "0x0"), ("str", "0x010203"), ("str", " 1_000 "),
            ("str", "0b101"), ("str", "zz"), ("str", ""), ("str", "12ul"), ("str", "65536"), ("int", 0), ("int", 1), ("int", 255), ("int", 256),
            ("int", 65536), ("int", 2 ** 32), ("int", True)]
    for kind, val in srcs:
        for a2n in (True, False):
            for bc in (None, 0, 1, 2, 3, 4, 8, -1):
                for endian in (misc.Endianness.BIG, misc.Endianness.LITTLE):
                    r = pyres(misc.value_to_bytes, val, a2n, bc, endian)
                    s.note(("value_to_bytes_any", kind, repr(val), a2n, bc, endian.value))
                    payload = hexs(bytes(val)) if kind == "bytes" else (_hx(val) if kind == "str" else str(int(val)))
                    reqs.append((("value_to_bytes_any", kind, repr(val), a2n, bc, endian.value),
                                 f"v2b_any {kind} {payload} {int(a2n)} {'none' if bc is None else bc} {int(endian == misc.Endianness.LITTLE)}", canon(r)))
                    if kind == "bytes":
                        s.expect(r == ("ok", bytes(val)), ("value_to_bytes_any", kind, repr(val)), "value_to_bytes(bytes) is not the identity", r)
                    elif kind == "str":
                        num = pyres(misc.value_to_int, val)
                        via = pyres(misc.value_to_bytes, num[1], a2n, bc, endian) if num[0] == "ok" else ("E:spsdk",)
                        s.expect(r == via, ("value_to_bytes_any", kind, val, a2n, bc), "value_to_bytes(str) is not value_to_bytes(value_to_int(str))", r, via)
                    if r[0] == "ok" and kind != "bytes" and bc:
                        s.expect(len(r[1]) == bc, ("value_to_bytes_any", kind, repr(val), bc), "value_to_bytes ignores byte_cnt", r)
    # ---- negative integers: refused with an SPSDK error (fix 55a6c57); every call under the alarm - a call that does not return is a failure
    for v in (-1, -2, -255, -256, -(2 ** 64)):
        for what, fn, args, line in (("get_bytes_cnt_of_int", misc.get_bytes_cnt_of_int, (v,), None),
                                     ("value_to_bytes", misc.value_to_bytes, (v,), f"v2b_any int {v} 1 none 0"),
                                     ("value_to_bytes_bc", misc.value_to_bytes, (v, False, 4), f"v2b_any int {v} 0 4 0"),
                                     ("load_hex_string", misc.load_hex_string, (v, 4), f"load_hex int {v} 4")):
            r = bounded(fn, *args)
            if r is None:
                break
            hung = r == ("timeout",) or (r[0] == "E:other" and len(r) > 1 and "_Timeout" in str(r[1]))
            s.note((what, "negative", v), cls="negative")
            s.expect(not hung and r[0] == "E:spsdk", (what, "negative", v), f"{what} does not refuse a negative value with an SPSDK error"
                     + (" (the call did not return within 50 ms: `value >>= 8` never reaches 0)" if hung else ""), "does not return" if hung else r, "E:spsdk")
            if line:
                reqs.append(((what, "negative", v), line, "E:other" if hung else canon(r)))
    # ---- extend_block with integer paddings
    for L in (0, 1, 5):
        b = bytes(range(1, L + 1))
        for ln in (L - 1, L, L + 1, L + 4):
            for pad in (-1, 0, 1, 255, 256, 300):
                r = pyres(misc.extend_block, b, ln, pad)
                s.note(("extend_block_i", b, ln, pad))
                reqs.append((("extend_block_i", b, ln, pad), f"extend_block_i {hexs(b)} {ln} {pad}", canon(r)))
                if ln < L:
                    s.expect(r[0] == "E:spsdk", ("extend_block_i", b, ln, pad), "extend_block accepts a shorter length", r)
                elif ln == L:
                    s.expect(r == ("ok", b), ("extend_block_i", b, ln, pad), "extend_block changes a block that already has the length", r)
                elif 0 <= pad <= 255:
                    s.expect(r == ("ok", b + bytes([pad]) * (ln - L)), ("extend_block_i", b, ln, pad), "extend_block does not append exactly the padding", r)
                else:
                    s.expect(r[0] != "ok", ("extend_block_i", b, ln, pad), "extend_block accepts a padding value outside a byte", r)
    # ---- find_first
    for L in range(0, 9):
        data = bytes(rng.getrandbits(4) for _ in range(L))
        for m, rem in ((2, 0), (2, 1), (3, 2), (5, 4), (16, 15), (1, 0)):
            r = pyres(misc.find_first, list(data), lambda x, m=m, rem=rem: x % m == rem)
            s.note(("find_first", data, m, rem))
            hits = [x for x in data if x % m == rem]
            s.expect(r == ("ok", hits[0] if hits else None), ("find_first", data, m, rem), "find_first is not the first matching element / None", r)
            reqs.append((("find_first", data, m, rem), f"find_first {hexs(data)} {m} {rem}", "ok:none" if r == ("ok", None) else canon(r)))

    # ---- SpsdkSoftEnum
    def row(m):
        return f"{m.tag}:{_hx(m.label)}:" + ("none" if m.description is None else _hx(m.description))

    members = list(FlagsSrkSet.__members__.values())
    live = [[m.tag, m.label, m.description] for m in members]
    gen = [m[1:] for m in ck.generated_meta.get("EnumTables", {}).get("enums", {}).get("enumFlagsSrkSet", {}).get("members", [])]
    s.note(("table", "flagssrk"))
    s.compare(("table", "flagssrk"), live, gen, "generated member table differs from the live enum")
    clsname = _hx(FlagsSrkSet.__name__)
    for t in list(range(-20, 40)) + [99, 255, 256, 300, 0x8000, -0x8000, 2 ** 40]:
        known = [m for m in members if m.tag == t]
        r = pyres(FlagsSrkSet.from_tag, t)
        s.note(("soft", "from_tag", t), cls="known" if known else "unknown")
        ok = r[0] == "ok" and r[1].tag == t and (not known or r[1] is known[0]) and (known or r[1].label not in [m.label for m in members])
        s.expect(ok, ("soft", "from_tag", t), "SpsdkSoftEnum.from_tag fails / returns a member with another tag / invents a label that a real member has", r)
        reqs.append((("soft", "from_tag", t), f"soft flagssrk {clsname} from_tag {t}", "ok:" + row(r[1]) if r[0] == "ok" else r[0]))
        r2 = pyres(FlagsSrkSet.get_label, t)
        s.expect(r2[0] == "ok" and (not known or r2[1] == known[0].label), ("soft", "get_label", t), "SpsdkSoftEnum.get_label fails / wrong label", r2)
        reqs.append((("soft", "get_label", t), f"soft flagssrk {clsname} get_label {t}", "ok:" + _hx(r2[1]) if r2[0] == "ok" else r2[0]))
        for d in (None, "dflt"):
            r3 = pyres(FlagsSrkSet.get_description, t, d)
            s.expect(r3[0] == "ok" and (not known or r3[1] == (known[0].description or d)), ("soft", "get_description", t, d), "SpsdkSoftEnum.get_description fails / wrong text", r3)
            reqs.append((("soft", "get_description", t, d), f"soft flagssrk {clsname} get_description {t} {'none' if d is None else _hx(d)}",
                         ("ok:" + ("none" if r3[1] is None else _hx(r3[1]))) if r3[0] == "ok" else r3[0]))
        r4 = pyres(FlagsSrkSet.contains, t)
        reqs.append((("soft", "contains", t), f"soft flagssrk contains_tag {t}", canon(r4)))
    for l in ("none", "NXP", "Oem", "zz", "FlagsSrkSet:Unknown_0x63", ""):
        r = pyres(FlagsSrkSet.from_label, l)
        known = [m for m in members if m.label.upper() == l.upper()]
        s.note(("soft", "from_label", l))
        s.expect(r[0] == ("ok" if known else "E:spsdk") and (r[0] != "ok" or r[1] is known[0]), ("soft", "from_label", l), "SpsdkSoftEnum.from_label is not the strict label lookup", r)
        reqs.append((("soft", "from_label", l), f"enum flagssrk from_label {_hx(l)}", "ok:" + row(r[1]) if r[0] == "ok" else r[0]))

    # ---- size_fmt
    for kibi in (True, False):
        base = 1024 if kibi else 1000
        units = ["B"] + [c + ("iB" if kibi else "B") for c in "kMGTP"]
        nums = {-2000, -5, -1, 0, 1, 9, 10, 999, 1000, 1001, 1023, 1024, 1025, 1075, 1076, 1126, 1127, 1177, 1178, 1536, 10 ** 9, 2 ** 53 - 1}
        for k in range(1, 8):
            for d in (-1, 0, 1):
                nums.add(base ** k + d)
            nums.add(base ** k * 3 // 2)
            nums.add(base ** k // 20 * 19)
        nums |= {rng.randrange(base ** k) for k in range(1, 7) for _ in range(ck.budget(6, 60))}
        for n in sorted(nums):
            r = pyres(misc.size_fmt, n, kibi)
            s.note(("size_fmt", n, kibi), cls="beyond-last-unit" if n >= base ** 6 - base ** 6 // 2 ** 40 else "in-range")
            exact_model = (kibi and abs(n) < 2 ** 53)
            if not kibi and 0 <= n:
                k_ = 0
                while k_ < 6 and n >= base ** (k_ + 1):
                    k_ += 1
                d_ = base ** k_
                dist = abs(2 * ((10 * n) % d_) - d_)          # 0 = exact rounding tie of the one-decimal mantissa
                exact_model = n < 10 ** 15 and (k_ == 0 or dist * 10 ** 6 > d_)
            if exact_model:
                reqs.append((("size_fmt", n, kibi), f"size_fmt {n} {int(kibi)}", ("ok:" + _hx(r[1])) if r[0] == "ok" else r[0]))
            if n < base:
                s.expect(r == ("ok", f"{n} B"), ("size_fmt", n, kibi), "size_fmt of a value below one unit is not '<n> B'", r)
                continue
            ok = r[0] == "ok" and r[1].count(" ") == 1 and r[1].split(" ")[1] in units[1:]
            if ok:
                mant, unit = r[1].split(" ")
                k = units.index(unit)
                shown = int(mant.replace(".", ""))                       # tenths of a unit
                ok = "." in mant and len(mant.split(".")[1]) == 1 and abs(shown * base ** k - 10 * n) * 2 <= base ** k + (0 if kibi else base ** k // 10 ** 6)
                ok = ok and (base ** k <= n) and (n < base ** (k + 1) or k == 5)
            s.expect(ok, ("size_fmt", n, kibi), "size_fmt does not print the value, rounded to one decimal, in the largest unit not above it "
                     "(from base^6 on the last unit is divided once too often: 1024**6 prints as '1.0 PiB')", r, None,
                     finding=F_SIZE if n >= base ** 6 - base ** 6 // 2 ** 40 else None)   # (floats: values within 2^-40 of base^6 round up to it)
    # ---- SecBootBlckSize.align_block_fill_zeros, Endianness, change_endianness widths
    for L in range(0, 71):
        b = bytes(rng.getrandbits(8) | 1 for _ in range(L))
        r = pyres(sbmisc.SecBootBlckSize.align_block_fill_zeros, b)
        s.note(("sb_fill_zeros", b))
        reqs.append((("sb_fill_zeros", b), f"sb_fill_zeros {hexs(b)}", canon(r)))
        ok = (r[0] == "ok" and r[1][:L] == b and len(r[1]) % 16 == 0 and L <= len(r[1]) < L + 16 and set(r[1][L:]) <= {0}
              and pyres(sbmisc.SecBootBlckSize.to_num_blocks, len(r[1])) == ("ok", len(r[1]) // 16))
        s.expect(ok, ("sb_fill_zeros", b), "align_block_fill_zeros does not append zeros up to the next multiple of 16 / to_num_blocks refuses the result", r)
    vals_ = pyres(misc.Endianness.values)
    s.note(("endianness",))
    s.expect(vals_ == ("ok", ["big", "little"]) and all(int.from_bytes(b"\x01\x02", v) for v in vals_[1]), ("endianness",), "Endianness values are not big / little", vals_)
    reqs.append((("endianness",), "endianness", "ok:" + ",".join(_hx(n_) + "=" + _hx(m.value) for n_, m in misc.Endianness.__members__.items())))
    for L in range(0, 41):
        b = bytes(range(1, L + 1))
        r = pyres(misc.change_endianness, b)
        s.note(("change_endianness_width", L), cls=r[0])
        if L in (0, 1, 2) or L % 4 == 0:
            want = b[::-1] if L <= 4 else b"".join(b[i:i + 4][::-1] for i in range(0, L, 4))
            s.expect(r[0] == "ok" and bytes(r[1]) == want, ("change_endianness_width", L), "change_endianness is not the byte reversal (per 32-bit word beyond 4 bytes)", r, want)
        else:
            s.expect(r[0] == "E:spsdk", ("change_endianness_width", L), "change_endianness accepts a width that is neither 1, 2 nor a multiple of 4", r)
    corr(s, reqs)

    # ------------------------------------------------------------------ BcdVersion3.from_str / str
    s = ck.stream("bcd_version", "BcdVersion3.from_str(c + '.0.9') for every c of length <= L over '019aFxX_+- .' (L = 3 quick, 4 thorough) + samples of "
                  "length 4/5; random valid versions; DEFAULT; to_version; non-trivial = accepted or 3 components")
    reqs = []
    ALPHA = "019aFxX_+- ."
    comps = ["".join(t) for L in range(0, ck.budget(3, 4) + 1) for t in itertools.product(ALPHA, repeat=L)]
    comps += ["".join(rng.choice(ALPHA) for _ in range(rng.choice((4, 5)))) for _ in range(ck.budget(1500, 5000))]
    comps += ["9999", "99999", "0x99", "0X9_9", "١", "12 ", "\t1", "-0", "+0", "1__2", "0x", "0x_", "_", "a", "A", "9A", "10000", "1e1", "\x1c1"]
    texts = [c + ".0.9" for c in comps] + ["1.2.3", "1.2", "1.2.3.4", "", ".", "..", "...", "0.0.0", "9999.9999.9999", "1.0x2.3", "1.2.+3", "12345.0.0", "a.0.0", "1..2"]
    texts += [f"{rng.randrange(10000)}.{rng.randrange(10000)}.{rng.randrange(1000)}" for _ in range(200)]
    texts.append(sbmisc.BcdVersion3.DEFAULT)
    for text in texts:
        r = pyres(lambda: sbmisc.BcdVersion3.from_str(text))
        got = (r[1].major, r[1].minor, r[1].service) if r[0] == "ok" else None
        gram = BCD_GRAMMAR.match(text) is not None                     # the documented grammar, from the text alone (ASCII digits only)
        s.note(("from_str", text), nontrivial=r[0] == "ok" or text.count(".") == 2, cls=("grammar" if gram else "reject") + "/" + r[0])
        if all(ord(c) < 128 for c in text):
            reqs.append((("from_str", text), "bcd_from_str " + _hx(text), ("ok:%d.%d.%d" % got) if got else r[0]))
        if gram:
            want = tuple(int(p_, 16) for p_ in text.split("."))
            s.expect(got == want, ("from_str", text), "BcdVersion3.from_str does not parse a version that matches #.#.#", r, want)
            if got:
                back = pyres(lambda: sbmisc.BcdVersion3.from_str(str(r[1])))
                s.expect(str(r[1]) == ".".join(p_.lstrip("0") or "0" for p_ in text.split(".")) and back[0] == "ok" and back[1] == r[1], ("from_str", text),
                         "str(BcdVersion3) does not parse back to the same version", (str(r[1]), back))
                reqs.append((("bcd_str", got), "bcd_str %d %d %d" % got, "ok:" + _hx(str(r[1]))))
        else:
            s.expect(r[0] != "ok", ("from_str", text), "BcdVersion3.from_str accepts a text that is not #.#.# with 1-4 decimal digits per component "
                     "(sign, 0x prefix, underscore, blank, hex letter or non-ASCII digit)", got, "SPSDKError")
            s.expect(r[0] in ("ok", "E:spsdk"), ("from_str", text), "BcdVersion3.from_str rejects a malformed version with a non-SPSDK error", r[0], "E:spsdk")
    for v in ("1.2.3", sbmisc.BcdVersion3(1, 2, 3)):
        r = pyres(sbmisc.BcdVersion3.to_version, v)
        s.note(("to_version", str(v)))
        s.expect(r[0] == "ok" and r[1].nums == [1, 2, 3], ("to_version", str(v)), "to_version does not convert", r)
    for v in (5, None, b"1.2.3"):
        r = pyres(sbmisc.BcdVersion3.to_version, v)
        s.note(("to_version", repr(v)))
        s.expect(r[0] == "E:spsdk", ("to_version", repr(v)), "to_version accepts an unsupported type", r)
    for nums_ in ((10, 0, 0), (0, 0x1A, 0), (0, 0, 0x10000), (-1, 0, 0)):
        r = pyres(sbmisc.BcdVersion3, *nums_)
        s.note(("ctor", nums_))
        s.expect(r[0] == "E:spsdk", ("ctor", nums_), "BcdVersion3 accepts a number that is not BCD", r)
    corr(s, reqs)

    # ------------------------------------------------------------------ load_hex_string: file branch
    s = ck.stream("load_hex_file", "load_hex_string(name, size) with `name` an existing file, sizes 1,2,3,4,16,32: hex text exact / short / long, "
                  "0x/0X, upper case, trailing \\n / \\r\\n, leading blanks, separators, suffix, binary of right / wrong size, binary that is "
                  "all hex digits, empty file, lone 0x, undecodable bytes; a name that is itself a valid literal; non-trivial = distinct content")
    scratch = os.path.join(os.environ.get("VERIF_SCRATCH", "/tmp"), "c20-files-cwd")
    os.makedirs(scratch, exist_ok=True)
    reqs = []
    with _cwd(scratch):
        for size in (1, 2, 3, 4, 16, 32):
            key = bytes(rng.getrandbits(8) | 0x81 for _ in range(size))        # every byte >= 0x81: not ASCII, first byte not zero
            hx = key.hex()
            asc = bytes(rng.choice(b"0123456789abcdef") for _ in range(size))
            cases = [("hex", hx.encode(), key), ("hex_nl", hx.encode() + b"\n", key), ("hex_crlf", hx.encode() + b"\r\n", key), ("hex_0x", b"0x" + hx.encode(), key),
                     ("hex_0X_upper", b"0X" + hx.upper().encode() + b"\n", key), ("hex_lead", b"  \t" + hx.encode(), None),   # recorded: "0x" is prepended BEFORE the strip, so leading blanks make it "not a number"
                     ("hex_short", hx[2:].encode() or b"0", None), ("hex_long", hx.encode() + b"11", None), ("hex_zero_long", b"00" + hx.encode(), key),
                     ("hex_sep", (hx[:2] + "_" + hx[2:]).encode() if size > 1 else hx.encode(), key), ("hex_suffix", hx.encode() + b"ul", key),
                     ("bin", key, key), ("bin_short", key[:-1], None), ("bin_long", key + b"\x80", None), ("bin_ascii_hex", asc, None),
                     ("empty", b"", None), ("lone_0x", b"0x", None), ("text_bad", b"hello world, no key!"[:size] if size <= 4 else b"hello world, not a key", None),
                     ("undecodable", b"\xff\xfe" + hx.encode(), None), ("inner_blank", (hx[:1] + " " + hx[1:]).encode(), None)]
            for label, content, want in cases:
                for name in (f"k_{label}.txt", "0102"):
                    if name == "0102" and label not in ("hex", "bin", "empty", "bin_short"):
                        continue
                    with open(name, "wb") as fh:
                        fh.write(content)
                    r = pyres(misc.load_hex_string, name, size)
                    os.remove(name)
                    s.note(("file", label, size, name), cls=label + "/" + r[0])
                    reqs.append((("file", label, content, size, name), f"load_hex_file {hexs(content)} {_hx(name)} {size}", canon(r)))
                    if want is not None:
                        s.expect(r == ("ok", want), ("file", label, content, size), "load_hex_string(file) does not return the key stored in the file", r, want)
                    if r[0] == "ok":
                        s.expect(len(r[1]) == size, ("file", label, content, size), "load_hex_string(file) returns a key of the wrong size", r)
                    else:
                        s.expect(r[0] == "E:spsdk", ("file", label, content, size), "load_hex_string(file) fails with a non-SPSDK error", r)
                    if label in ("bin_short", "bin_long", "empty", "lone_0x", "undecodable", "hex_long", "inner_blank") and len(content) != size:
                        s.expect(r[0] == "E:spsdk", ("file", label, content, size), "load_hex_string(file) accepts a file that holds neither a number of "
                                 "that size nor exactly expected_size bytes", r)
    corr(s, reqs)


@contextlib.contextmanager
def _cwd(path):
    old = os.getcwd()
    os.chdir(path)
    try:
        yield
    finally:
        os.chdir(old)


def replay(ck, data):
    """Re-run the full quick sweep (all C20 domains are cheap and deterministic)."""
    run(ck)
