"""C20 - number parsing, alignment and byte-order helpers (spsdk/utils/misc.py, spsdk/sbfile/misc.py).

Obligations : Properties/C20.lean (theorems over Generated/PyFuns.lean = AST translation of the
              current source, and over the hand model Model/Misc.lean).
Correspondence: real function vs native model driver on exhaustive small domains + sampled big values.
Oracle      : the contract statements evaluated on the real functions (independent of the model).
"""
from __future__ import annotations

import itertools

from vcore import canon, hexs, pyres

ALPHA_BIG = "0179afboxul_-+ g"  # 16 characters (design §6 C20)
ALPHA_SMALL = "01_xbu"


def ref_value_to_int(s: str):
    """Independent reference of the documented number grammar (ASCII): returns int or None.

    [ws] [0x|0b|0o] digit-groups separated by single '_' [≤3 of u/l] [ws], case-insensitive.
    One recorded deviation that the code inherits from Python's int(): with the `0b` prefix the digits
    may themselves carry a second `0b`/`0b_` (e.g. "0b0b1" = 1); the grammar in Properties/C20.lean states it.
    """
    if s == "":
        return None
    t = s.strip(" \t\n\r\x0b\x0c\x1c\x1d\x1e\x1f").lower()
    base, body = 10, t
    if t[:2] in ("0x", "0b", "0o") and _split_ok(t[2:], {"0x": 16, "0b": 2, "0o": 8}[t[:2]]) is not None:
        base, body = {"0x": 16, "0b": 2, "0o": 8}[t[:2]], t[2:]
    return _split_ok(body, base)


def _split_ok(body, base):
    # strip suffix
    i = len(body)
    while i > 0 and body[i - 1] in "ul":
        i -= 1
    if len(body) - i > 3:
        return None
    num = body[:i]
    if base == 2 and num[:2] == "0b":
        num = num[2:]
        if num[:1] == "_":
            num = num[1:]
    if num == "":
        return None
    digs = "0123456789abcdef"[:base]
    groups = num.split("_")
    if any(g == "" or any(c not in digs for c in g) for g in groups):
        # a regex match with prefix whose int() fails is final (no retry without prefix) unless the
        # number/suffix structure itself did not match; distinguish: structure = [0-9a-f_]+[ul]{0,3}
        return None if not _structure(body) else "INVALID"
    return int("".join(groups), base)


def _structure(body):
    i = 0
    while i < len(body) and body[i] in "0123456789abcdef_":
        i += 1
    return i > 0 and len(body) - i <= 3 and all(c in "ul" for c in body[i:])


def ref_vti(s):
    r = ref_value_to_int(s)
    return None if r == "INVALID" else r


def run(ck):
    from spsdk.sbfile import misc as sbmisc
    from spsdk.sbfile.sb2 import commands as sb2cmd
    from spsdk.utils import misc

    ck.lean_obligations(generated=["PyFuns"])
    drv = ck.driver()
    ck.assume("Python int/bytes/str built-ins behave as documented (int(str, base), to_bytes, slicing)",
              "negative integers are outside the modelled domain of get_bytes_cnt_of_int/value_to_bytes/reverse_bits "
              "(the implementation loops forever or formats a sign; callers never pass them)",
              "non-ASCII strings are sampled by the oracle only (model is ASCII)")
    rng = ck.rng

    def corr(stream, reqs):
        """reqs: list of (input, request-line, real-canonical-line)."""
        if drv is None:
            return
        answers = drv.batch([r[1] for r in reqs])
        for (inp, _line, real), ans in zip(reqs, answers):
            stream.compare(inp, real, ans)

    # ------------------------------------------------------------------ generated integer functions
    s = ck.stream("int_helpers", "exhaustive (n,a) in [-3,70]x[-2,17]; check_range over [-4,6]^3 + boundary classes; "
                  "swap16/swap32/mem-id over boundary values 2^k-1,2^k,2^k+1 and random; non-trivial = distinct input")
    reqs = []
    for n in range(-3, 71):
        for a in range(-2, 18):
            r = pyres(misc.align, n, a)
            s.note(("align", n, a))
            reqs.append((("align", n, a), f"align {n} {a}", canon(r)))
            if a > 0 and n >= 0:
                ok = r[0] == "ok" and r[1] % a == 0 and n <= r[1] < n + a
                s.expect(ok, ("align", n, a), "align does not return the smallest multiple of the alignment not below the input", r)
            else:
                s.expect(r[0] == "E:spsdk", ("align", n, a), "align accepts a non-positive alignment or negative number", r)
    big = [rng.getrandbits(k) for k in (33, 64, 200, 512) for _ in range(4)]
    for n in big:
        for a in (1, 3, 4, 16, 512, 4096, 2 ** 40 + 1):
            r = pyres(misc.align, n, a)
            s.note(("align", n, a))
            reqs.append((("align", n, a), f"align {n} {a}", canon(r)))
            s.expect(r[0] == "ok" and r[1] % a == 0 and n <= r[1] < n + a, ("align", n, a), "align wrong on large value", r)
    vals = list(range(-4, 7))
    for x, lo, hi in itertools.product(vals, repeat=3):
        r = pyres(misc.check_range, x, lo, hi)
        s.note(("check_range", x, lo, hi))
        reqs.append((("check_range", x, lo, hi), f"check_range {x} {lo} {hi}", canon(r)))
        s.expect(r == ("ok", lo <= x <= hi), ("check_range", x, lo, hi), "check_range does not answer lo <= x <= hi", r, lo <= x <= hi)
    for k in (8, 16, 32, 64):
        for x in (-1, 0, 2 ** k - 1, 2 ** k, 2 ** k + 1):
            r = pyres(misc.check_range, x, 0, 2 ** k - 1)
            s.note(("check_range", x, 0, 2 ** k - 1))
            reqs.append((("check_range", x, k), f"check_range {x} 0 {2 ** k - 1}", canon(r)))
            s.expect(r == ("ok", 0 <= x <= 2 ** k - 1), ("check_range", x, 0, 2 ** k - 1), "check_range does not answer lo <= x <= hi", r)
    r0 = pyres(misc.check_range, 2 ** 32)
    s.expect(r0 == ("ok", False), ("check_range", 2 ** 32), "check_range default bounds are not [0, 2^32-1]", r0)
    sw16 = sorted(set([-2, -1, 0, 1, 0xFF, 0x100, 0x1234, 0xFFFE, 0xFFFF, 0x10000, 0x10001] + [rng.randrange(0x10000) for _ in range(200)]))
    for x in sw16:
        r = pyres(misc.swap16, x)
        s.note(("swap16", x))
        reqs.append((("swap16", x), f"swap16 {x}", canon(r)))
        if 0 <= x <= 0xFFFF:
            want = int.from_bytes(x.to_bytes(2, "big"), "little")
            s.expect(r == ("ok", want) and pyres(misc.swap16, want) == ("ok", x), ("swap16", x), "swap16 is not the byte swap / not an involution", r, want)
        else:
            s.expect(r[0] == "E:spsdk", ("swap16", x), "swap16 accepts out-of-range input", r)
    sw32 = sorted(set([-1, 0, 1, 0xFFFF, 0x10000, 0x12345678, 0xFFFFFFFE, 0xFFFFFFFF, 0x100000000] + [rng.getrandbits(32) for _ in range(200)]))
    for x in sw32:
        r = pyres(misc.swap32, x)
        s.note(("swap32", x))
        reqs.append((("swap32", x), f"swap32 {x}", canon(r)))
        if 0 <= x <= 0xFFFFFFFF:
            want = int.from_bytes(x.to_bytes(4, "big"), "little")
            s.expect(r == ("ok", want) and pyres(misc.swap32, want) == ("ok", x), ("swap32", x), "swap32 is not the byte swap / not an involution", r, want)
        else:
            s.expect(r[0] == "E:spsdk", ("swap32", x), "swap32 accepts out-of-range input", r)
    for size in list(range(0, 70)) + [rng.randrange(1 << 30) for _ in range(20)]:
        for nm, fn in (("sb_align", sbmisc.SecBootBlckSize.align), ("sb_is_aligned", sbmisc.SecBootBlckSize.is_aligned),
                       ("sb_num_blocks", sbmisc.SecBootBlckSize.to_num_blocks)):
            r = pyres(fn, size)
            s.note((nm, size))
            reqs.append(((nm, size), f"{nm} {size}", canon(r)))
            if nm == "sb_align":
                s.expect(r == ("ok", (size + 15) // 16 * 16), (nm, size), "SecBootBlckSize.align is not the 16-byte round-up", r)
            elif nm == "sb_is_aligned":
                s.expect(r == ("ok", size % 16 == 0), (nm, size), "SecBootBlckSize.is_aligned wrong", r)
            else:
                s.expect(r == (("ok", size // 16) if size % 16 == 0 else ("E:spsdk",)), (nm, size), "SecBootBlckSize.to_num_blocks wrong", r)
    for d in (0, 1, 8, 9, 0x10, 0xFF):
        for g in range(0, 16):
            r = pyres(sb2cmd.get_memory_id, d, g)
            s.note(("memory_id", d, g))
            reqs.append((("memory_id", d, g), f"memory_id {d} {g}", canon(r)))
            ok = r[0] == "ok" and pyres(sb2cmd.get_device_id, r[1]) == ("ok", d) and pyres(sb2cmd.get_group_id, r[1]) == ("ok", g)
            s.expect(ok, ("memory_id", d, g), "device/group id do not round-trip through the memory id", r)
            if r[0] == "ok":
                reqs.append((("device_id", r[1]), f"device_id {r[1]}", canon(pyres(sb2cmd.get_device_id, r[1]))))
                reqs.append((("group_id", r[1]), f"group_id {r[1]}", canon(pyres(sb2cmd.get_group_id, r[1]))))
    corr(s, reqs)
    s.exhaustive = False

    # ------------------------------------------------------------------ value_to_int on strings
    s = ck.stream("value_to_int", "every ASCII string of length <= L over the 16-character alphabet '%s' (L=4 quick, 5 thorough) "
                  "plus every string of length <= 6 (7 thorough) over '%s'; non-trivial = accepted or matching the regex structure" % (ALPHA_BIG, ALPHA_SMALL))
    L1 = ck.budget(4, 5)
    L2 = ck.budget(6, 7)
    strings = []
    for L in range(0, L1 + 1):
        strings.extend("".join(t) for t in itertools.product(ALPHA_BIG, repeat=L))
    seen = set(strings)
    for L in range(0, L2 + 1):
        for t in itertools.product(ALPHA_SMALL, repeat=L):
            st = "".join(t)
            if st not in seen:
                strings.append(st)
    extra = ["0X1F", " 0x1f ", "\t12\n", "0B101", "0O17", "1_000", "0x_1", "0b0b1", "0b0b_1", "0b_1", "12ul", "12ull", "12ulll", "12UL",
             "0x12u", "1__0", "_1", "1_", "0b2", "0o8", "0xg", "0b", "0x", "0o", "00", "007", "0b1_", "\x1c12\x1f", "١٢", "１２", "12 ",
             "٣", "0x１", "²", "1e3", "1.0", "-1", "+1", "0x-1", " ", "\n"]
    strings.extend(extra)
    reqs = []
    accepted = 0
    for st in strings:
        r = pyres(misc.value_to_int, st)
        ascii_ok = all(ord(c) < 128 for c in st)
        nontriv = r[0] == "ok" or _structure(st.strip().lower())
        s.note(st, nontrivial=nontriv, cls=r[0])
        if r[0] == "ok":
            accepted += 1
        if ascii_ok:
            want = ref_vti(st)
            s.expect(r == (("ok", want) if want is not None else ("E:spsdk",)), st,
                     "value_to_int disagrees with the documented number grammar (accept/reject or value)", r, want)
            reqs.append((st, "value_to_int " + hexs(st.encode()), canon(r)))
        else:
            # non-ASCII: must be rejected with an SPSDK error or be a pure whitespace-strip of an ASCII number
            core = st.strip()
            want = ref_vti(core) if all(ord(c) < 128 for c in core) else None
            s.expect(r == (("ok", want) if want is not None else ("E:spsdk",)), st, "value_to_int accepts a non-ASCII string with another meaning", r, want)
    # default argument and non-string branches
    for st, dflt in (("zz", 7), ("", 3), ("0x", 0)):
        r = pyres(misc.value_to_int, st, dflt)
        s.note(("default", st, dflt))
        s.expect(r == ("ok", dflt) if dflt is not None else True, ("default", st, dflt), "value_to_int ignores the default for invalid input", r, dflt)
    for b in (b"", b"\x01", b"\x01\x02", bytes(range(9))):
        r = pyres(misc.value_to_int, b)
        s.note(("bytes", b))
        s.expect(r == ("ok", int.from_bytes(b, "big")), ("bytes", b), "value_to_int(bytes) is not the big-endian value", r)
    corr(s, reqs)
    s.exhaustive = True
    ck.extra["value_to_int_accepted"] = accepted

    # ------------------------------------------------------------------ int <-> bytes
    s = ck.stream("int_bytes", "values 0..70000 step classes + boundary values 2^k-1,2^k,2^k+1 for k<=512 + random up to 2^512; "
                  "all (align_to_2n, byte_cnt in {None,1,2,3,4,8,16,65}) x endianness; non-trivial = distinct input")
    values = sorted(set(list(range(0, 300)) + [255, 256, 65535, 65536, 70000, 2 ** 24 - 1, 2 ** 24] +
                        [2 ** k + d for k in range(8, 513, 8) for d in (-1, 0, 1)] +
                        [rng.getrandbits(rng.choice([9, 17, 33, 70, 130, 512])) for _ in range(ck.budget(200, 4000))]))
    reqs = []
    for v in values:
        for a2n in (True, False):
            r = pyres(misc.get_bytes_cnt_of_int, v, a2n)
            s.note(("bytes_cnt", v, a2n))
            reqs.append((("bytes_cnt", v, a2n), f"bytes_cnt {v} {int(a2n)} 0", canon(r)))
            minimal = max(1, (v.bit_length() + 7) // 8)
            if a2n:
                want = minimal if minimal <= 2 else (minimal + 3) // 4 * 4
            else:
                want = minimal
            s.expect(r == ("ok", want), ("bytes_cnt", v, a2n), "get_bytes_cnt_of_int does not pick the documented width", r, want)
            for bc in (None, 1, 2, 3, 4, 8, 16, 65):
                for endian in (misc.Endianness.BIG, misc.Endianness.LITTLE):
                    if bc is not None and v > 2 ** 64 and rng.random() < 0.8:
                        continue
                    r = pyres(misc.value_to_bytes, v, a2n, bc, endian)
                    s.note(("value_to_bytes", v, a2n, bc, endian.value))
                    reqs.append((("value_to_bytes", v, a2n, bc, endian.value),
                                 f"value_to_bytes {v} {int(a2n)} {bc or 0} {int(endian == misc.Endianness.LITTLE)}", canon(r)))
                    if r[0] == "ok":
                        back = int.from_bytes(r[1], endian.value)
                        width_ok = len(r[1]) == (bc if bc else want)
                        s.expect(back == v and width_ok, ("value_to_bytes", v, a2n, bc, endian.value),
                                 "value_to_bytes does not round-trip or has the wrong width", r, (v, bc or want))
                    else:
                        s.expect(r[0] == "E:spsdk" and bc is not None and want > bc, ("value_to_bytes", v, a2n, bc, endian.value),
                                 "value_to_bytes rejects a value that fits (or raises a non-SPSDK error)", r)
    corr(s, reqs)

    # ------------------------------------------------------------------ byte strings
    s = ck.stream("byte_helpers", "every byte string of length <= 2 over {00,01,80,ff}, every length 0..66 with random content "
                  "(x3 quick, x40 thorough): reverse_bytes_in_longs, change_endianness, swap_bytes, align_block, extend_block, "
                  "BinaryPattern.get_block, reverse_bits; non-trivial = distinct input")
    blobs = [bytes(t) for L in range(0, 3) for t in itertools.product([0, 1, 0x80, 0xFF], repeat=L)]
    for L in range(0, 67):
        for _ in range(ck.budget(3, 40)):
            blobs.append(bytes(rng.getrandbits(8) for _ in range(L)))
    reqs = []
    for b in blobs:
        h = hexs(b)
        r = pyres(misc.reverse_bytes_in_longs, b)
        s.note(("rev_longs", b))
        reqs.append((("rev_longs", b), f"rev_longs {h}", canon(r)))
        if len(b) % 4 == 0:
            want = b"".join(b[i:i + 4][::-1] for i in range(0, len(b), 4))
            s.expect(r == ("ok", want) and pyres(misc.reverse_bytes_in_longs, want) == ("ok", b), ("rev_longs", b), "reverse_bytes_in_longs is not an involution on 4-byte words", r)
        else:
            s.expect(r[0] == "E:spsdk", ("rev_longs", b), "reverse_bytes_in_longs accepts a length that is not a multiple of 4", r)
        r = pyres(misc.change_endianness, b)
        s.note(("change_endianness", b))
        reqs.append((("change_endianness", b), f"change_endianness {h}", canon(r)))
        if len(b) in (1, 2) or len(b) % 4 == 0:
            ok = r[0] == "ok" and pyres(misc.change_endianness, bytes(r[1])) in (("ok", b), ("ok", bytearray(b)))
            s.expect(ok, ("change_endianness", b), "change_endianness is not an involution", r)
        else:
            s.expect(r[0] == "E:spsdk", ("change_endianness", b), "change_endianness accepts an unsupported length", r)
        r = pyres(misc.swap_bytes, b)
        s.note(("swap_bytes", b))
        reqs.append((("swap_bytes", b), f"swap_bytes {h}", canon(r)))
        if len(b) % 2 == 0:
            want = bytes(b[i ^ 1] for i in range(len(b)))
            s.expect(r == ("ok", want) and pyres(misc.swap_bytes, want) == ("ok", b), ("swap_bytes", b), "swap_bytes is not the pairwise swap / involution", r)
        else:
            s.expect(r[0] != "ok", ("swap_bytes", b), "swap_bytes accepts an odd length", r, finding=None)
        for a in (-1, 0, 1, 2, 4, 16, 64):
            for pad in (0, 0xFF, 0x5A):
                r = pyres(misc.align_block, b, a, pad)
                s.note(("align_block", b, a, pad))
                reqs.append((("align_block", b, a, pad), f"align_block {h} {a} {pad}", canon(r)))
                if a > 0:
                    ok = r[0] == "ok" and r[1][:len(b)] == b and len(r[1]) == (len(b) + a - 1) // a * a and set(r[1][len(b):]) <= {pad}
                    s.expect(ok, ("align_block", b, a, pad), "align_block does not only append padding up to the aligned length", r)
                else:
                    s.expect(r[0] == "E:spsdk", ("align_block", b, a, pad), "align_block accepts a non-positive alignment", r)
        for ln in (len(b) - 1, len(b), len(b) + 1, len(b) + 17):
            r = pyres(misc.extend_block, b, ln, 0xA5)
            s.note(("extend_block", b, ln))
            reqs.append((("extend_block", b, ln), f"extend_block {h} {ln} 165", canon(r)))
            if ln >= len(b):
                s.expect(r == ("ok", b + b"\xa5" * (ln - len(b))), ("extend_block", b, ln), "extend_block does not append exactly the padding", r)
            else:
                s.expect(r[0] == "E:spsdk", ("extend_block", b, ln), "extend_block accepts a shorter length", r)
    for size in list(range(0, 40)) + [255, 256, 257, 600]:
        for kind, v in (("zeros", 0), ("ones", 0), ("inc", 0), ("num", 0), ("num", 0xA5), ("num", 0x1234), ("num", 0x123456), ("num", rng.getrandbits(72))):
            pat = kind if kind != "num" else hex(v)
            r = pyres(lambda: misc.BinaryPattern(pat).get_block(size))
            s.note(("pattern", pat, size))
            reqs.append((("pattern", pat, size), f"pattern {kind} {v} {size}", canon(r)))
            s.expect(r[0] == "ok" and len(r[1]) == size, ("pattern", pat, size), "BinaryPattern.get_block returns the wrong length", r)
    for n in (1, 4, 8, 16, 32, 33, 64):
        for x in sorted(set(v for v in [0, 1, 2, 2 ** n - 1, 2 ** (n - 1)] + [rng.getrandbits(n) for _ in range(20)] if v < 2 ** n)):
            r = pyres(misc.reverse_bits, x, n)
            s.note(("reverse_bits", x, n))
            reqs.append((("reverse_bits", x, n), f"reverse_bits {x} {n}", canon(r)))
            want = int(format(x, f"0{n}b")[::-1], 2)
            s.expect(r == ("ok", want) and pyres(misc.reverse_bits, want, n) == ("ok", x), ("reverse_bits", x, n), "reverse_bits is not an involution on n-bit values", r)
    for n in (0x0, 0x1, 0x9, 0x10, 0x99, 0x123, 0x999, 0x1000, 0x9999):
        r = pyres(lambda: sbmisc.BcdVersion3.from_str(f"{n:X}.0.9999"))
        s.note(("bcd", n))
        ok = r[0] == "ok" and (r[1].major, r[1].minor, r[1].service) == (n, 0, 0x9999) and str(r[1]) == f"{n:X}.0.9999"
        s.expect(ok, ("bcd", n), "BcdVersion3 does not round-trip through its string form", r)
        reqs.append((("bcd_from", n), "bcd_from " + hexs(f"{n:X}".encode()), canon(("ok", n) if r[0] == "ok" else r)))
        reqs.append((("bcd_to", n), f"bcd_to {n}", "ok:" + f"{n:X}"))
    for bad in ("1.2", "1.2.3.4", "12345.0.0", "a.0.0", "1..2"):
        r = pyres(lambda: sbmisc.BcdVersion3.from_str(bad))
        s.note(("bcd_bad", bad))
        s.expect(r[0] != "ok", ("bcd_bad", bad), "BcdVersion3.from_str accepts a malformed version", r)
    corr(s, reqs)

    # ------------------------------------------------------------------ load_hex_string (literal branch)
    s = ck.stream("load_hex_string", "literal branch: hex strings of exact, short and long size, with/without 0x; non-trivial = distinct input")
    for size in (1, 4, 16, 32):
        good = bytes(rng.getrandbits(8) | 1 for _ in range(size))
        for lit in (good.hex(), "0x" + good.hex(), "0X" + good.hex().upper()):
            r = pyres(misc.load_hex_string, lit, size)
            s.note((lit, size))
            s.expect(r == ("ok", good), (lit, size), "load_hex_string does not return the literal's bytes", r)
        for lit in (good.hex() + "00", "zz" * size, (good + good).hex()):
            r = pyres(misc.load_hex_string, lit, size)
            s.note((lit, size))
            s.expect(r[0] == "E:spsdk", (lit, size), "load_hex_string accepts a literal of the wrong size / invalid literal", r)
        r = pyres(misc.load_hex_string, good, size)
        s.note((good, size))
        s.expect(r == ("ok", good), (good, size), "load_hex_string(bytes) is not the identity", r)


def replay(ck, data):
    """Re-run the full quick sweep (all C20 domains are cheap and deterministic)."""
    run(ck)
