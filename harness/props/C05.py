"""C05 - Secure Binary 3.1: hash chain, block keys and commands decode to the input.

Obligations   : Properties/C05.lean over Model/Sb31.lean + Generated/Sb31Consts.lean (tags, struct formats,
                header/KDF constants, `updTotalLength`, `chainStartHash`, `kdfData` re-extracted from the source).
Correspondence: `SecureBinary31.export()` of the real object vs the Lean model's `exportSb` on the same history of
                add_command / export calls, byte for byte (the signature bytes, random by design, are fed to the
                model from the real file); per-command `export()` vs `encCmd`; `derive_kdk/derive_block_key` vs `deriveKey`.
Oracle        : SPSDK has no SB3.1 parser.  The compiled, independently written ROM loader (`Rom.romLoad`) is run on
                the bytes SPSDK produced: it must accept, return exactly the commands and header values supplied,
                its signature obligations are discharged with `cryptography` directly (ECDSA P-256/P-384 with the
                ISK or root key; the ISK certificate with the root key), the authenticated ranges must tile the file,
                and every single-bit corruption of a produced file must be refused.
"""
from __future__ import annotations

import hashlib
import json
import os
import re

from vcore import REPO, VERIF, hexs, pyres

KEYS = REPO / "tests" / "_data" / "keys"
KINDS = ["erase", "load", "execute", "call", "fuses", "ifr", "cmac", "copy", "hashlock", "keyblob", "cfgmem", "fill", "fwcheck", "reset"]
U32 = 0xFFFFFFFF
_cache = {}


# ------------------------------------------------------------------------------------------------ keys (independent of spsdk)
def _raw_pub(pem_path):
    """x || y of the public key, via `cryptography` only."""
    from cryptography.hazmat.primitives.serialization import load_pem_private_key
    k = load_pem_private_key(pem_path.read_bytes(), None)
    n = k.public_key().public_numbers()
    cl = (k.curve.key_size + 7) // 8
    return n.x.to_bytes(cl, "big") + n.y.to_bytes(cl, "big")


def key_path(curve, name):
    return KEYS / f"ecc{curve}" / f"{name}_ecc{curve}.pem"


def raw_pub(curve, name):
    k = ("pub", curve, name)
    if k not in _cache:
        _cache[k] = _raw_pub(key_path(curve, name))
    return _cache[k]


def spsdk_key(curve, name):
    from spsdk.crypto.keys import PrivateKeyEcc
    k = ("sk", curve, name)
    if k not in _cache:
        _cache[k] = PrivateKeyEcc.load(str(key_path(curve, name)))
    return _cache[k]


def sig_provider(curve, name):
    from spsdk.crypto.signature_provider import PlainFileSP
    return PlainFileSP(str(key_path(curve, name)))


def ecdsa_ok(coord, pub, msg, sig):
    """ECDSA verification with `cryptography` directly (never through spsdk.crypto)."""
    from cryptography.exceptions import InvalidSignature
    from cryptography.hazmat.primitives import hashes
    from cryptography.hazmat.primitives.asymmetric import ec
    from cryptography.hazmat.primitives.asymmetric.utils import encode_dss_signature
    if coord not in (32, 48) or len(pub) != 2 * coord or len(sig) != 2 * coord:
        return False
    curve, h = (ec.SECP256R1(), hashes.SHA256()) if coord == 32 else (ec.SECP384R1(), hashes.SHA384())
    try:
        key = ec.EllipticCurvePublicNumbers(int.from_bytes(pub[:coord], "big"), int.from_bytes(pub[coord:], "big"), curve).public_key()
        key.verify(encode_dss_signature(int.from_bytes(sig[:coord], "big"), int.from_bytes(sig[coord:], "big")), msg, ec.ECDSA(h))
        return True
    except (InvalidSignature, ValueError):
        return False


def rotkh_of(curve, nroots):
    h = hashlib.sha256 if curve == 256 else hashlib.sha384
    hs = [h(raw_pub(curve, f"srk{i}")).digest() for i in range(nroots)]
    return hs[0] if nroots == 1 else h(b"".join(hs)).digest()


# ------------------------------------------------------------------------------------------------ commands
def mk_cmd(t):
    """driver token list -> SPSDK command object."""
    from spsdk.sbfile.sb31 import commands as C
    k = t[0]
    i = lambda x: int(x)  # noqa: E731
    b = lambda x: b"" if x == "-" else bytes.fromhex(x)  # noqa: E731
    if k == "erase":
        return C.CmdErase(address=i(t[1]), length=i(t[2]), memory_id=i(t[3]))
    if k == "load":
        return C.CmdLoad(address=i(t[1]), data=b(t[3]), memory_id=i(t[2]))
    if k == "execute":
        return C.CmdExecute(address=i(t[1]))
    if k == "call":
        return C.CmdCall(address=i(t[1]))
    if k == "fuses":
        return C.CmdProgFuses(address=i(t[1]), data=b(t[2]))
    if k == "ifr":
        return C.CmdProgIfr(address=i(t[1]), data=b(t[2]))
    if k == "cmac":
        return C.CmdLoadCmac(address=i(t[1]), data=b(t[3]), memory_id=i(t[2]))
    if k == "copy":
        return C.CmdCopy(address=i(t[1]), length=i(t[2]), destination_address=i(t[3]), memory_id_from=i(t[4]), memory_id_to=i(t[5]))
    if k == "hashlock":
        return C.CmdLoadHashLocking(address=i(t[1]), data=b(t[3]), memory_id=i(t[2]))
    if k == "keyblob":
        return C.CmdLoadKeyBlob(offset=i(t[1]), data=b(t[3]), key_wrap_id=i(t[2]))
    if k == "cfgmem":
        return C.CmdConfigureMemory(address=i(t[1]), memory_id=i(t[2]))
    if k == "fill":
        return C.CmdFillMemory(address=i(t[1]), length=i(t[2]), pattern=i(t[3]))
    if k == "fwcheck":
        return C.CmdFwVersionCheck(value=i(t[1]), counter_id=C.CmdFwVersionCheck.CounterID.from_tag(i(t[2])))
    if k == "reset":
        return C.CmdReset()
    raise ValueError(k)


def a16(n):
    return (n + 15) // 16 * 16


def cmd_size(t):
    """size of the exported command, from the format description (independent of model and code)."""
    k = t[0]
    dl = lambda x: 0 if x == "-" else len(x) // 2  # noqa: E731
    return {"erase": 32, "execute": 16, "call": 16, "copy": 32, "cfgmem": 16, "fill": 32, "fwcheck": 16, "reset": 16}.get(k) or \
        {"load": lambda: 32 + a16(dl(t[3])), "cmac": lambda: 32 + a16(dl(t[3])), "hashlock": lambda: 32 + a16(dl(t[3])) + 64,
         "fuses": lambda: 16 + a16(dl(t[2])), "ifr": lambda: 16 + a16(dl(t[2])), "keyblob": lambda: 16 + a16(dl(t[3]))}[k]()


def rnd_u32(rng):
    return rng.choice([0, 1, U32, 0x80000000, rng.getrandbits(32), rng.getrandbits(32), rng.getrandbits(16)])


def rnd_data(rng, n):
    return rng.randbytes(n)


def gen_cmd(rng, kind=None, dlen=None):
    """one in-range command as a driver token list."""
    k = kind or rng.choice(KINDS)
    if dlen is None:
        dlen = rng.choice([0, 1, 4, 15, 16, 17, 31, 32, 33, 48, 100, 240, 256, rng.randrange(0, 300)])
    u = lambda: str(rnd_u32(rng))  # noqa: E731
    if k == "erase":
        return [k, u(), u(), u()]
    if k in ("load", "cmac", "hashlock"):
        return [k, u(), u(), hexs(rnd_data(rng, dlen))]
    if k in ("execute", "call"):
        return [k, u()]
    if k == "fuses":
        return [k, u(), hexs(rnd_data(rng, dlen // 4 * 4))]
    if k == "ifr":
        return [k, u(), hexs(rnd_data(rng, dlen))]
    if k == "copy":
        return [k, u(), u(), u(), u(), u()]
    if k == "keyblob":
        return [k, str(rng.choice([0, 1, 0xFFFF, rng.getrandbits(16)])), str(rng.choice([16, 17, 18, 19, 0, 0xFFFF])), hexs(rnd_data(rng, dlen))]
    if k == "cfgmem":
        return [k, u(), u()]
    if k == "fill":
        return [k, u(), u(), u()]
    if k == "fwcheck":
        return [k, u(), str(rng.randrange(6))]
    return ["reset"]


def gen_stream(rng, target_len=None, ncmds=None):
    """command list whose stream (16-byte section header + commands) has a chosen length (multiple of 16)."""
    n = rng.choice([0, 1, 2, 3, 5, 8, 14, 25, 40]) if ncmds is None else ncmds
    cmds = [gen_cmd(rng) for _ in range(n)]
    if target_len is None:
        return cmds
    cur = 16 + sum(cmd_size(c) for c in cmds)
    while cmds and cur > target_len:
        cur -= cmd_size(cmds.pop())
    gap = target_len - cur  # a multiple of 16, >= 0
    if gap >= 32 and rng.random() < 0.85:
        # one data command closes the gap exactly; its data length sits at any residue mod 16
        kind = rng.choice(["load", "load", "cmac", "ifr", "keyblob"])
        body = gap - (32 if kind in ("load", "cmac") else 16)
        dl = max(body - rng.choice([0, 0, 1, 7, 15]), body - 15, 0) if body > 0 else 0
        c = gen_cmd(rng, kind, dl)
        assert cmd_size(c) == gap, (c[0], dl, gap)
        cmds.insert(rng.randrange(len(cmds) + 1), c)
        gap = 0
    while gap >= 16:
        cmds.append(["reset"] if rng.random() < 0.5 else ["execute", str(rnd_u32(rng))])
        gap -= 16
    return cmds


# ------------------------------------------------------------------------------------------------ containers
def gen_spec(rng, ops=None):
    root_curve = rng.choice([256, 384])
    isk = rng.random() < 0.6
    isk_curve = rng.choice([root_curve, root_curve, 256, 384]) if isk else None
    nroots = rng.choice([1, 2, 3, 4, 4])
    enc = rng.random() < 0.7
    dl = rng.choice([0, 1, 3, 15, 16, 17, 20, rng.randrange(0, 21)])
    desc = "".join(rng.choice("abcdefghijklmnopqrstuvwxyzABCXYZ0189 _-.") for _ in range(dl))
    return {
        "root_curve": root_curve, "isk_curve": isk_curve, "nroots": nroots, "used": rng.randrange(nroots),
        "user_data": hexs(rng.randbytes(rng.choice([0, 0, 4, 16, 36]))) if isk else "-",
        "enc": enc, "pck": rng.randbytes(rng.choice([16, 32])).hex(), "rights": rng.randrange(4),
        "ts": rng.choice([0] if rng.random() < 0.03 else [1, 2, 0x7FFFFFFF, 0xFFFFFFFF, 0x100000000, (1 << 64) - 1, rng.getrandbits(64) or 1, rng.getrandbits(40) or 1]),
        "fw": rng.choice([0, 1, 2, U32, rng.getrandbits(32)]), "flags": rng.choice([0, 0, 1, U32, rng.getrandbits(32)]),
        "desc": desc, "nxp": rng.random() < 0.2, "ops": ops if ops is not None else [],
    }


def build_real(spec):
    """-> (SecureBinary31, cert bytes, hash length)."""
    from spsdk.sbfile.sb31.images import SecureBinary31
    from spsdk.utils.crypto.cert_blocks import CertBlockV21
    rc = spec["root_curve"]
    pubs = [spsdk_key(rc, f"srk{i}").get_public_key() for i in range(spec["nroots"])]
    if spec["isk_curve"]:
        ic = spec["isk_curve"]
        cb = CertBlockV21(root_certs=pubs, ca_flag=False, used_root_cert=spec["used"], signature_provider=sig_provider(rc, f"srk{spec['used']}"),
                          isk_cert=spsdk_key(ic, "imgkey").get_public_key(),
                          user_data=(None if spec["user_data"] == "-" else bytes.fromhex(spec["user_data"])))
        sp, sign_curve = sig_provider(ic, "imgkey"), ic
    else:
        cb = CertBlockV21(root_certs=pubs, ca_flag=True, used_root_cert=spec["used"])
        sp, sign_curve = sig_provider(rc, f"srk{spec['used']}"), rc
    cb.calculate()
    sb = SecureBinary31(family="lpc55s3x", cert_block=cb, firmware_version=spec["fw"], signature_provider=sp,
                        pck=bytes.fromhex(spec["pck"]) if spec["enc"] else None, kdk_access_rights=spec["rights"] if spec["enc"] else None,
                        description=spec["desc"] or None, is_nxp_container=spec["nxp"], flags=spec["flags"], timestamp=spec["ts"],
                        is_encrypted=spec["enc"])
    cert = cb.export()
    return sb, cert, sign_curve // 8


def parse_rom(ans):
    """driver `rom` answer -> dict, or None when it is not a well-formed acceptance."""
    if not ans.startswith("ok "):
        return None
    try:
        hdr, cmds, obs, cov = [p.strip() for p in ans[3:].split("|")]
        ob_list = []
        for o in filter(None, obs.split(";")):
            c, pub, msg, sig = o.split()
            ob_list.append((int(c), bytes.fromhex(pub), b"" if msg == "-" else bytes.fromhex(msg), bytes.fromhex(sig)))
        return {"hdr": hdr, "cmds": [c for c in cmds.split(";") if c], "obs": ob_list,
                "cov": [tuple(map(int, c.split(","))) for c in cov.split()]}
    except (ValueError, TypeError):
        return None


def rom_query(drv, s, inp, line):
    """Ask the Spec-only ROM loader.  -> ('ok', dict) | ('rej', error name) | ('bad', None).
    An answer of any other shape is a malfunction of the driver, not a verdict of the loader: it is recorded as a broken
    correspondence and the caller skips its oracle."""
    ans = drv.ask(line)
    if ans.startswith("rej:") and re.fullmatch(r"rej:[A-Za-z]+[0-9]*", ans):
        return "rej", ans[4:]
    rom = parse_rom(ans)
    if rom is not None:
        return "ok", rom
    s.compare((inp, "rom"), "ok <hdr> | <cmds> | <obligations> | <coverage>  or  rej:<error>", ans[:80], "the ROM-model driver op answered in an unexpected shape")
    return "bad", None


def rom_line(spec, file_bytes, enc=None, rights=None, pck=None):
    rk = rotkh_of(spec["root_curve"], spec["nroots"])
    return (f"rom {pck if pck is not None else spec['pck']} {spec['rights'] if rights is None else rights} "
            f"{int(spec['enc'] if enc is None else enc)} {rk.hex()} {hexs(file_bytes)}")


def check_history(ck, drv, s, spec, tamper=None, builder=None, preloaded=(), build_finding=None):
    """Run one history (spec['ops']) on a real SecureBinary31 and on the model; oracle on every export.

    `builder(spec)` -> (SecureBinary31, cert bytes, hash length) (default: the API constructor path); `preloaded` are the
    commands the builder has already put into the object (configuration path).  Returns the list of exported files."""
    inp = spec
    built = pyres(builder or build_real, spec)
    if built[0] != "ok":
        s.expect(False, inp, "a well-formed container specification cannot be built", built, finding=build_finding)
        return []
    sb, cert, hl = built[1]
    # timestamp 0 (like None) means "now": the object's own value is what header and key derivation must agree on
    eff_ts = pyres(lambda: int(sb.timestamp))
    if eff_ts[0] != "ok" or not s.expect(spec["ts"] == 0 or eff_ts[1] == spec["ts"], inp, "the object does not keep the timestamp it was given", eff_ts, spec["ts"]):
        return []
    spec = dict(spec, ts=eff_ts[1])
    es = pyres(lambda: sb.cert_block.expected_size)
    s.expect(es == ("ok", len(cert)), inp, "cert_block.expected_size differs from the exported certificate block length", es, len(cert))
    model = drv is not None
    if model:
        a = drv.ask(f"new {hl} {spec['fw']} {spec['flags']} {spec['ts']} {hexs(spec['desc'].encode('ascii'))} {int(spec['nxp'])} "
                    f"{int(spec['enc'])} {spec['pck']} {spec['rights']} {hexs(cert)}")
        if not s.compare((inp, "new"), "ok", a, "constructor: model refuses a container the implementation builds"):
            model = False
    cmds, files, nexp = [], [], 0
    for c in preloaded:
        cmds.append(list(c))
        if model:
            drv.ask("add " + " ".join(c))
    sign_pub = raw_pub(spec["isk_curve"], "imgkey") if spec["isk_curve"] else raw_pub(spec["root_curve"], f"srk{spec['used']}")
    root_pub = raw_pub(spec["root_curve"], f"srk{spec['used']}")
    for op in spec["ops"]:
        if op[0] == "add":
            r = pyres(lambda: sb.sb_commands.add_command(mk_cmd(op[1:])))
            if r[0] != "ok":
                s.expect(False, inp, "an in-range command cannot be constructed", (op, r))
                return files
            cmds.append(op[1:])
            if model:
                drv.ask("add " + " ".join(op[1:]))
            continue
        nexp += 1
        hist = f"export#{nexp}"
        res = pyres(sb.export)
        if res[0] != "ok":
            s.expect(False, (inp, hist), "export() of a well-formed container raises", res)
            return files
        data = res[1]
        # ---- expected values straight from the inputs and the format description
        stream_len = 16 + sum(cmd_size(c) for c in cmds)
        bc = (stream_len + 255) // 256
        bs = 260 + hl
        total = 60 + hl + len(cert) + 2 * hl
        files.append((data, hl, total))
        exp_hdr = (f"{spec['flags']} {bc} {bs} {spec['ts']} {spec['fw']} {total} {7 if spec['nxp'] else 6} {60 + hl} "
                   f"{(spec['desc'].encode('ascii')[:16] + bytes(16))[:16].hex()}")
        s.expect(len(data) == total + bc * bs, (inp, hist), "file length is not block0 + block_count * block_size", len(data), total + bc * bs)
        # ---- correspondence with the model (signature bytes are an input of the model)
        if model:
            sig = data[total - 2 * hl:total]
            m = drv.ask(f"export {hexs(sig)}")
            s.compare((inp, hist), "ok:" + data.hex(), m, f"exported bytes differ between implementation and model ({hist})")
        # ---- oracle: the ROM loader on the implementation's bytes
        if drv is None:
            continue
        st_, rom = rom_query(drv, s, (inp, hist), rom_line(spec, data))
        if st_ == "bad":
            continue
        if not s.expect(st_ == "ok", (inp, hist), f"the ROM model refuses the container produced by {hist} of one object", f"rej:{rom}", "accepted"):
            continue
        s.expect(rom["hdr"] == exp_hdr, (inp, hist), "header fields read by the ROM model differ from the values supplied", rom["hdr"], exp_hdr)
        exp_cmds = [" ".join(c) for c in cmds]
        s.expect(rom["cmds"] == exp_cmds, (inp, hist), "commands decoded by the ROM model differ from the commands supplied",
                 rom["cmds"][:6], exp_cmds[:6])
        # signature obligations, discharged with `cryptography`
        obs = rom["obs"]
        s.expect(len(obs) == (2 if spec["isk_curve"] else 1), (inp, hist), "unexpected number of signature obligations", len(obs))
        for k, (coord, pub, msg, sg) in enumerate(obs):
            last = k == len(obs) - 1
            want = sign_pub if last else root_pub
            s.expect(pub == want, (inp, hist), "the container / ISK certificate is checked against a key other than the configured one", pub.hex(), want.hex())
            s.expect(ecdsa_ok(coord, pub, msg, sg), (inp, hist),
                     ("container signature (header | hash | certificate block)" if last else "ISK certificate signature") + " does not verify (ECDSA, cryptography)")
            if last:
                s.expect(msg == data[:total - 2 * hl] and sg == data[total - 2 * hl:total], (inp, hist), "signed range is not header | hash | certificate block")
        # coverage: authenticated ranges tile the file
        pos = 0
        tiles = True
        for st_, ln in rom["cov"]:
            tiles = tiles and st_ == pos
            pos += ln
        s.expect(tiles and pos == len(data), (inp, hist), "authenticated ranges do not tile the file (a byte is outside signature + hash chain coverage)",
                 rom["cov"][:4], len(data))
        # a loader with another key / access rights / mode must not decode the same commands (encrypted containers with commands)
        if spec["enc"] and cmds and tamper is not None and nexp == 1:
            st2, other = rom_query(drv, tamper, (inp, "rights"), rom_line(spec, data, rights=(spec["rights"] + 1) % 4))
            tamper.note((inp, "rights"), cls="wrong-rights")
            if st2 != "bad":
                tamper.expect(st2 == "rej" or other["cmds"] != exp_cmds, (inp, "rights"), "the block keys do not depend on the kdk access rights")
    return files


def gen_ops(rng, cmds, nexports):
    """history: commands, export; optionally more commands between the following exports."""
    ops = [["add"] + c for c in cmds] + [["export"]]
    for _ in range(nexports - 1):
        if rng.random() < 0.4:
            ops += [["add"] + gen_cmd(rng) for _ in range(rng.choice([1, 2, 5]))]
        ops.append(["export"])
    return ops



# ------------------------------------------------------------------------------------------------ configuration / CLI glue
KEY_WRAP = {1: {"NXP_CUST_KEK_INT_SK": 16, "NXP_CUST_KEK_EXT_SK": 17}, 2: {"NXP_CUST_KEK_INT_SK": 18, "NXP_CUST_KEK_EXT_SK": 19}}
CFG_FAMILIES = {"lpc55s36": 1, "mcxn947": 2}  # family -> key wraps version (spsdk/data/devices/*/database.yaml)
COUNTER_IDS = ["none", "nonsecure", "secure", "radio", "snt", "bootloader"]
CLI_KINDS = ["erase", "load", "execute", "fuses", "ifr", "cmac", "copy", "hashlock", "keyblob", "cfgmem", "fill", "fwcheck"]


def _num(rng, v):
    """a number the way configurations spell it: int, decimal string, hex string."""
    return rng.choice([v, str(v), hex(v), hex(v).upper().replace("0X", "0x")])


def _min_le(v):
    """value_to_bytes(v, little): minimal length, lengths above 2 rounded up to a multiple of 4."""
    n = max(1, (v.bit_length() + 7) // 8)
    if n > 2:
        n = (n + 3) // 4 * 4
    return v.to_bytes(n, "little")


def gen_cfg_cmd(rng, kind, family, tmp, idx):
    """-> (YAML item {name: {...}}, expected command as driver tokens) for one command kind and one of its YAML forms."""
    u = lambda: rnd_u32(rng)  # noqa: E731

    def datafile(data, hexform=False):
        f = tmp / f"d{idx}_{rng.getrandbits(32):08x}.{'txt' if hexform else 'bin'}"
        if hexform:
            f.write_text(data.hex())
        else:
            f.write_bytes(data)
        return f.name

    def words():
        ws = [rnd_u32(rng) for _ in range(rng.choice([1, 1, 2, 4, 5]))]
        if len(ws) == 1 and ws[0] and rng.random() < 0.5:
            return ws[0], b"".join(w.to_bytes(4, "little") for w in ws)  # a bare int
        return ",".join(rng.choice([str(w), hex(w)]) for w in ws), b"".join(w.to_bytes(4, "little") for w in ws)

    dl = rng.choice([1, 4, 15, 16, 17, 33, 100, 256, 300])
    a, m = u(), rng.choice([0, 0, 1, rnd_u32(rng)])
    mem = {} if m == 0 and rng.random() < 0.5 else {"memoryId": _num(rng, m)}
    if kind == "erase":
        ln = u()
        return {"erase": {"address": _num(rng, a), "size": _num(rng, ln), **mem}}, ["erase", str(a), str(ln), str(m)]
    if kind in ("load", "cmac", "hashlock"):
        data = rng.randbytes(dl)
        form = rng.choice(["file", "file", "values", "value"]) if kind == "load" else "file"
        if kind != "load" and rng.random() < 0.4:  # backward compatible spelling: load + authentication
            return ({"load": {"address": _num(rng, a), "file": datafile(data), "authentication": {"cmac": "cmac", "hashlock": "hashlocking"}[kind], **mem}},
                    [kind, str(a), str(m), hexs(data)])
        name = {"load": "load", "cmac": "loadCMAC", "hashlock": "loadHashLocking"}[kind]
        if form == "values":
            txt, data = words()
            return {name: {"address": _num(rng, a), "values": txt, **mem}}, [kind, str(a), str(m), hexs(data)]
        if form == "value":
            v = rng.choice([1, 0xFF, 0x1234, 0x123456, rng.getrandbits(32) or 1, rng.getrandbits(64) or 1])
            return {name: {"address": _num(rng, a), "value": _num(rng, v), **mem}}, [kind, str(a), str(m), hexs(_min_le(v))]
        return {name: {"address": _num(rng, a), "file": datafile(data), **mem}}, [kind, str(a), str(m), hexs(data)]
    if kind in ("execute", "call"):
        return {kind: {"address": _num(rng, a)}}, [kind, str(a)]
    if kind == "fuses":
        txt, data = words()
        return {"programFuses": {"address": _num(rng, a), "values": txt}}, ["fuses", str(a), hexs(data)]
    if kind == "ifr":
        form = rng.choice(["file", "values", "value"])
        if form == "file":
            data = rng.randbytes(dl)
            return {"programIFR": {"address": _num(rng, a), "file": datafile(data)}}, ["ifr", str(a), hexs(data)]
        if form == "values":
            txt, data = words()
            return {"programIFR": {"address": _num(rng, a), "values": txt}}, ["ifr", str(a), hexs(data)]
        v = rng.choice([1, 0xFFFF, 0x10000, rng.getrandbits(32) or 1])
        return {"programIFR": {"address": _num(rng, a), "value": _num(rng, v)}}, ["ifr", str(a), hexs(_min_le(v))]
    if kind == "copy":
        ln, dst, mf, mt = u(), u(), rng.choice([0, 1, rnd_u32(rng)]), rng.choice([0, 1, rnd_u32(rng)])
        item = {"addressFrom": _num(rng, a), "memoryIdFrom": _num(rng, mf), "size": _num(rng, ln), "addressTo": _num(rng, dst), "memoryIdTo": _num(rng, mt)}
        for k, v in (("memoryIdFrom", mf), ("memoryIdTo", mt)):
            if v == 0 and rng.random() < 0.5:
                del item[k]  # optional: defaults to 0
        return {"copy": item}, ["copy", str(a), str(ln), str(dst), str(mf), str(mt)]
    if kind == "keyblob":
        data = rng.randbytes(rng.choice([16, 32, 48, 5]))
        wname = rng.choice(["NXP_CUST_KEK_INT_SK", "NXP_CUST_KEK_EXT_SK"])
        off = rng.choice([0, 4, 0xFFFF, rng.getrandbits(16)])
        hexform = rng.random() < 0.4
        item = {"offset": _num(rng, off), "wrappingKeyId": wname, "file": datafile(data, hexform)}
        if hexform:
            item["plainInput"] = "hex"
        elif rng.random() < 0.5:
            item["plainInput"] = rng.choice(["bin", "no"])
        return {"loadKeyBlob": item}, ["keyblob", str(off), str(KEY_WRAP[CFG_FAMILIES[family]][wname]), hexs(data)]
    if kind == "cfgmem":
        return {"configureMemory": {"configAddress": _num(rng, a), **({} if m == 0 and rng.random() < 0.5 else {"memoryId": _num(rng, m)})}}, ["cfgmem", str(a), str(m)]
    if kind == "fill":
        ln, pat = u(), u()
        return {"fillMemory": {"address": _num(rng, a), "size": _num(rng, ln), "pattern": _num(rng, pat)}}, ["fill", str(a), str(ln), str(pat)]
    if kind == "fwcheck":
        cid = rng.randrange(6)
        return {"checkFwVersion": {"value": _num(rng, a), "counterId": COUNTER_IDS[cid]}}, ["fwcheck", str(a), str(cid)]
    return {"reset": {}}, ["reset"]


def gen_config(rng, spec, family, kinds, tmp):
    """configuration dictionary (what a YAML/JSON file holds) for `spec` + generated commands; -> (config, expected commands)."""
    rc = spec["root_curve"]
    cfg = {"family": family, "containerOutputFile": str(tmp / "out.sb3")}
    # certificate block: its own configuration file (in a flat configuration `signPrivateKey` would name both the key that
    # signs the ISK certificate and the key that signs the container)
    cb = {"family": family, "containerOutputFile": "cert_block.bin"}
    for i in range(spec["nroots"]):
        cb[f"rootCertificate{i}File"] = str(KEYS / f"ecc{rc}" / f"srk{i}_ecc{rc}.pub")
    cb["mainRootCertId"] = spec["used"]
    cb["mainRootCertPrivateKeyFile"] = str(key_path(rc, f"srk{spec['used']}"))
    if spec["isk_curve"]:
        ic = spec["isk_curve"]
        cb.update(useIsk=True, signingCertificateFile=str(KEYS / f"ecc{ic}" / f"imgkey_ecc{ic}.pub"))
        if spec["user_data"] != "-":
            (tmp / "userdata.bin").write_bytes(bytes.fromhex(spec["user_data"]))
            cb["signCertData"] = "userdata.bin"
        cfg["signPrivateKey"] = str(key_path(ic, "imgkey"))
    else:
        cb["useIsk"] = False
        cfg["signPrivateKey"] = str(key_path(rc, f"srk{spec['used']}"))
    (tmp / "cert_block.json").write_text(json.dumps(cb, indent=1))
    cfg["certBlock"] = "cert_block.json"
    if spec["enc"]:
        if rng.random() < 0.5:
            (tmp / "pck.txt").write_text(spec["pck"])
            cfg["containerKeyBlobEncryptionKey"] = "pck.txt"
        else:
            cfg["containerKeyBlobEncryptionKey"] = spec["pck"]
        cfg["kdkAccessRights"] = spec["rights"]
    else:
        cfg["isEncrypted"] = False
    cfg["firmwareVersion"] = _num(rng, spec["fw"])
    cfg["containerConfigurationWord"] = _num(rng, spec["flags"])
    if spec["desc"]:
        cfg["description"] = spec["desc"]
    if spec["nxp"]:
        cfg["isNxpContainer"] = True
    cfg["timestamp"] = _num(rng, spec["ts"])
    items, expected = [], []
    for i, k in enumerate(kinds):
        it, exp = gen_cfg_cmd(rng, k, family, tmp, i)
        items.append(it)
        expected.append(exp)
    cfg["commands"] = items
    return cfg, expected


def build_from_config(cfg, tmp):
    def b(_spec):
        import copy
        from spsdk.sbfile.sb31.images import SecureBinary31
        sb = SecureBinary31.load_from_config(copy.deepcopy(cfg), search_paths=[str(tmp)])
        return sb, sb.cert_block.export(), sb.signature_provider.signature_length // 2
    return b


def run_cli(cfg, tmp):
    """`nxpimage sb31 export -c <file>` through click's CliRunner -> bytes of the produced file."""
    from click.testing import CliRunner
    from spsdk.apps import nxpimage
    path = tmp / "cfg.json"
    path.write_text(json.dumps(cfg, indent=1))
    out = tmp / "out.sb3"
    if out.exists():
        out.unlink()
    r = CliRunner().invoke(nxpimage.main, ["sb31", "export", "-c", str(path)])
    if r.exit_code != 0 or not out.exists():
        return f"nxpimage sb31 export: exit {r.exit_code}: {(r.output or '')[-300:]} {r.exception!r}"
    return out.read_bytes()


def run_config_case(ck, drv, sg, spec):
    """One configuration case: spec carries `cfg` (dictionary as in a YAML/JSON file), `cfg_files` (name -> hex content of
    the data files next to it), `cfg_expected` (the commands it means) and `cfg_cli` (also go through the CLI)."""
    import shutil
    import tempfile
    from pathlib import Path
    tmp = Path(tempfile.mkdtemp(prefix="c05cfg-", dir=os.environ.get("VERIF_SCRATCH") or None))
    try:
        for name, hx in spec["cfg_files"].items():
            (tmp / name).write_bytes(bytes.fromhex(hx))
        cfg = dict(spec["cfg"], containerOutputFile=str(tmp / "out.sb3"))
        expected = [list(c) for c in spec["cfg_expected"]]
        files = check_history(ck, drv, sg, spec, builder=build_from_config(cfg, tmp), preloaded=expected, build_finding=spec.get("cfg_finding"))
        if spec.get("cfg_cli") and files and drv is not None:
            ref, hl, total = files[0]
            res = pyres(run_cli, cfg, tmp)
            if not sg.expect(res[0] == "ok" and isinstance(res[1], bytes), (spec, "cli"), "nxpimage sb31 export fails on a configuration that load_from_config accepts", res):
                return
            data = res[1]
            st_, rom = rom_query(drv, sg, (spec, "cli"), rom_line(spec, data))
            if st_ != "bad" and sg.expect(st_ == "ok", (spec, "cli"), "the ROM model refuses the file written by `nxpimage sb31 export`", f"rej:{rom}"):
                sg.expect(rom["cmds"] == [" ".join(c) for c in expected], (spec, "cli"), "CLI: decoded commands differ from the configuration", rom["cmds"][:6])
                sg.expect(all(ecdsa_ok(*o) for o in rom["obs"]), (spec, "cli"), "CLI: a signature obligation does not verify")
            # same header | hash and same data blocks as the API path (signatures are random); with timestamp 0 (= now) the two
            # objects may be built in different seconds, so only the lengths are comparable
            same = len(data) == len(ref) if spec["ts"] == 0 else data[:60 + hl] == ref[:60 + hl] and data[total:] == ref[total:] and len(data) == len(ref)
            sg.expect(same, (spec, "cli"),
                      "`nxpimage sb31 export` and load_from_config().export() disagree outside the signatures")
    finally:
        shutil.rmtree(tmp, ignore_errors=True)


def check_fuses_edge(ck, drv, se, spec):
    """PROGRAM_FUSES with a partial word (spec['ops'] = add fuses, add tail, export): refused by implementation and model, or decodes exactly."""
    t, tail = spec["ops"][0][1:], spec["ops"][1][1:]
    built = pyres(build_real, spec)
    if built[0] != "ok" or drv is None:
        return
    sb = built[1][0]
    r = pyres(lambda: (sb.sb_commands.add_command(mk_cmd(t)), sb.sb_commands.add_command(mk_cmd(tail))))
    ans = drv.ask("enc " + " ".join(t))
    se.compare(spec, r[0], ans if ans.startswith("E:") else "ok", "constructor of PROGRAM_FUSES with a partial word: implementation vs model")
    if r[0] == "E:spsdk":
        return  # refused: nothing is built
    res = pyres(sb.export)
    if not se.expect(res[0] == "ok", spec, "export raises for PROGRAM_FUSES data that was accepted by the constructor", res):
        return
    st_, rom = rom_query(drv, se, spec, rom_line(dict(spec, ts=int(sb.timestamp)), res[1]))
    if st_ == "bad":
        return
    rom = rom if st_ == "ok" else None
    se.expect(rom is not None and rom["cmds"] == [" ".join(t), " ".join(tail)], spec,
              "PROGRAM_FUSES data that is not a whole number of 32-bit words is accepted and decodes to other commands than supplied",
              None if rom is None else rom["cmds"], [" ".join(t), " ".join(tail)])


SPEC_OPS = {"rom", "parse", "romkdf"}


class Router:
    """Two processes of the same driver: the Spec-only ops (ROM loader = the property's oracle) never share a process with the ops that
    evaluate the model of the code.  A regenerated constant can make the MODEL arbitrarily slow or huge (seeded change C05d: an unreadable
    alignment made every load-type command a megabyte long and the single driver spun for the whole run): the model process then misses its
    short per-answer deadline, is killed by vcore's watchdog and every later model answer is a broken correspondence (`E:driver-died`) --
    while the oracle keeps running and still produces the concrete replay."""

    def __init__(self, model, spec):
        self.model, self.spec = model, spec

    def ask(self, line):
        return (self.spec if line.split(" ", 1)[0] in SPEC_OPS else self.model).ask(line)


def two_drivers(ck):
    model = ck.driver()
    if model is None:
        return None
    spec = ck.driver()
    if spec is None:
        return None
    model.answer_timeout = min(model.answer_timeout, float(os.environ.get("VERIF_C05_MODEL_TIMEOUT", "30")))   # model answers take milliseconds
    spec.answer_timeout = min(spec.answer_timeout, 120.0)
    return Router(model, spec)


# ------------------------------------------------------------------------------------------------ run
def run(ck, only=None):
    import logging
    logging.disable(logging.CRITICAL)
    from spsdk.sbfile.sb31 import functions as F

    # driver ops that evaluate Spec-only definitions (Spec/Sb31Rom.lean + Crypto/*: no import of Model/ or Generated/)
    ck.spec_ops = set(SPEC_OPS)
    ck.lean_obligations(generated=["Sb31Consts"])
    drv = two_drivers(ck)
    rng = ck.rng
    ck.assume("the ROM loader of the check (Model/Sb31.lean, namespace Rom) is written from SPSDK's format description; no NXP ROM is available to compare with",
              "ECDSA P-256/P-384, SHA-256/384, AES and CMAC of `cryptography`/OpenSSL behave as the standards say (the Lean reference implementations are validated against them by C09)",
              "the certificate block is an opaque input of the export model (its construction is property C03); the ROM model parses it and the harness verifies its signatures",
              "signatures are abstract in the theorems (CryptoLaws.verify_sign); the native ROM model emits them as obligations discharged with `cryptography`",
              "`cert_block.expected_size` equals the exported certificate block length (checked on every generated container)",
              "PROGRAM_FUSES data that is not a whole number of 32-bit words is refused by the constructor (modelled: newCmd; theorem constructed_cmd_in_domain)")

    if only is not None:
        s = ck.stream("replay", "replayed history")
        t = ck.stream("replay_tamper", "replayed history (key dependence)")
        for spec in only:
            s.note(spec)
            if "cfg" in spec:
                run_config_case(ck, drv, s, spec)
            elif spec.get("edge") == "fuses":
                check_fuses_edge(ck, drv, s, spec)
            else:
                check_history(ck, drv, s, spec, tamper=t)
        return

    # ---------------- 0. corpus: past failures first
    corpus = VERIF / "corpus" / "C05"
    if corpus.is_dir():
        s0 = ck.stream("corpus", "minimised histories of past violations (corpus/C05/*.json), same comparisons and oracle as `histories`")
        for f in sorted(corpus.glob("*.json")):
            for spec in json.loads(f.read_text()).get("specs", []):
                s0.note(spec, cls=f.stem)
                check_history(ck, drv, s0, _unjson(spec))

    # ---------------- 1. commands: export vs model encoder, ROM parse of the real bytes returns the input
    sc = ck.stream("commands", "every command kind x data lengths 0..64 (all residues mod 16) and larger, field values at 0/1/2^31/2^32-1/random: "
                   "real export() vs model encCmd; the ROM command parser applied to the real bytes (followed by random trailing bytes) must return the "
                   "command and leave exactly the trailing bytes; non-trivial = distinct command")
    lens = list(range(0, 66)) + [255, 256, 257, 1000]
    ncmd = ck.budget(6, 40)
    for kind in KINDS:
        for dl in (lens if kind in ("load", "fuses", "ifr", "cmac", "hashlock", "keyblob") else [0]):
            for _ in range(ncmd if dl == 0 or kind not in ("load",) else 1):
                t = gen_cmd(rng, kind, dl)
                sc.note(t, cls=kind)
                res = pyres(lambda: mk_cmd(t).export())
                if not sc.expect(res[0] == "ok", t, "an in-range command does not export", res):
                    continue
                sc.expect(len(res[1]) == cmd_size(t), t, "exported command length differs from the format description", len(res[1]), cmd_size(t))
                if drv is None:
                    continue
                sc.compare(t, "ok:" + res[1].hex(), drv.ask("enc " + " ".join(t)), "command bytes differ between implementation and model")
                trail = rng.randbytes(rng.choice([0, 16, 5]))
                back = drv.ask("parse " + hexs(res[1] + trail))
                if re.match(r"(ok [a-z]+( [0-9a-f-]+)* \| [0-9a-f-]+|rej:[A-Za-z]+)$", back):
                    sc.expect(back == f"ok {' '.join(t)} | {hexs(trail)}", t, "the ROM command parser does not return the command that was exported", back[:160])
                else:
                    sc.compare(t, "ok <cmd> | <rest>  or  rej:<error>", back[:80], "the ROM command parser driver op answered in an unexpected shape")
    # out-of-range / out-of-domain: only implementation vs model
    so = ck.stream("out_of_range", "fields that do not fit their struct code (2^32, 2^16 for key blob offset/wrap id), fuse data that is not a multiple of 4, "
                   "kdk access rights 4..5: implementation vs model (error class / bytes); non-trivial = distinct input")
    bad = [["erase", str(U32 + 1), "0", "0"], ["erase", "0", str(U32 + 1), "0"], ["erase", "0", "0", str(U32 + 1)], ["load", str(U32 + 1), "0", "00"],
           ["load", "0", str(U32 + 1), "00"], ["execute", str(U32 + 1)], ["call", str(1 << 40)], ["copy", "0", "0", str(U32 + 1), "0", "0"],
           ["copy", "0", "0", "0", "0", str(U32 + 1)], ["keyblob", "65536", "16", "00"], ["keyblob", "0", "65536", "00"], ["cfgmem", str(U32 + 1), "0"],
           ["cfgmem", "0", str(U32 + 1)], ["fill", "0", "0", str(U32 + 1)], ["fwcheck", str(U32 + 1), "1"], ["ifr", str(U32 + 1), "00"],
           ["fuses", str(U32 + 1), "00000000"], ["hashlock", str(U32 + 1), "0", "00"], ["cmac", "0", str(U32 + 1), "00"]]
    bad += [["fuses", "16", hexs(rng.randbytes(n))] for n in (1, 2, 3, 5, 6, 7, 17, 18, 19, 21)]
    for t in bad:
        so.note(t, cls=t[0])
        res = pyres(lambda: mk_cmd(t).export())
        if drv is not None:
            so.compare(t, "ok:" + res[1].hex() if res[0] == "ok" else res[0], drv.ask("enc " + " ".join(t)),
                       "out-of-range command: implementation and model disagree")

    # ---------------- 2. KDF: implementation vs model (generated kdfData) vs ROM-side formula
    sk = ck.stream("kdf", "derive_kdk / derive_block_key for PCK 128/192/256 bit, key length 128/256, access rights 0..3, timestamps and block numbers "
                   "at 0/1/2^32-1/2^64-1/random: implementation vs model deriveKey vs the ROM-side KDF; non-trivial = distinct argument tuple")
    for _ in range(ck.budget(120, 1500)):
        key = rng.randbytes(rng.choice([16, 16, 24, 32, 32]))
        const = rng.choice([0, 1, U32, (1 << 64) - 1, rng.getrandbits(64), rng.getrandbits(20), (1 << 96) - 1])
        rights, klen, blk = rng.randrange(4), rng.choice([128, 256]), rng.random() < 0.5
        inp = (key.hex(), const, rights, klen, blk)
        sk.note(inp, cls=f"{'blk' if blk else 'kdk'}/{klen}/pck{len(key) * 8}")
        res = pyres(F.derive_block_key if blk else F.derive_kdk, key, const, klen, rights)
        if not sk.expect(res[0] == "ok" and len(res[1]) == klen // 8, inp, "key derivation fails or returns a key of the wrong size", res):
            continue
        if drv is not None:
            sk.compare(inp, res[1].hex(), drv.ask(f"kdf {key.hex()} {const} {rights} {2 if blk else 1} {klen}"), "KDF: implementation vs model")
            rk = drv.ask(f"romkdf {key.hex()} {const} {rights} {int(blk)} {klen}")
            if re.fullmatch(r"[0-9a-f]{32}([0-9a-f]{32})?", rk):
                sk.expect(res[1].hex() == rk, inp, "derived key differs from the documented CMAC counter-mode KDF (ROM side)", res[1].hex(), rk)
            else:
                sk.compare(inp, "<16 or 32 bytes hex>", rk[:80], "the ROM KDF driver op answered in an unexpected shape")
    for rights in (4, 5, 255):
        spec = gen_spec(rng, ops=[])
        spec.update(enc=True, rights=rights)
        so.note(("rights", rights), cls="rights")
        r = pyres(build_real, spec)
        if drv is not None:
            a = drv.ask(f"new 32 1 0 1 - 0 1 {spec['pck']} {rights} 00")
            so.compare(("rights", rights), "ok" if r[0] == "ok" else r[0], a, "constructor with invalid kdk access rights: implementation vs model")

    # ---------------- 2b. KeyDerivator call sites: the class (constructor -> KDK, get_block_key) vs the generated call sites vs the ROM-side KDF,
    # every access-rights value x both key lengths the same number of times
    ss = ck.stream("kdf_sites", "KeyDerivator(pck, timestamp, key_length, kdk_access_rights): .kdk and .get_block_key(n) for EVERY access-rights value 0..3 x key length "
                   "128/256 (uniform: each of the 8 combinations equally often) x PCK 128/256 bit x timestamps / block numbers at 0/1/2^32-1/random: implementation vs model "
                   "(generated kdkCall / blkCall + kdfData); oracle: both keys equal the documented KDF under THESE access rights (ROM side) and differ from the keys "
                   "under every other access-rights value; non-trivial = distinct argument tuple")
    for rep in range(ck.budget(6, 60)):
        for rights in range(4):
            for klen in (128, 256):
                pck = rng.randbytes(rng.choice([16, 32]))
                ts = rng.choice([1, U32, (1 << 64) - 1, rng.getrandbits(64) or 1, rng.getrandbits(31) or 1])
                n = rng.choice([0, 1, 2, 255, 256, U32, rng.getrandbits(32), rng.getrandbits(10)])
                inp = (pck.hex(), ts, klen, rights, n)
                ss.note(inp, cls=f"rights={rights}/key={klen}")
                kd = pyres(F.KeyDerivator, pck, ts, klen, rights)
                if not ss.expect(kd[0] == "ok", inp, "KeyDerivator cannot be constructed for valid arguments", kd):
                    continue
                kdk = pyres(lambda: bytes(kd[1].kdk))
                bk = pyres(lambda: bytes(kd[1].get_block_key(n)))
                if not ss.expect(kdk[0] == "ok" and bk[0] == "ok" and len(kdk[1]) == klen // 8 and len(bk[1]) == klen // 8, inp,
                                 "KeyDerivator does not return keys of the requested size", (kdk, bk)):
                    continue
                if drv is None:
                    continue
                ss.compare((inp, "kdk"), kdk[1].hex(), drv.ask(f"kdk {pck.hex()} {ts} {klen} {rights}"), "KDK: KeyDerivator vs model through the generated call site")
                ss.compare((inp, "blk"), bk[1].hex(), drv.ask(f"blk {kdk[1].hex()} {n} {klen} {rights}"), "block key: get_block_key vs model through the generated call site")
                for r2 in range(4):
                    a = drv.ask(f"romkdf {pck.hex()} {ts} {r2} 0 {klen}")
                    if not re.fullmatch(r"[0-9a-f]{32}([0-9a-f]{32})?", a):
                        ss.compare((inp, "romkdf"), "<16 or 32 bytes hex>", a[:80], "the ROM KDF driver op answered in an unexpected shape")
                        break
                    b = drv.ask(f"romkdf {a} {n} {r2} 1 {klen}")
                    if not re.fullmatch(r"[0-9a-f]{32}([0-9a-f]{32})?", b):
                        ss.compare((inp, "romkdf"), "<16 or 32 bytes hex>", b[:80], "the ROM KDF driver op answered in an unexpected shape")
                        break
                    if r2 == rights:
                        ss.expect(kdk[1].hex() == a, inp, "the KDK is not the documented KDF of (PCK, timestamp) under the configured access rights", kdk[1].hex(), a)
                        ss.expect(bk[1].hex() == b, inp, "the block key is not the documented KDF of (KDK, block number) under the configured access rights", bk[1].hex(), b)
                    else:
                        ss.expect(kdk[1].hex() != a and bk[1].hex() != b, (inp, r2), "a key does not depend on the kdk access rights (same key under another value)", r2)

    # ---------------- 2c. validate() and export(cert_block=...): foreign signing key refused; override of the same length = the other block's container
    sv = ck.stream("validate_override", "(a) a SecureBinary31 whose signature provider holds ANOTHER key than the certificate block names: export() must raise an SPSDK error "
                   "(model: validateSb); (b) export(cert_block=b) with b = the export of a second certificate block of the same length (same keys, other ISK user data) or "
                   "b = b'' / None: real bytes vs model exportOv, ROM model accepts and returns the commands; (c) `otherlen`: b = a VALID block of another length (other "
                   "ISK user-data length): same oracle -- fails on the current tree, open finding C05-override-length (image_total_length keeps the object's own block "
                   "length; theorem export_override_other_length_refused); (d) `longer`: the own block followed by zero bytes: implementation vs model only; "
                   "non-trivial = distinct (container, case)")
    for _ in range(ck.budget(14, 150)):
        cmds = gen_stream(rng, None, ncmds=rng.choice([0, 1, 3]))
        spec = gen_spec(rng, ops=gen_ops(rng, cmds, 1))
        case = rng.choice(["foreign", "same", "same", "empty", "longer", "otherlen"])
        if case in ("same", "otherlen"):
            spec.update(isk_curve=spec["isk_curve"] or spec["root_curve"], user_data=hexs(rng.randbytes(rng.choice([4, 16, 36]))))
        inp = (spec, case)
        sv.note(inp, cls=case)
        built = pyres(build_real, spec)
        if not sv.expect(built[0] == "ok", inp, "a well-formed container specification cannot be built", built):
            continue
        sb, cert, hl = built[1]
        okc = all(pyres(lambda c=c: sb.sb_commands.add_command(mk_cmd(c)))[0] == "ok" for c in cmds)
        if not sv.expect(okc, inp, "an in-range command cannot be constructed"):
            continue
        sign_curve = spec["isk_curve"] or spec["root_curve"]
        sign_name = "imgkey" if spec["isk_curve"] else f"srk{spec['used']}"
        signer = raw_pub(sign_curve, sign_name)
        prov, ov = signer, None
        if case == "foreign":
            other = "srk0" if sign_name != "srk0" else "srk1"
            sb.signature_provider = sig_provider(sign_curve, other)
            prov = raw_pub(sign_curve, other)
        elif case == "same":
            b2 = pyres(build_real, dict(spec, user_data=hexs(rng.randbytes(len(bytes.fromhex(spec["user_data"]))))))
            if b2[0] != "ok":
                continue
            ov = b2[1][1]
        elif case == "otherlen":
            # a VALID certificate block of another length: same keys, ISK user data of another length
            ul = len(bytes.fromhex(spec["user_data"]))
            b2 = pyres(build_real, dict(spec, user_data=hexs(rng.randbytes(rng.choice([x for x in (4, 8, 16, 36, 40) if x != ul])))))
            if b2[0] != "ok":
                continue
            ov = b2[1][1]
        elif case == "empty":
            ov = b""
        elif case == "longer":
            ov = cert + bytes(rng.choice([4, 16]))
        res = pyres(lambda: sb.export(cert_block=ov) if ov is not None else sb.export())
        if case == "foreign":
            sv.expect(res[0] == "E:spsdk", inp, "export() with a signature provider whose key is not the one the certificate block names is not refused", res[0], "E:spsdk")
        elif case in ("same", "empty", "otherlen"):
            if not sv.expect(res[0] == "ok", inp, "export(cert_block=<valid certificate block>) of a well-formed container raises", res):
                continue
        total = 60 + hl + len(cert) + 2 * hl
        if drv is not None:
            eff_ts = int(sb.timestamp)
            a = drv.ask(f"new {hl} {spec['fw']} {spec['flags']} {eff_ts} {hexs(spec['desc'].encode('ascii'))} {int(spec['nxp'])} "
                        f"{int(spec['enc'])} {spec['pck']} {spec['rights']} {hexs(cert)}")
            for c in cmds:
                drv.ask("add " + " ".join(c))
            if res[0] == "ok":
                eff = ov if ov else cert
                sig = res[1][60 + hl + len(eff):60 + hl + len(eff) + 2 * hl]
            else:
                sig = b"\x00"
            m = drv.ask(f"expfull {signer.hex()} {prov.hex()} {hexs(sig)} {'-' if ov is None else 'empty' if ov == b'' else ov.hex()}") if a == "ok" else a
            sv.compare(inp, "ok:" + res[1].hex() if res[0] == "ok" else res[0], m, f"validate()/export(cert_block=...) [{case}]: implementation vs model")
            if case in ("same", "empty", "otherlen") and res[0] == "ok":
                st_, rom = rom_query(drv, sv, inp, rom_line(dict(spec, ts=eff_ts), res[1]))
                # open finding C05-override-length: predicate on the INPUT only (the override is a valid block whose length differs from the object's own)
                fnd = "C05-override-length" if case == "otherlen" and ov is not None and len(ov) != len(cert) else None
                if fnd:
                    total = 60 + hl + len(ov) + 2 * hl
                if st_ != "bad" and sv.expect(st_ == "ok", inp, "the ROM model refuses the container exported with a valid certificate block override", f"rej:{rom}", "accepted", finding=fnd):
                    sv.expect(rom["cmds"] == [" ".join(c) for c in cmds], inp, "commands decoded from the override container differ from the commands supplied", rom["cmds"][:6])
                    sv.expect(all(ecdsa_ok(*o) for o in rom["obs"]), inp, "a signature of the override container does not verify (ECDSA, cryptography)")
                    sv.expect(res[1][60 + hl:total - 2 * hl] == (ov or cert), inp, "the certificate block of the file is not the override")

    # ---------------- 3. containers: histories of add_command / export on ONE object
    sh = ck.stream("histories", "containers over {P-256,P-384 roots} x {no ISK, ISK P-256, ISK P-384} x 1..4 root keys x used root x {encrypted, plain} x PCK 128/256 x "
                   "access rights 0..3 x timestamps/firmware versions/flags at field limits x descriptions of 0..20 chars; 0..40 commands over all 14 kinds; stream "
                   "lengths at every multiple of 16 around 1..3 blocks (commands are 16-byte aligned, so these are all residues mod 256 that exist) and sampled up "
                   "to 64 KiB; 1-3 export() calls on one object, with add_command between them in 40% of the histories. Compared: real bytes vs model bytes per "
                   "export; oracle: ROM model accepts, returns the supplied commands/header, signature obligations verify, coverage tiles the file. "
                   "non-trivial = distinct (container, history)")
    st = ck.stream("tamper", "single-bit corruption at a random position of a produced file (classes: header, hash, certificate block, signature, block number, "
                   "block hash, payload): the ROM model must refuse it or a signature obligation must fail; a loader with different access rights must not decode the same commands; "
                   "non-trivial = distinct (file, position)")
    targets = [16 * k for k in range(1, 52)]  # 16 .. 816: every 16-byte residue through three blocks (256, 512, 768 boundaries +- 16)
    n_rand = ck.budget(400, 8000)
    plan = [("boundary", t) for t in targets] + [("random", None)] * n_rand + [("big", None)] * ck.budget(6, 200)
    if not ck.quick:
        plan += [("boundary", t) for t in targets] * 12
    for cls, target in plan:
        if cls == "big":
            target = 16 * rng.randrange(64, 4096)
            cmds = gen_stream(rng, target, ncmds=rng.choice([3, 10, 40]))
        elif cls == "boundary":
            cmds = gen_stream(rng, target, ncmds=rng.choice([0, 1, 2, 4]))
        else:
            cmds = gen_stream(rng, None)
        nexp = rng.choice([1, 2, 2, 3])
        spec = gen_spec(rng, ops=gen_ops(rng, cmds, nexp))
        stream_len = 16 + sum(cmd_size(c) for c in cmds)
        sh.note(spec, cls=f"{cls}/exports={nexp}/{'enc' if spec['enc'] else 'plain'}/blocks={min((stream_len + 255) // 256, 4)}{'+' if stream_len > 1024 else ''}")
        files = check_history(ck, drv, sh, spec, tamper=st)
        # tamper with one of the files
        if drv is not None and files and rng.random() < (0.5 if cls != "big" else 0.2):
            data, hl, total = files[rng.randrange(len(files))]
            region = rng.choice(["header", "hash", "cert", "sig", "blknum", "blkhash", "payload"])
            nblk = max(1, (len(data) - total) // (260 + hl))
            b0 = total + rng.randrange(nblk) * (260 + hl)
            lo, hi = {"header": (0, 60), "hash": (60, 60 + hl), "cert": (60 + hl, total - 2 * hl), "sig": (total - 2 * hl, total),
                      "blknum": (b0, b0 + 4), "blkhash": (b0 + 4, b0 + 4 + hl), "payload": (b0 + 4 + hl, b0 + 260 + hl)}[region]
            pos, bit = min(rng.randrange(lo, hi), len(data) - 1), rng.randrange(8)
            mut = bytearray(data)
            mut[pos] ^= 1 << bit
            st.note((spec, pos, bit), cls=region)
            stt, rom = rom_query(drv, st, (spec, pos, bit), rom_line(spec, bytes(mut)))
            if stt == "bad":
                continue
            detected = stt == "rej" or not all(ecdsa_ok(*o) for o in rom["obs"])
            st.expect(detected, (spec, pos, bit), f"a corrupted byte in the {region} region is accepted by the ROM model (not covered by signature + hash chain)")
    # ---------------- 4. glue: configuration dictionaries (YAML/JSON) -> load_from_config -> export, and the nxpimage CLI
    sg = ck.stream("config_glue", "generated configurations (every command kind in each of its YAML forms: file / values / value / authentication "
                   "spelling, numbers as int / decimal / hex strings, memoryId present or defaulted, key wrap names for key-wraps v1 and v2 families, "
                   "PCK as hex string or file, ISK / no ISK, encrypted / plain) through SecureBinary31.load_from_config: real bytes vs model bytes for the "
                   "commands the configuration MEANS (computed by the harness from the YAML semantics), ROM model decodes exactly those commands and the "
                   "configured header values; a subset also through `nxpimage sb31 export` (click CliRunner, schema validation included) and compared with "
                   "the API path outside the signatures; non-trivial = distinct configuration")
    import shutil
    import tempfile
    from pathlib import Path
    n_cfg, n_cli = ck.budget(70, 1400), ck.budget(14, 120)
    for n in range(n_cfg):
        family = rng.choice(sorted(CFG_FAMILIES))
        cli = n < n_cli
        pool = CLI_KINDS if cli else KINDS
        kinds = [pool[n % len(pool)]] + [rng.choice(pool) for _ in range(rng.choice([0, 1, 3, 6]))]
        rng.shuffle(kinds)
        spec = gen_spec(rng, ops=[["export"]] + ([["export"]] if rng.random() < 0.3 else []))
        if cli:
            spec["nxp"] = False
        tmp = Path(tempfile.mkdtemp(prefix="c05gen-", dir=os.environ.get("VERIF_SCRATCH") or None))
        try:
            cfg, expected = gen_config(rng, spec, family, kinds, tmp)
            spec.update(cfg=dict(cfg, containerOutputFile="out.sb3"), cfg_expected=expected, cfg_cli=cli,
                        cfg_files={f.name: f.read_bytes().hex() for f in sorted(tmp.iterdir()) if f.is_file()})
        finally:
            shutil.rmtree(tmp, ignore_errors=True)
        sg.note(spec, cls=f"{'cli' if cli else 'api'}/{family}/{kinds[0]}")
        run_config_case(ck, drv, sg, spec)
    # ---------------- 5. edges of the domain
    se = ck.stream("domain_edges", "PROGRAM_FUSES data that is not a whole number of words (API): refused with SPSDKError by implementation and model (or else must decode "
                   "to the data supplied); schema-valid configurations that leave out the optional memory ids of "
                   "copy / configureMemory must load with memory id 0; timestamp 0 (= now) containers are "
                   "consistent (also sampled in `histories`); non-trivial = distinct case")
    for n in (1, 2, 3, 5, 6, 7, 17, 18, 19, 21):
        spec = gen_spec(rng, ops=[["add", "fuses", "16", hexs(rng.randbytes(n))], ["add", "execute", "4096"], ["export"]])
        spec["edge"] = "fuses"
        se.note(spec, cls="fuses-partial-word")
        check_fuses_edge(ck, drv, se, spec)
    for n in range(ck.budget(4, 24)):
        family = rng.choice(sorted(CFG_FAMILIES))
        spec = gen_spec(rng, ops=[["export"]])
        spec["nxp"] = False
        if spec["ts"] == 0:
            spec["ts"] = 1
        tmp = Path(tempfile.mkdtemp(prefix="c05gen-", dir=os.environ.get("VERIF_SCRATCH") or None))
        try:
            cfg, expected = gen_config(rng, spec, family, ["copy", "cfgmem"], tmp)
            for it, exp in zip(cfg["commands"], expected):
                if "copy" in it:
                    it["copy"].pop("memoryIdFrom", None), it["copy"].pop("memoryIdTo", None)
                    exp[4], exp[5] = "0", "0"
                else:
                    it["configureMemory"].pop("memoryId", None)
                    exp[2] = "0"
            spec.update(cfg=dict(cfg, containerOutputFile="out.sb3"), cfg_expected=expected, cfg_cli=n % 2 == 0,
                        cfg_files={f.name: f.read_bytes().hex() for f in sorted(tmp.iterdir()) if f.is_file()})
        finally:
            shutil.rmtree(tmp, ignore_errors=True)
        se.note(spec, cls="cfg-optional-memid")
        run_config_case(ck, drv, se, spec)
    logging.disable(logging.NOTSET)


def _unjson(x):
    """undo vcore._jsonable for the values a spec contains (big ints are stored as {"int": "..."})."""
    if isinstance(x, dict):
        if set(x) == {"int"}:
            return int(x["int"])
        return {k: _unjson(v) for k, v in x.items()}
    if isinstance(x, list):
        return [_unjson(v) for v in x]
    return x


def _find_spec(x):
    if isinstance(x, dict) and "ops" in x:
        return _unjson(x)
    if isinstance(x, list):
        for v in x:
            r = _find_spec(v)
            if r is not None:
                return r
    return None


def replay(ck, data):
    specs = [sp for sp in (_find_spec(case.get("input")) for case in data.get("cases", [])) if sp is not None]
    run(ck, only=specs or None)
